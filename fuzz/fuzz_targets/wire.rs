//! One libFuzzer target for all C17 entry points: byte 0 selects the entry point, the rest is
//! the payload. The oracle is the property itself: the call returns (a panic aborts the process
//! and is the crash libFuzzer reports; -timeout catches non-termination).
#![no_main]
use libfuzzer_sys::fuzz_target;
use vf_wire::entry::{call, ENTRY_POINTS};

fuzz_target!(|data: &[u8]| {
    let Some((sel, payload)) = data.split_first() else { return };
    let ep = ENTRY_POINTS[*sel as usize % ENTRY_POINTS.len()];
    // known finding html_deep_nesting_stack_overflow: element nesting beyond 1,024 is excluded
    // (the driver also caps -max_len so that it cannot be reached)
    let _ = call(ep, payload);
});
