#!/usr/bin/env python3
"""mkmut.py <property> <name> <repo-relative-file> <old> <new> [<file2> <old2> <new2> ...]
Creates /verif/mutations/<property>/<name>.diff by editing /repo temporarily (reverted afterwards)."""
import subprocess, sys, os
prop, name = sys.argv[1:3]
rest = sys.argv[3:]
assert len(rest) % 3 == 0
REPO = os.environ.get("MKMUT_REPO", "/repo")
subprocess.run(["git", "-C", REPO, "diff", "--quiet"], check=True)
try:
    for i in range(0, len(rest), 3):
        f, old, new = rest[i:i+3]
        p = os.path.join(REPO, f)
        s = open(p).read()
        assert s.count(old) >= 1, f"pattern not found in {f}: {old!r}"
        s = s.replace(old, new, 1)
        open(p, "w").write(s)
    d = subprocess.run(["git", "-C", REPO, "diff"], capture_output=True, text=True, check=True).stdout
    os.makedirs(f"/verif/mutations/{prop}", exist_ok=True)
    open(f"/verif/mutations/{prop}/{name}.diff", "w").write(d)
    print("wrote", f"/verif/mutations/{prop}/{name}.diff", len(d.splitlines()), "lines")
finally:
    subprocess.run(["git", "-C", REPO, "checkout", "--", "."], check=True)
