#!/usr/bin/env python3
"""verify_seed.py <Cnn> [<seed-dir>]  Independently confirms a seeded change delivered by a sub-agent in
/tmp/seed-<Cnn> (or <seed-dir>) using the scratch worktree /tmp/wt-verify:
  1. patch applies to a clean checkout of /repo's HEAD,
  2. the pinned test suite (workspace nextest run) passes with it (only the always-failing ui test may fail),
  3. the demonstration fails with the patch and passes without it.
On success copies the seed to /verif/seeded/<Cnn>/ and records what was run in meta.json."""
import subprocess, sys, os, json, re, shutil

pid = sys.argv[1]
src = sys.argv[2] if len(sys.argv) > 2 else f"/tmp/seed-{pid}"
dest_name = sys.argv[3] if len(sys.argv) > 3 else pid
WT = os.environ.get("VERIFY_WT", "/tmp/wt-verify")
ENV = dict(os.environ, RUSTUP_TOOLCHAIN="1.88.0", CARGO_NET_OFFLINE="true", CARGO_TARGET_DIR=f"{WT}/target")


def sh(cmd, **kw):
    return subprocess.run(cmd, shell=True, capture_output=True, text=True, env=ENV, **kw)


def clean():
    sh(f"git -C {WT} checkout -- . && git -C {WT} clean -fdq -e target")


meta = json.load(open(f"{src}/meta.json"))
patch = f"{src}/patch.diff"
log = []
clean()
head = sh(f"git -C {WT} rev-parse HEAD").stdout.strip()
repo_head = sh("git -C /repo rev-parse HEAD").stdout.strip()
assert head == repo_head, (head, repo_head)
r = sh(f"git -C {WT} apply {patch}")
if r.returncode != 0:
    print("FAIL: patch does not apply:", r.stderr)
    sys.exit(1)
log.append("patch applies to " + head)

# 2. pinned suite
r = sh(f"cd {WT} && cargo nextest run --workspace --no-fail-fast --test-threads 12 --offline 2>&1 | tail -80")
out = r.stdout
summ = [l for l in out.splitlines() if "tests run:" in l]
tail_ = out[out.rfind("Summary"):] if "Summary" in out else out
failed = sorted(set(re.findall(r"^\s+(?:FAIL|SIGABRT|SIGSEGV|TIMEOUT|LEAK)\s+\[[^\]]*\]\s+(?:\(\s*\d+/\d+\)\s+)?(\S+ \S+)", tail_, re.M)))
log.append("suite: " + (summ[-1].strip() if summ else "NO SUMMARY") + " failed=" + repr(failed))
suite_ok = bool(summ) and all("id_macros::ui" in f for f in failed) and len(failed) <= 1 and "error: could not compile" not in out
print("suite:", log[-1])
if not suite_ok:
    print(out[-3000:])
    clean()
    print("FAIL: pinned suite does not pass with the patch")
    sys.exit(1)

# 3. demo
cmd = meta["demo_cmd"]
cmd = re.sub(r";\s*(rm|echo) .*$", "", cmd)
for f in ("demo/Cargo.toml", "demo/README.md"):
    fp = os.path.join(src, f)
    if os.path.exists(fp):
        t = open(fp).read()
        open(fp, "w").write(re.sub(r"/tmp/wt-C\d\d(-\d)?", WT, t))
cmd = re.sub(r"/tmp/wt-C\d\d(-\d)?", WT, cmd)
cmd = re.sub(r"CARGO_TARGET_DIR=\S+", f"CARGO_TARGET_DIR={WT}/target", cmd)
r1 = sh(cmd + " 2>&1 | tail -30; exit ${PIPESTATUS[0]}", executable="/bin/bash")
log.append(f"demo with patch: exit {r1.returncode}")
sh(f"git -C {WT} apply -R {patch}")
r2 = sh(cmd + " 2>&1 | tail -30; exit ${PIPESTATUS[0]}", executable="/bin/bash")
log.append(f"demo without patch: exit {r2.returncode}")
clean()
print(log[-2], "|", log[-1])
if not (r1.returncode != 0 and r2.returncode == 0):
    print("--- with patch\n", r1.stdout[-2500:], "\n--- without patch\n", r2.stdout[-2500:])
    print("FAIL: demo does not discriminate")
    sys.exit(1)
if "could not compile" in r1.stdout or "error[E" in r1.stdout:
    print(r1.stdout[-2500:])
    print("FAIL: demo fails to compile with patch (not a behavioural failure)")
    sys.exit(1)

dest = f"/verif/seeded/{dest_name}"
if os.path.exists(dest):
    shutil.rmtree(dest)
shutil.copytree(src, dest, ignore=shutil.ignore_patterns("target", "*.lock.bak"))
meta["confirmed"] = {
    "base_commit": head,
    "demo_cmd_used": cmd,
    "log": log,
    "demo_tail_with_patch": r1.stdout[-1200:],
}
json.dump(meta, open(f"{dest}/meta.json", "w"), indent=1)
print("OK ->", dest)
