#!/usr/bin/env python3
"""sens.py [<property> ...]  Applies every /verif/mutations/<property>/*.diff (and /verif/seeded/*/patch.diff whose
meta.json names the property) to /repo, runs the quick check, reverts, and prints whether the check fired."""
import subprocess, sys, os, glob, json, time
seeded_only = "--seeded" in sys.argv
# --shadow: patch /tmp/wt-verify instead of /repo and run the checks against it (VERIF_REPO), so that
# /repo stays untouched while other runs read it
REPO = "/tmp/wt-verify2" if "--shadow2" in sys.argv else "/tmp/wt-verify" if "--shadow" in sys.argv else "/repo"
ENV = dict(os.environ, VERIF_REPO=REPO, VERIF_SHADOW="/tmp/verif-shadow2" if "--shadow2" in sys.argv else "/tmp/verif-shadow") if REPO != "/repo" else dict(os.environ)
args = [a for a in sys.argv[1:] if not a.startswith("--")]
if REPO != "/repo" and not os.path.isdir(REPO):
    # the scratch checkout is removed at the end of a session: recreate it at /repo's HEAD
    subprocess.run(["git", "-C", "/repo", "worktree", "prune"], check=False)
    subprocess.run(["git", "-C", "/repo", "worktree", "add", "--detach", REPO, "HEAD"], check=True)
props = args or sorted(os.listdir("/verif/mutations"))
subprocess.run(["git", "-C", REPO, "diff", "--quiet"], check=True)
rows = []
import shutil, atexit
_saved = {}
for prop in props:
    ev = f"/verif/evidence/{prop}.json"
    if os.path.exists(ev):
        _saved[ev] = open(ev, "rb").read()
def _restore():
    # evidence written while a patch was applied describes a broken tree: put the clean-tree file back
    for ev, data in _saved.items():
        open(ev, "wb").write(data)
    subprocess.run("rm -rf /verif/replays/*/new", shell=True)
atexit.register(_restore)
for prop in props:
    patches = [] if seeded_only else sorted(glob.glob(f"/verif/mutations/{prop}/*.diff"))
    for m in ([] if "--mutations" in sys.argv else sorted(glob.glob("/verif/seeded/*/meta.json"))):
        try:
            meta = json.load(open(m))
        except Exception:
            continue
        round_filter = next((a.split("=")[1] for a in sys.argv if a.startswith("--round=")), None)
        if round_filter and not os.path.dirname(m).endswith("-" + round_filter):
            continue
        if meta.get("property") == prop:
            patches.append(os.path.join(os.path.dirname(m), "patch.diff"))
    for patch in patches:
        r = subprocess.run(["git", "-C", REPO, "apply", patch], capture_output=True, text=True)
        if r.returncode != 0:
            rows.append((prop, patch, "APPLY-FAILED", r.stderr.strip()[:100]))
            subprocess.run(["git", "-C", REPO, "checkout", "--", "."])
            continue
        t = time.time()
        try:
            out = subprocess.run(["/verif/check", prop, "--tier", "quick"], capture_output=True, text=True, timeout=3600, env=ENV)
            code = out.returncode
            first = next((l for l in out.stdout.splitlines() if l.startswith("  check=") or l.startswith("INCONCLUSIVE")), "")
        finally:
            subprocess.run(["git", "-C", REPO, "checkout", "--", "."], check=True)
        rows.append((prop, patch.replace("/verif/", ""), {0: "MISSED", 1: "caught", 2: "inconclusive"}.get(code, str(code)), f"{time.time()-t:.0f}s {first[:160]}"))
        print(*rows[-1], flush=True)
print()
for r in rows:
    print(" | ".join(r))
