#!/usr/bin/env python3
"""mkreplay.py <property> <check> <name> <message> <input-json>  -> /verif/replays/<property>/<name>.json"""
import json, os, sys
prop, check, name, msg, inp = sys.argv[1:6]
d = os.path.join(os.path.dirname(os.path.dirname(os.path.abspath(__file__))), "replays", prop)
os.makedirs(d, exist_ok=True)
json.dump({"property": prop, "check": check, "message": msg, "input": json.loads(inp), "ruma_rev": "f2d424b"}, open(os.path.join(d, name + ".json"), "w"), indent=1)
