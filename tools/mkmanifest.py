#!/usr/bin/env python3
"""Regenerates /verif/MANIFEST.json from the table below (single source of truth)."""
import json, os
ROOT = os.path.dirname(os.path.dirname(os.path.abspath(__file__)))
props = [json.loads(l) for l in open(os.path.join(ROOT, "properties.jsonl"))]

# id -> (engine crate, technique, level text, level note, design ref)
CHECKS = {
 "C16": ("vf-api", "property-based testing (proptest) of request/response round trips through an independent router + bounded-exhaustive enumeration of version subsets against a reference path selection",
         "Synthetic endpoints declared with the public macros (one per field-attribute kind: path, query, query_all, required/optional headers, body fields, newtype body, raw body) and a sample of real client / federation / appservice / push-gateway endpoints plus the client error response travel request -> HTTP -> router (own path matcher and percent-decoder) -> request' -> HTTP and must be identical field by field and byte by byte, over a reserved-character alphabet; for every endpoint METADATA scanned from the tree at check time (211 + 5 synthetic histories) x all 2^15 subsets of Matrix versions (quick: every distinct history shape) make_endpoint_url must equal the reference selection; Authorization header per AuthScheme x token mode; X-Matrix values and header texts round-trip.",
         "Trusted: the hand-written router / percent-decoder / selection reference, http crate types. Excluded by construction and counted: empty path arguments, `opt=` for optional query values (form encoding cannot express Some(\"\")), values the encoder refuses. Two open known findings (non-ASCII header values, default Content-Type on raw bodies).",
         "DESIGN.md section 5 C16"),
 "C17": ("vf-wire", "mutation-based fuzzing driven by proptest through supervised worker processes: byte-level and structure-level mutations of valid seeds for 46 entry points, crash / abort / hang detection and an isolation canary",
         "Valid seeds of 46 wire-facing entry points are mutated at byte level (bit flips, dictionary insertions, truncation, splices, boundary-length runs, invalid UTF-8) and structure level (field deletion/duplication/swap, type swaps, hostile identifiers, numeric extremes, JSON nesting to 1,000, HTML nesting to 21,845) and fed in long sequences to one supervised worker process per shard (calls on a 2 MiB stack): a reported panic, an abnormal process exit or a reproducible watchdog silence is a violation; every 250 calls the valid seeds are re-evaluated in the same process and must give byte-identical results (a rejected input leaves no state behind).",
         "Bounds: inputs <= 64 KiB, JSON nesting <= 1,024, HTML nesting <= 21,845, 2 MiB stack. A watchdog hit not reproduced by three fresh 30 s runs is inconclusive (exit 2). One open known finding (HTML recursion: stack overflow beyond ~5,000 nested elements); nesting <= 1,024 remains a hard check.",
         "DESIGN.md section 5 C17"),
 "C18": ("vf-events", "property-based testing (proptest): schema-driven event generation, typed round-trip fixpoint with a duplicate-rejecting reader, metamorphic key permutation / unknown-field insertion",
         "Events of 50 types generated from hand-written spec schemas (optional fields, unknown fields at several depths, key permutation, full / sync / stripped formats, unsigned variants, redacted forms for room versions 1-11 produced by the C04 reference redaction, unknown types): the matching Any* enum must deserialise them, expose the JSON's type / sender / ids / timestamp / state key, pick the redacted variant exactly when unsigned.redacted_because is present; typed content -> JSON -> typed -> JSON must be a fixpoint without duplicate keys that alters no value present and ignores key order and unknown fields; Raw returns the text byte for byte and get_field agrees with a full parse.",
         "Trusted: the hand-written schemas (client-server spec), the C04 reference redaction, serde_json as JSON reader on the oracle side plus an own duplicate-key detector. Unknown-type contents are not serialisable by design (totality only).",
         "DESIGN.md section 5 C18"),
 "C19": ("vf-api", "bounded-exhaustive pairwise check of all specified spellings plus property-based near-miss / random string generation against a hand-written spelling table",
         "63 string enums (ruma-common, ruma-events incl. the seven event-type enums, ruma-state-res, client / federation / identity / push-gateway API crates) with 330+ spellings and their dedicated variants written from the specification: every spelling maps to its variant and back, nothing else maps to a dedicated variant, unknown strings (case flips, one-character edits, prefixes/suffixes, whitespace, random Unicode) are returned byte for byte, the alias maps to its canonical spelling, wildcard types keep their suffix; idempotence, Display / JSON agreement, == and Ord consistency (string order for the hand-listed AsRefStr-ordered types).",
         "Trusted: the hand-written table. Unstable-feature variants are not compiled in. Enums with std-derived Ord are only checked for total-order consistency (declaration order is what the code documents).",
         "DESIGN.md section 5 C19"),
 "C20": ("vf-stateres", "bounded-exhaustive threshold-cell enumeration plus property-based random contents; differential against auth_check and the push condition",
         "For room versions 3-11 every helper (ban / kick / unban / invite a given user, send a message or state event type, trigger a room notification, effective level) is compared with ruma's auth_check on the corresponding event in a minimal room, and with the sender_notification_permission push condition, over cells where each threshold the action reads and the target's level are absent or just below / at / above the actor's level (integer and pre-v10 string spellings), plus random full contents.",
         "Trusted: ruma's auth_check as the statement of the authorization rules (itself checked against the spec by C08). Redaction helpers and user_can_change_user_power_level are outside the property's list; self-kick/unban not generated.",
         "DESIGN.md section 5 C20"),
 "C01": ("vf-core", "property-based testing (proptest): value+spelling co-generation, reference encoder, metamorphic re-spelling, round-trip, rejection of poisoned documents",
         "Random search over JSON values generated together with one arbitrary textual spelling (key order, whitespace, escape style incl. surrogate pairs, duplicate keys, boundary integers, control/astral characters): every entry path must yield exactly the bytes of a reference canonical encoder written from the spec, a second spelling must give identical bytes, canonical bytes must parse back equal; documents containing one unrepresentable number must be rejected by every entry path.",
         "Trusted: rustc/std, proptest, serde_json's parser for building inputs (cross-checked because text and value are generated side by side), the hand-written reference encoder. Duplicate keys: last occurrence wins. Non-finite floats are outside the property.",
         "DESIGN.md section 5 C01"),
 "C02": ("vf-core", "property-based testing (proptest) with model + differential oracle: signing histories against a ring-based model, tampering metamorphic relations, ring-vs-dalek differential",
         "Random signing histories (1-3 signers, three PKCS#8 document forms, repeated/interleaved sign_json calls) compared as whole objects with a model whose signatures are produced by ring over the reference canonical JSON; every stored signature verified by ring; one tampering or neutral change then decides verify_json's expected outcome; malformed `signatures` shapes check that an erroring call leaves the object unchanged; (key, signature, message) triples incl. mutated ones compare verify_canonical_json_bytes with ring.",
         "Trusted: ring 0.17 Ed25519 (independent of ed25519-dalek) as RFC 8032 reference, the reference canonical JSON encoder, hand-written base64.",
         "DESIGN.md section 5 C02"),
 "C03": ("vf-core", "property-based testing (proptest): PDU generator x room versions x signer sets x post-signing mutations against reference redaction/hash and ring verification",
         "Random well-formed PDUs of room versions 1-11 signed by every server the version demands (rules obtained through RoomVersionId::rules()), then one post-signing change whose expected verify_event outcome (All / Signatures / Err) is derived from the reference redaction table and content-hash coverage; stored hash and signatures are re-derived with hand-written SHA-256 and checked with ring over the reference-redacted canonical JSON; redacted copies (reference and ruma redaction) must still verify.",
         "Trusted: ring, reference redaction table / canonical JSON / SHA-256 (self-tested against ring::digest). Corners not asserted: v11 third_party_invite without signed, third-party invites whose redaction changes the required signer set, events with no required signer.",
         "DESIGN.md section 5 C03"),
 "C04": ("vf-core", "bounded-exhaustive table enumeration plus property-based testing against a reference redaction table transcribed from the room-version specs",
         "Every (room version, event type, key) cell of the redaction table is enumerated through objects that contain every key any version mentions plus unspecified keys; random events with arbitrary subsets/nested values and malformed shapes on top. Result must equal the reference redaction exactly (keys and deep values), be idempotent, and redact / redact_in_place / redact_content_in_place must agree; errors only for the documented malformed shapes.",
         "Trusted: the reference table (hand-transcribed from the spec's redaction sections for v1, v6, v8, v9, v11). Rules are obtained through RoomVersionId::rules() so version wiring is under test.",
         "DESIGN.md section 5 C04"),
 "C05": ("vf-core", "property-based testing (proptest) with reference hash functions, metamorphic mutations and constructed 65,535-byte boundary cases",
         "Random PDUs of every room version: content_hash and reference_hash must equal hand-written SHA-256 + base64 (alphabet by version) over the reference canonical JSON of the (reference-redacted) event; one mutation inside/outside each covered portion must change / not change the hash; reference hash invariant under ruma's redaction; padded events whose measured canonical form has exactly 65,531-65,540 bytes decide the size limit.",
         "Trusted: hand-written SHA-256/base64 (self-tested against ring::digest at start-up), reference redaction and canonical JSON.",
         "DESIGN.md section 5 C05"),
 "C06": ("vf-stateres", "property-based testing (proptest) over simulated room histories: permutation / duplication metamorphic relations and repeated runs on fresh threads with OS-seeded hashers, against a fixed-point reference",
         "For merge instances drawn from simulated multi-server room histories (tie-forcing timestamps): every permutation of the state-set list with the auth-chain list permuted consistently and independently, a duplicated set, 1-3 identical sets (must be returned unchanged), and repeated runs on fresh threads - std's RandomState gives fresh hasher keys per thread and per map - must all return one map, equal to the BTree-based reference of C07.",
         "Hash iteration orders and thread schedules are sampled, not enumerated (no hook rewrites the public StateMap alias). Trusted: the C07 reference as fixed point.",
         "DESIGN.md section 5 C06"),
 "C07": ("vf-stateres", "model-based property testing: stateful room-history generator (vec of ops + interpreter) against a reference implementation of state resolution v2; bounded-exhaustive + random check of the topological sort",
         "Simulated rooms under the rules of versions 2-11 (forks, merge events, concurrent power-level / membership / join-rule / ordinary state changes, bans racing joins, events without power-level ancestor, adversarial timestamps, salted event ids; only branch-valid events); any 2-4 DAG nodes are merged and resolve() must equal a reference written from the spec text over ordered maps (unconflicted/conflicted split, auth difference, reverse topological power ordering with sender power from the event's own auth events, iterative auth checks, mainline ordering with position infinity, unconflicted overlay). lexicographical_topological_sort is checked on all DAGs up to 3 (thorough 4) nodes x all key assignments and on random DAGs against 'always the minimum ready node'.",
         "Trusted: ruma's auth_check as the authorization sub-routine of the reference (authorization itself is C08/C09's subject), the hand-written resolution reference. One reading left open by the spec (auth-chain closure through unconflicted events) is counted, not asserted.",
         "DESIGN.md section 5 C07"),
 "C08": ("vf-stateres", "bounded-exhaustive enumeration of rule-group dimension products plus property-based concretisation, against a reference implementation of the authorization rules",
         "For every room version 1-11 (rules through RoomVersionId::rules()) the full product of the dimensions each authorization rule reads is enumerated (77k cells: create, federation prelude, aliases, join incl. restricted joins, invites, third-party invites with ring-made signatures, leave/kick/ban/unban with thresholds below/at/above, knock, unknown memberships, required power, state keys naming users, redaction, power-level changes field by field and entry by entry with int/string/float spellings) and compared with a rule-by-rule reference written from the spec; random renamings, level shifts and irrelevant state/content on top.",
         "Trusted: the hand-written reference rules, ring for third-party-invite signatures. Spec-silent readings (missing join rules, added/removed power-level fields, float/padded levels before v10, malformed state) are tagged and not asserted; rule 2's auth_events bookkeeping is outside the property's list.",
         "DESIGN.md section 5 C08"),
 "C09": ("vf-stateres", "bounded-exhaustive comparison of the auth-event selection, instrumented fetch_state closure, and property-based metamorphic perturbation of unselected state",
         "Over every C08 cell: auth_types_for_event as a set equals the reference selection; the caller-supplied fetch_state closure logs every (type, state_key) auth_check asks for and the log must stay inside the selection; random perturbations (1-6) of state entries outside the selection - other users' memberships, other tokens, same types under other keys, removals, replacements - must leave the outcome unchanged.",
         "Trusted: the reference selection (server-server spec). Memberships a room version does not define and contents ruma refuses to select for: totality only.",
         "DESIGN.md section 5 C09"),
 "C10": ("vf-core", "property-based testing (proptest): grammar/mutant/boundary string generation against a hand-written necessary/sufficient grammar oracle plus cross-form agreement",
         "Random structured search over identifier strings per type (grammar-derived, 1-2 edit mutants, 255/511/767-byte boundary constructions, unstructured) with an accept=>necessary / sufficient=>accept oracle written from the spec appendix, accessor recomposition, agreement of all parsing/serde forms, and constructor outputs re-parsed. Shrunk failures become replay files.",
         "Trusted: rustc/std (incl. Ipv6Addr parser), proptest, serde_json. Spec-silent gaps (ports 65536-99999, server-less room ids, empty localparts, over-long key algorithms) are counted, not asserted.",
         "DESIGN.md section 5 C10"),
 "C11": ("vf-core", "property-based testing (proptest): constructor-built URI values and mutated URI texts, round-trip oracle plus independent percent-decoder",
         "Random URI values built through every public constructor over grammar-derived and hostile identifiers (reserved, percent, non-ASCII characters; 0-3 via servers) must satisfy parse(format(u)) == u and an independent percent-decoder applied to the formatted path must give back the identifier bytes; formatted URIs with edits, token soups and arbitrary strings must parse or error without panicking, and every parsed value must re-format to text that parses to the same value (covers custom actions).",
         "Trusted: rustc/std, proptest, the hand-written percent decoder. Identifiers with an empty opaque part are excluded by construction (C10 grammar gap).",
         "DESIGN.md section 5 C11"),
 "C12": ("vf-core", "bounded-exhaustive enumeration of glob pattern x value pairs plus property-based testing of rulesets against a reference evaluator",
         "All glob patterns over a 6-letter alphabet up to length 3 (thorough 4) x all values over a 7-letter alphabet up to length 4 (thorough 5) in whole-value and word-boundary mode against a dynamic-programming glob matcher; random longer patterns; random rulesets x events x contexts against a reference implementation of flattening, every condition kind and first-enabled-match ordering; conditions are aimed at properties the event really has.",
         "Trusted: the hand-written reference (glob, word-boundary rule = not both neighbours are word characters, flattening, rule order), std's Unicode lower-casing. Spec-silent corners (empty word-mode patterns, glob display names, notification keys other than room) are counted, not asserted.",
         "DESIGN.md section 5 C12"),
 "C14": ("vf-html", "property-based testing (proptest) and bounded-exhaustive enumeration: grammar-generated HTML x configurations against a policy-driven reference cleaner, html5gum token view and re-parse cross-view",
         "HTML generated from a grammar over allowed / deprecated / forbidden / foreign elements with attributes in arbitrary order, every URI scheme spelling, comments, malformed markup and nesting up to 320 levels, under strict / compat mode with and without reply-fallback removal and under builder configurations held as plain data; the sanitized DOM must equal the result of a reference cleaner driven by a policy derived independently from the configuration (strict lists transcribed from the spec), and the serialised output is tokenised by html5gum and re-parsed, both views checked against the policy. Every URI value x {a/href, img/src} x 0-2 companion attributes in both orders is enumerated exhaustively.",
         "Trusted: html5gum (independent tokenizer), html5ever as the parser of the INPUT (the sanitizer, not the parser, is under test), the hand-written policy. Depth is counted in the input tree; scheme rules apply to an attribute's local name; token view only where no raw-text/foreign element may survive.",
         "DESIGN.md section 5 C14"),
 "C15": ("vf-html", "property-based testing (proptest): idempotence metamorphic relation, allow-list grammar documents as fixed points, documented rewriting of deprecated constructs",
         "For the C14 inputs in strict/compat mode (with/without reply-fallback removal) sanitize(out) must equal parse-and-reserialise(out) and sanitizing one document object twice must equal once; documents generated from the allow-list grammar (parser-normal by construction, every allowed attribute, allowed schemes/classes, up to 70 extra nesting levels, optional mx-reply) must come back byte-identical; font/strike documents must equal their documented rewriting.",
         "Trusted: html5ever parse/serialise as the normaliser on both sides of the comparison. Generated clean documents that are not parser-normal are counted as generator misses (0 observed).",
         "DESIGN.md section 5 C15"),
 "C13": ("vf-core", "model-based testing: bounded-exhaustive enumeration of operation sequences plus proptest random sequences against a Vec-per-kind placement model",
         "Every operation sequence up to length 2 over the full alphabet (insert with every after/before anchor pair, remove, set_enabled, set_actions, reserved ids, default-rule targets) from the empty, the server-default and every populated arrangement of up to three rules, deeper sequences over a reduced alphabet, and random sequences up to 40 operations, each step compared with a model of the documented placement semantics; errors must leave the ruleset unchanged; panics are caught.",
         "Trusted: rustc/std, proptest, the hand-written model (documented semantics in rustdoc of Ruleset::insert). Self-anchored inserts and overrides without a leading master rule are only partially asserted.",
         "DESIGN.md section 5 C13"),
}

def entry(pid):
    crate, technique, text, note, ref = CHECKS[pid]
    return {
        "property_id": pid,
        "quick_cmd": f"./check {pid} --tier quick",
        "thorough_cmd": f"./check {pid} --tier thorough",
        "evidence_file": f"/verif/evidence/{pid}.json",
        "replay_cmd_template": f"./check {pid} --replay {{path}}",
        "engine": crate,
        "level_claimed": {"category": "exploration", "text": text, "design_ref": ref},
        "level_note": note,
        "technique": technique,
    }

manifest = {
    "version": 1,
    "setup_cmd": "cd /verif/harness && CARGO_NET_OFFLINE=true RUSTUP_TOOLCHAIN=1.88.0 cargo build --release --workspace",
    "hooks": {
        "guard": "--cfg ruma_verif",
        "enable": "no hooks are needed: every observation point is public API or a caller-supplied closure; checks build /repo's crates unmodified as path dependencies",
        "baseline_off_cmd": "cd /repo && RUSTUP_TOOLCHAIN=1.88.0 cargo nextest run --workspace --no-fail-fast --test-threads 8 --offline || (cd /repo && RUSTUP_TOOLCHAIN=1.88.0 cargo test --workspace --no-fail-fast --offline)",
        "source_commits": [],
        "add_only": True,
    },
    "engines": [
        {"name": c, "path": f"/verif/harness/{c}", "serves_properties": sorted(p for p, v in CHECKS.items() if v[0] == c),
         "kind_free_text": "proptest-driven property checks with reference-model oracles, bounded-exhaustive enumeration, shrinking to replay files"}
        for c in sorted({v[0] for v in CHECKS.values()})
    ],
    "checks": [entry(p["id"]) for p in props if p["id"] in CHECKS],
    "not_applicable": [
        {"property_id": p["id"], "reason": "check not built yet (planned in DESIGN.md section 5; the technique applies)"}
        for p in props if p["id"] not in CHECKS
    ],
    "notes": "All checks decide their property by generated-input search against an explicit oracle (DESIGN.md). Exit 0 held / 1 VIOLATION / 2 inconclusive. known_findings.json lists recorded genuine defects.",
}
json.dump(manifest, open(os.path.join(ROOT, "MANIFEST.json"), "w"), indent=1)
print("checks:", [c["property_id"] for c in manifest["checks"]])
