#!/usr/bin/env python3
"""Regenerates /verif/MANIFEST.json from the table below (single source of truth)."""
import json, os
ROOT = os.path.dirname(os.path.dirname(os.path.abspath(__file__)))
props = [json.loads(l) for l in open(os.path.join(ROOT, "properties.jsonl"))]

# id -> (engine crate, technique, level text, level note, design ref)
CHECKS = {
 "C10": ("vf-core", "property-based testing (proptest): grammar/mutant/boundary string generation against a hand-written necessary/sufficient grammar oracle plus cross-form agreement",
         "Random structured search over identifier strings per type (grammar-derived, 1-2 edit mutants, 255/511/767-byte boundary constructions, unstructured) with an accept=>necessary / sufficient=>accept oracle written from the spec appendix, accessor recomposition, agreement of all parsing/serde forms, and constructor outputs re-parsed. Shrunk failures become replay files.",
         "Trusted: rustc/std (incl. Ipv6Addr parser), proptest, serde_json. Spec-silent gaps (ports 65536-99999, server-less room ids, empty localparts, over-long key algorithms) are counted, not asserted.",
         "DESIGN.md section 5 C10"),
 "C13": ("vf-core", "model-based testing: bounded-exhaustive enumeration of operation sequences plus proptest random sequences against a Vec-per-kind placement model",
         "Every operation sequence up to length 2 over the full alphabet (insert with every after/before anchor pair, remove, set_enabled, set_actions, reserved ids, default-rule targets) from the empty, the server-default and every populated arrangement of up to three rules, deeper sequences over a reduced alphabet, and random sequences up to 40 operations, each step compared with a model of the documented placement semantics; errors must leave the ruleset unchanged; panics are caught.",
         "Trusted: rustc/std, proptest, the hand-written model (documented semantics in rustdoc of Ruleset::insert). Self-anchored inserts and overrides without a leading master rule are only partially asserted.",
         "DESIGN.md section 5 C13"),
}

def entry(pid):
    crate, technique, text, note, ref = CHECKS[pid]
    return {
        "property_id": pid,
        "quick_cmd": f"./check {pid} --tier quick",
        "thorough_cmd": f"./check {pid} --tier thorough",
        "evidence_file": f"/verif/evidence/{pid}.json",
        "replay_cmd_template": f"./check {pid} --replay {{path}}",
        "engine": crate,
        "level_claimed": {"category": "exploration", "text": text, "design_ref": ref},
        "level_note": note,
        "technique": technique,
    }

manifest = {
    "version": 1,
    "setup_cmd": "cd /verif/harness && CARGO_NET_OFFLINE=true RUSTUP_TOOLCHAIN=1.88.0 cargo build --release --workspace",
    "hooks": {
        "guard": "--cfg ruma_verif",
        "enable": "no hooks are needed: every observation point is public API or a caller-supplied closure; checks build /repo's crates unmodified as path dependencies",
        "baseline_off_cmd": "cd /repo && RUSTUP_TOOLCHAIN=1.88.0 cargo nextest run --workspace --no-fail-fast --test-threads 8 --offline || (cd /repo && RUSTUP_TOOLCHAIN=1.88.0 cargo test --workspace --no-fail-fast --offline)",
        "source_commits": [],
        "add_only": True,
    },
    "engines": [
        {"name": c, "path": f"/verif/harness/{c}", "serves_properties": sorted(p for p, v in CHECKS.items() if v[0] == c),
         "kind_free_text": "proptest-driven property checks with reference-model oracles, bounded-exhaustive enumeration, shrinking to replay files"}
        for c in sorted({v[0] for v in CHECKS.values()})
    ],
    "checks": [entry(p["id"]) for p in props if p["id"] in CHECKS],
    "not_applicable": [
        {"property_id": p["id"], "reason": "check not built yet (planned in DESIGN.md section 5; the technique applies)"}
        for p in props if p["id"] not in CHECKS
    ],
    "notes": "All checks decide their property by generated-input search against an explicit oracle (DESIGN.md). Exit 0 held / 1 VIOLATION / 2 inconclusive. known_findings.json lists recorded genuine defects.",
}
json.dump(manifest, open(os.path.join(ROOT, "MANIFEST.json"), "w"), indent=1)
print("checks:", [c["property_id"] for c in manifest["checks"]])
