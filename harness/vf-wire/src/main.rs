//! C17 Entry points for untrusted wire data never panic, abort or hang.
//!
//! The parent generates inputs with proptest and feeds long sequences of them to supervised
//! worker processes (`vf-wire --worker`), which run every call on a thread with a 2 MiB stack.

use std::{cell::RefCell, collections::HashMap, sync::Mutex, time::Duration};

use proptest::prelude::*;
use serde::{Deserialize, Serialize};
use serde_json::{json, Value};
use vf_engine::{
    no_panic, pick_idx,
    worker::{serve, Reply, Worker},
    CaseCtx, Check,
};

use vf_wire::entry;


const STACK: usize = 2 << 20;
const CANARY_EVERY: u64 = 250;

#[derive(Serialize, Deserialize, Debug, Clone)]
pub struct WireCase {
    pub ep: String,
    /// payload as text when it is valid UTF-8 (readable replay files), else bytes
    pub text: Option<String>,
    pub bytes: Option<Vec<u8>>,
}

impl WireCase {
    fn new(ep: &str, p: Vec<u8>) -> Self {
        match String::from_utf8(p) {
            Ok(s) => WireCase { ep: ep.into(), text: Some(s), bytes: None },
            Err(e) => WireCase { ep: ep.into(), text: None, bytes: Some(e.into_bytes()) },
        }
    }
    fn payload(&self) -> &[u8] {
        match (&self.text, &self.bytes) {
            (Some(t), _) => t.as_bytes(),
            (None, Some(b)) => b,
            _ => &[],
        }
    }
}

// ---------------------------------------------------------------------------------------------
// seeds

fn j(v: Value) -> Vec<u8> {
    serde_json::to_vec(&v).unwrap()
}

fn event_seeds() -> Vec<Value> {
    vec![
        json!({"type": "m.room.message", "content": {"msgtype": "m.text", "body": "hi", "m.relates_to": {"m.in_reply_to": {"event_id": "$r:x.y"}}, "m.mentions": {"user_ids": ["@a:x.y"]}}, "event_id": "$e:x.y", "sender": "@a:x.y", "origin_server_ts": 1, "room_id": "!r:x.y", "unsigned": {"age": 1, "transaction_id": "t"}}),
        json!({"type": "m.room.member", "state_key": "@b:x.y", "content": {"membership": "invite", "third_party_invite": {"display_name": "b", "signed": {"mxid": "@b:x.y", "token": "t", "signatures": {"id": {"ed25519:0": "c2ln"}}}}}, "event_id": "$e2:x.y", "sender": "@a:x.y", "origin_server_ts": 2, "room_id": "!r:x.y"}),
        json!({"type": "m.room.power_levels", "state_key": "", "content": {"users": {"@a:x.y": 100}, "events": {"m.room.name": 50}, "ban": "50", "notifications": {"room": 20}}, "event_id": "$e3:x.y", "sender": "@a:x.y", "origin_server_ts": 3, "room_id": "!r:x.y", "unsigned": {"prev_content": {"users": {}}}}),
        json!({"type": "m.room.join_rules", "state_key": "", "content": {"join_rule": "restricted", "allow": [{"type": "m.room_membership", "room_id": "!o:x.y"}]}, "event_id": "$e4:x.y", "sender": "@a:x.y", "origin_server_ts": 4, "room_id": "!r:x.y", "unsigned": {"redacted_because": {"type": "m.room.redaction", "content": {}, "event_id": "$red:x.y", "sender": "@a:x.y", "origin_server_ts": 5, "redacts": "$e4:x.y"}}}),
        json!({"type": "m.room.encrypted", "content": {"algorithm": "m.megolm.v1.aes-sha2", "ciphertext": "AwgA", "session_id": "s", "device_id": "D", "sender_key": "k"}, "event_id": "$e5:x.y", "sender": "@a:x.y", "origin_server_ts": 6, "room_id": "!r:x.y"}),
        json!({"type": "m.receipt", "content": {"$e:x.y": {"m.read": {"@a:x.y": {"ts": 1, "thread_id": "main"}}}}, "room_id": "!r:x.y"}),
        json!({"type": "m.push_rules", "content": {"global": {"override": [{"actions": ["notify", {"set_tweak": "highlight"}], "default": true, "enabled": true, "rule_id": ".m.rule.master", "conditions": [{"kind": "event_match", "key": "content.body", "pattern": "a*b"}, {"kind": "room_member_count", "is": ">=2"}]}], "content": [{"actions": [], "default": false, "enabled": true, "rule_id": "x", "pattern": "p?"}]}}}),
        json!({"type": "m.room_key_request", "sender": "@a:x.y", "content": {"action": "request", "requesting_device_id": "D", "request_id": "r", "body": {"algorithm": "m.megolm.v1.aes-sha2", "room_id": "!r:x.y", "session_id": "s"}}}),
    ]
}

fn http_seed(method: &str, uri: &str, headers: Vec<(&str, &str)>, body: Value, path_args: Vec<&str>) -> Vec<u8> {
    j(json!({"method": method, "uri": uri, "headers": headers.iter().map(|(k, v)| json!([k, v.as_bytes()])).collect::<Vec<_>>(), "body": serde_json::to_vec(&body).unwrap(), "path_args": path_args}))
}

/// A structured HTTP payload whose body is given as raw bytes (multipart, media).
fn http_seed_raw(method: &str, uri: &str, headers: Vec<(&str, &str)>, body: &[u8]) -> Vec<u8> {
    j(json!({"method": method, "uri": uri, "headers": headers.iter().map(|(k, v)| json!([k, v.as_bytes()])).collect::<Vec<_>>(), "body": body, "path_args": []}))
}

/// Structure-level mutations of a multipart body: the segments between boundary lines are deleted,
/// emptied, duplicated or swapped, a boundary line is doubled, CRs are dropped, the final `--` is
/// removed; `boundary` is the delimiter text without the leading dashes.
fn mutate_multipart(body: &[u8], boundary: &[u8], ops: &[(u8, u16, u16)]) -> Vec<u8> {
    let mut delim = b"\r\n--".to_vec();
    delim.extend_from_slice(boundary);
    // cut the body at every occurrence of the delimiter (the first may lack its CRLF)
    let mut cuts = vec![0usize];
    let mut i = 0;
    while i + boundary.len() + 2 <= body.len() {
        if body[i..].starts_with(&delim) || (i == 0 && body.starts_with(&delim[2..])) {
            if i != 0 {
                cuts.push(i);
            }
            i += boundary.len() + 2;
        } else {
            i += 1;
        }
    }
    cuts.push(body.len());
    let mut segs: Vec<Vec<u8>> = cuts.windows(2).map(|w| body[w[0]..w[1]].to_vec()).collect();
    for (op, x, y) in ops {
        if segs.is_empty() {
            break;
        }
        let i = pick_idx(*x, segs.len());
        match op % 7 {
            0 => {
                segs.remove(i);
            }
            1 => {
                // keep only the delimiter itself: an empty part
                let keep = (delim.len() - if segs[i].starts_with(b"\r\n") { 0 } else { 2 }).min(segs[i].len());
                segs[i].truncate(keep);
            }
            2 => {
                let s = segs[i].clone();
                segs.insert(i, s);
            }
            3 => {
                let k = pick_idx(*y, segs.len());
                segs.swap(i, k);
            }
            4 => segs[i].retain(|b| *b != b'\r'),
            5 => {
                if let Some(last) = segs.last_mut() {
                    while last.last().is_some_and(|b| *b == b'-' || *b == b'\r' || *b == b'\n') {
                        last.pop();
                    }
                }
            }
            _ => {
                let k = pick_idx(*y, segs[i].len() + 1);
                segs[i].truncate(k);
            }
        }
    }
    segs.concat()
}

fn seeds(ep: &str) -> Vec<Vec<u8>> {
    let s = |v: &[&str]| v.iter().map(|x| x.as_bytes().to_vec()).collect::<Vec<_>>();
    let ring_doc: Vec<u8> = {
        let mut d = vec![0x30, 0x53, 0x02, 0x01, 0x01, 0x30, 0x05, 0x06, 0x03, 0x2B, 0x65, 0x70, 0x04, 0x22, 0x04, 0x20];
        d.extend_from_slice(&[0x61; 32]);
        d.extend_from_slice(&[0xA1, 0x23, 0x03, 0x21, 0x00]);
        d.extend_from_slice(&[0x3D; 32]);
        d
    };
    let v1_doc: Vec<u8> = {
        let mut d = vec![0x30, 0x2e, 0x02, 0x01, 0x00, 0x30, 0x05, 0x06, 0x03, 0x2b, 0x65, 0x70, 0x04, 0x22, 0x04, 0x20];
        d.extend_from_slice(&[7; 32]);
        d
    };
    let signed_obj = json!({"type": "m.room.member", "content": {"membership": "join", "join_authorised_via_users_server": "@c:z.w"}, "sender": "@a:x.y", "event_id": "$e:x.y", "room_id": "!r:x.y", "origin_server_ts": 1, "depth": 1, "prev_events": [], "auth_events": [], "hashes": {"sha256": "aGFzaA"}, "signatures": {"x.y": {"ed25519:1": "c2lnbmF0dXJlc2lnbmF0dXJlc2lnbmF0dXJlc2lnbmF0dXJlc2lnbmF0dXJlc2lnbmF0dXJlc2lnbmF0dXJlc2ln", "ed25519:é": "x", "nocolon": "x", "foo:1": 5}, "z.w": "notobject"}, "unsigned": {"age": 1}});
    let sig = |obj: &Value| j(json!({"version": 8, "object": obj, "keys": {"x.y": {"ed25519:1": "GRnnn7vJZjKpcuAlOG8q4HMHTiRPNN0H0AKEyRNfVW4"}, "z.w": {}}, "seed": vec![7u8; 32], "entity": "x.y", "key_version": "1"}));
    match ep {
        "id_user" => s(&["@alice:example.org", "@a=b/c+d:[::1]:8448", "@x:1.2.3.4:80"]),
        "id_room" => s(&["!abc:example.org", "!abcdefghijklmnopqrstuvwxyzABCDEFGHIJKLMNOPQ"]),
        "id_alias" | "id_room_or_alias" => s(&["#room:example.org", "!id:example.org:8448", "#r:[2001:db8::1]"]),
        "id_event" => s(&["$abc:example.org", "$Rqnc-F-dvnEYJTyHq_iKxU2bZ1CI92-kuZq3a5lr5Zg", "$e:[::1]:8448"]),
        "id_server" => {
            let mut v = s(&["example.org", "[2001:db8::1]:8448", "1.2.3.4:65535"]);
            for n in [255usize, 256, 65_535] {
                v.push(format!("{}.example", "a".repeat(n - 8)).into_bytes());
            }
            v
        }
        "id_mxc" => {
            // incl. syntactically valid server names around the lengths where one-byte indices wrap
            let mut v = s(&["mxc://example.org/abcDEF123", "mxc://[::1]:80/x"]);
            for n in [249usize, 250, 251, 253, 255, 256, 300] {
                v.push(format!("mxc://{}.example/media", "a".repeat(n - 8)).into_bytes());
            }
            v
        }
        "id_key" => s(&["ed25519:abc_123", "ed25519:1"]),
        "id_device_key" => s(&["curve25519:DEVICE", "signed_curve25519:AAAAHQ", "ed25519:abcdefghijklmnopqrstuvwxyzABCDEFGHIJKLMNOPQ"]),
        "id_misc" => s(&["11", "abc_DEF-1.2=3", "org.example.v1"]),
        "id_event_type" => s(&["m.secret_storage.key.abc", "m.room.message", "org.matrix.call.sdp_stream_metadata_changed", "m.key.verification.start", "m.secret_storage.default_key", "m.policy.rule.user", "org.example.custom"]),
        "uri_matrix_to" => s(&["https://matrix.to/#/%23room:example.org/$event:example.org?via=a.b&via=c.d", "https://matrix.to/#/@user:example.org"]),
        "uri_matrix" => s(&["matrix:r/room:example.org/e/event?via=a.b&action=join", "matrix:u/user:example.org?action=chat", "matrix:roomid/abc:x.y"]),
        "json_timeline" | "json_sync_timeline" | "json_raw" => event_seeds()[..5].iter().map(|v| j(v.clone())).collect(),
        "json_stripped" => event_seeds()[1..4].iter().map(|v| j(v.clone())).collect(),
        "json_to_device" => vec![j(event_seeds()[7].clone())],
        "json_account_data" => vec![
            j(event_seeds()[6].clone()),
            j(json!({"type": "m.secret_storage.key.abc", "content": {"algorithm": "m.secret_storage.v1.aes-hmac-sha2", "name": "n", "iv": "YWJjZGVmZ2hpamtsbW5vcA", "mac": "aWRvbnRrbm93d2hhdGFtYWNsb29rc2xpa2U"}})),
            j(json!({"type": "m.direct", "content": {"@a:x.y": ["!r:x.y"]}})),
            j(json!({"type": "m.ignored_user_list", "content": {"ignored_users": {"@a:x.y": {}}}})),
            j(json!({"type": "m.secret_storage.default_key", "content": {"key": "abc"}})),
        ],
        "json_ephemeral" => vec![j(event_seeds()[5].clone())],
        "json_message_content" => vec![j(event_seeds()[0]["content"].clone()), j(json!({"msgtype": "m.image", "body": "i", "url": "mxc://a/b", "info": {"h": 1, "w": 2, "thumbnail_info": {"h": 1}}})), j(json!({"msgtype": "x.custom", "body": "b", "m.relates_to": {"rel_type": "m.replace", "event_id": "$e"}, "m.new_content": {"msgtype": "m.text", "body": "n"}}))],
        "json_ruleset" => vec![j(event_seeds()[6]["content"]["global"].clone())],
        "json_push_condition" => vec![j(json!({"kind": "event_match", "key": "content.body", "pattern": "a*"})), j(json!({"kind": "room_member_count", "is": "<=5"})), j(json!({"kind": "event_property_contains", "key": "content.m\\.mentions.user_ids", "value": "@a:x.y"})), j(json!({"kind": "sender_notification_permission", "key": "room"}))],
        "json_canonical" => vec![j(json!({"a": [1, {"b": null}], "c": "é", "d": 9007199254740991i64})), b"[1,2,{\"x\":-9007199254740991}]".to_vec()],
        "http_send_message" => vec![http_seed("PUT", "https://hs/_matrix/client/v3/rooms/!r:x.y/send/m.room.message/txn1", vec![("authorization", "Bearer t"), ("content-type", "application/json")], json!({"msgtype": "m.text", "body": "x"}), vec!["!r:x.y", "m.room.message", "txn1"])],
        "http_get_state" => vec![http_seed("GET", "https://hs/_matrix/client/v3/rooms/!r:x.y/state/m.room.member/@a:x.y?format=event", vec![("authorization", "Bearer t")], json!(null), vec!["!r:x.y", "m.room.member", "@a:x.y"])],
        "http_get_account_data" => vec![
            http_seed("GET", "https://hs/_matrix/client/v3/user/@a:x.y/account_data/m.secret_storage.key.abc", vec![("authorization", "Bearer t")], json!(null), vec!["@a:x.y", "m.secret_storage.key.abc"]),
            http_seed("GET", "https://hs/_matrix/client/v3/user/@a:x.y/account_data/m.push_rules", vec![("authorization", "Bearer t")], json!(null), vec!["@a:x.y", "m.push_rules"]),
        ],
        "http_join" => vec![http_seed("POST", "https://hs/_matrix/client/v3/join/%23a:x.y?via=a.b&via=c.d&server_name=e.f", vec![("authorization", "Bearer t")], json!({"reason": "r", "third_party_signed": {"sender": "@a:x.y", "mxid": "@b:x.y", "token": "t", "signatures": {"x.y": {"ed25519:1": "c2ln"}}}}), vec!["#a:x.y"])],
        "http_fed_send_join" => vec![http_seed("PUT", "https://hs/_matrix/federation/v2/send_join/!r:x.y/$e:x.y?omit_members=true", vec![("authorization", "X-Matrix origin=a.b,key=\"ed25519:1\",sig=\"c2ln\"")], event_seeds()[1].clone(), vec!["!r:x.y", "$e:x.y"])],
        "http_fed_transaction" => vec![http_seed("PUT", "https://hs/_matrix/federation/v1/send/txn", vec![], json!({"origin": "a.b", "origin_server_ts": 1, "pdus": [event_seeds()[0].clone()], "edus": [{"edu_type": "m.typing", "content": {"room_id": "!r:x.y", "user_id": "@a:x.y", "typing": true}}, {"edu_type": "m.receipt", "content": {"!r:x.y": {"m.read": {"@a:x.y": {"data": {"ts": 1}, "event_ids": ["$e:x.y"]}}}}}, {"edu_type": "m.presence", "content": {"push": [{"user_id": "@a:x.y", "presence": "online", "last_active_ago": 1}]}}]}), vec!["txn"])],
        "http_resp_sync" => vec![http_seed("200", "/", vec![("content-type", "application/json")], json!({"next_batch": "s1", "rooms": {"join": {"!r:x.y": {"timeline": {"events": [event_seeds()[0].clone()], "limited": true, "prev_batch": "p"}, "state": {"events": [event_seeds()[1].clone()]}, "ephemeral": {"events": [event_seeds()[5].clone()]}, "unread_notifications": {"highlight_count": 1}}}, "invite": {"!i:x.y": {"invite_state": {"events": [{"type": "m.room.name", "state_key": "", "content": {"name": "n"}, "sender": "@a:x.y"}]}}}}, "to_device": {"events": [event_seeds()[7].clone()]}, "device_one_time_keys_count": {"signed_curve25519": 5}, "account_data": {"events": [event_seeds()[6].clone()]}}), vec![])],
        "http_resp_fed_media" => vec![
            http_seed_raw("200", "/", vec![("content-type", "multipart/mixed; boundary=abc")], b"\r\n--abc\r\nContent-Type: application/json\r\n\r\n{}\r\n--abc\r\nContent-Type: text/plain\r\nContent-Disposition: attachment; filename=\"f.txt\"\r\n\r\nsome plain text\r\n--abc--"),
            http_seed_raw("200", "/", vec![("content-type", "multipart/mixed; boundary=abc")], b"--abc\nContent-Type: application/json\n\n{}\r\n--abc\nLocation: https://cdn.example/media\n\n\r\n--abc--\r\n"),
        ],
        "http_resp_error" => vec![http_seed("429", "/", vec![("retry-after", "5")], json!({"errcode": "M_LIMIT_EXCEEDED", "error": "slow", "retry_after_ms": 2000}), vec![]), http_seed("403", "/", vec![], json!({"errcode": "M_FORBIDDEN", "error": "no"}), vec![]), http_seed("400", "/", vec![], json!({"errcode": "M_INCOMPATIBLE_ROOM_VERSION", "error": "x", "room_version": "7"}), vec![])],
        "hdr_content_disposition" => s(&["attachment; filename=\"a b.txt\"", "inline; filename*=utf-8''%e2%82%ac%20rates; filename=x", "form-data; name=x; filename=file.txt"]),
        "hdr_xmatrix" => s(&["X-Matrix origin=\"a.b:80\",destination=c.d,key=\"ed25519:k1\",sig=\"dGVzdA==\"", "X-Matrix key=\"ed25519:1\",origin=a.b,sig=dGVzdA"]),
        "hdr_retry_after" => s(&["120", "Fri, 15 May 2015 15:34:21 GMT", "0"]),
        "push_ruleset_edits" => vec![
            j(json!({"ruleset": event_seeds()[6]["content"]["global"], "ops": [
                {"op": "insert", "kind": "underride", "rule_id": "a", "actions": ["notify"], "conditions": [{"kind": "event_match", "key": "type", "pattern": "m.room.message"}]},
                {"op": "insert", "kind": "underride", "rule_id": "b", "actions": ["notify", {"set_tweak": "highlight"}], "conditions": []},
                {"op": "insert", "kind": "underride", "rule_id": "c", "after": "a", "before": "b", "actions": [], "conditions": []},
                {"op": "insert", "kind": "underride", "rule_id": "c", "after": "b", "before": "a", "actions": [], "conditions": []},
                {"op": "insert", "kind": "content", "rule_id": "w", "pattern": "word", "actions": ["notify"]},
                {"op": "insert", "kind": "content", "rule_id": "w", "pattern": "w*rd", "after": "nope", "actions": []},
                {"op": "insert", "kind": "room", "rule_id": "!r:x.y", "actions": []},
                {"op": "insert", "kind": "sender", "rule_id": "@u:x.y", "before": ".m.rule.master", "actions": []},
                {"op": "set_enabled", "kind": "underride", "rule_id": "a", "enabled": false},
                {"op": "set_actions", "kind": "override", "rule_id": ".m.rule.master", "actions": ["notify"]},
                {"op": "set_actions", "kind": "override", "rule_id": "missing", "actions": ["notify"]},
                {"op": "remove", "kind": "override", "rule_id": ".m.rule.master"},
                {"op": "remove", "kind": "underride", "rule_id": "b"},
                {"op": "insert", "kind": "override", "rule_id": ".m.rule.new", "actions": []},
                {"op": "insert", "kind": "override", "rule_id": "x", "after": "y", "actions": []}
            ]})),
            j(json!({"ruleset": {}, "ops": [
                {"op": "insert", "kind": "override", "rule_id": "p", "actions": ["notify"], "conditions": []},
                {"op": "insert", "kind": "override", "rule_id": "q", "actions": [], "conditions": []},
                {"op": "insert", "kind": "override", "rule_id": "p", "after": "p", "before": "p", "actions": [], "conditions": []},
                {"op": "insert", "kind": "override", "rule_id": "r", "after": "p", "before": "q", "actions": [], "conditions": []},
                {"op": "remove", "kind": "content", "rule_id": "p"}
            ]})),
        ],
        "push_get_match" => {
            // bodies as the push properties describe them: punctuation, newlines, non-ASCII and
            // repeated partial matches of the display name / keywords, with glob and plain patterns
            let rules = json!({
                "override": [{"actions": ["notify"], "default": true, "enabled": true, "rule_id": ".m.rule.contains_display_name", "conditions": [{"kind": "contains_display_name"}]}],
                "content": [
                    {"actions": ["notify"], "default": false, "enabled": true, "rule_id": "kw", "pattern": "cake"},
                    {"actions": ["notify"], "default": false, "enabled": true, "rule_id": "glob", "pattern": "caf?s*"},
                    {"actions": [], "default": true, "enabled": true, "rule_id": ".m.rule.contains_user_name", "pattern": "me"}
                ],
                "underride": [{"actions": ["notify"], "default": true, "enabled": true, "rule_id": ".m.rule.message", "conditions": [{"kind": "event_match", "key": "type", "pattern": "m.room.message"}, {"kind": "event_property_contains", "key": "content.m\\.mentions.user_ids", "value": "@me:x.y"}]}]
            });
            let msg = |body: &str| json!({"type": "m.room.message", "content": {"msgtype": "m.text", "body": body, "m.mentions": {"user_ids": [{"x": 1}, "@me:x.y"]}}, "event_id": "$e:x.y", "sender": "@a:x.y", "origin_server_ts": 1, "room_id": "!r:x.y"});
            let mut v = vec![j(json!({"ruleset": event_seeds()[6]["content"]["global"], "event": event_seeds()[0], "display_name": "hi", "member_count": 2}))];
            for (body, name) in [("kabob \u{2014} bob", "Bob"), ("pancake \u{1F95E} cake, cupcake\ncake", "\u{c9}lodie"), ("deux caf\u{e9}s ici; homework: me? some \u{e9}me", "me"), ("\u{c9}LODIE \u{e9}lodie  \u{e9}lodies", "\u{e9}lodie")] {
                v.push(j(json!({"ruleset": rules, "event": msg(body), "display_name": name, "member_count": 3})));
            }
            v
        }
        "push_flatten" => vec![j(event_seeds()[0].clone()), j(json!({"a": {"b.c": {"d\\e": [1, "x", null, {"o": 1}]}}, "": {"": 1}}))],
        "sig_verify_json" | "sig_verify_event" | "sig_sign" | "sig_hashes_redact" => vec![sig(&signed_obj), sig(&json!({"a": 1, "signatures": {"x.y": {"ed25519:1": "AAAA"}}}))],
        "sig_from_der" => vec![ring_doc, v1_doc],
        "sig_base64" => s(&["dGVzdA", "dGVzdA==", "3UmJnEIzUr2xWyaUnJg5fXwRybwG5FVC6GqMHverEUn0ztuIsvVxX89JXX2pvdTsOBbLQx+4TVL02l4Cp5wPCm", "a-_b"]),
        "auth_check" => vec![j(json!({"version": 9, "event": event_seeds()[1], "state": [{"type": "m.room.create", "state_key": "", "content": {"creator": "@a:x.y"}, "event_id": "$c:x.y", "sender": "@a:x.y", "room_id": "!r:x.y"}, event_seeds()[2], {"type": "m.room.member", "state_key": "@a:x.y", "content": {"membership": "join"}, "event_id": "$m:x.y", "sender": "@a:x.y", "room_id": "!r:x.y"}, {"type": "m.room.third_party_invite", "state_key": "t", "content": {"public_key": "GRnnn7vJZjKpcuAlOG8q4HMHTiRPNN0H0AKEyRNfVW4", "public_keys": [{"public_key": "x"}]}, "event_id": "$t:x.y", "sender": "@a:x.y", "room_id": "!r:x.y"}]}))],
        _ => s(&["<p>hello <b>world</b> <a href=\"https://x.y\" class=\"c\">l</a></p><mx-reply><blockquote>q</blockquote></mx-reply>", "<table><tr><td><font color=\"red\">x</font></td></tr></table><svg><a xlink:href=\"#\">a</a></svg><!-- c -->", "<ul><li>a<li>b</ul><pre><code class=\"language-rust\">x</code></pre>"]),
    }
}

// ---------------------------------------------------------------------------------------------
// mutations

const DICT: &[&[u8]] = &[b"\"", b"\\", b"{", b"}", b"[", b"]", b":", b",", b"\0", b"\xff", b"\xc3", b"%", b"%41", b"/", b"?", b"#", b"=", b"&", b"@", b"!", b"$", b"<", b">", b"</", b"*", b"\\u0000", b"\\ud800", b"1e999", b"-0", b"9007199254740993", b"null", b";", b"filename*=", b"''", b"\r\n", b" ", b"\xa1\x23\x03\x21", b"\xc3\xa9", b"\xf0\x9f\x98\x80", b"\xe2\x80\x94"];

fn boundary_string(sel: u16) -> String {
    let lens = [0usize, 1, 254, 255, 256, 257, 258, 510, 511, 512, 513, 514, 1024, 65536];
    let l = lens[pick_idx(sel, lens.len())];
    let ch = ["a", "é", ":", "/", "*", "?"][(sel as usize) % 6];
    ch.repeat(l / ch.len().max(1))
}

fn mutate_bytes(seed: &[u8], other: &[u8], ops: &[(u8, u16, u16)]) -> Vec<u8> {
    let mut b = seed.to_vec();
    for (op, x, y) in ops {
        let n = b.len();
        match op % 8 {
            0 if n > 0 => {
                let i = pick_idx(*x, n);
                b[i] ^= 1 << (y % 8);
            }
            1 if n > 0 => {
                b.remove(pick_idx(*x, n));
            }
            2 => {
                // insert a dictionary token: anywhere, or (every other time) right after a
                // punctuation byte, where the parsers switch from one part of the grammar to the next
                let after_punct: Vec<usize> = (1..=n).filter(|i| b[i - 1].is_ascii_punctuation()).collect();
                let i = if *y % 2 == 1 && !after_punct.is_empty() { after_punct[pick_idx(*x, after_punct.len())] } else { pick_idx(*x, n + 1) };
                let d = DICT[pick_idx(*y, DICT.len())];
                b.splice(i..i, d.iter().copied());
            }
            3 => b.truncate(pick_idx(*x, n + 1)),
            4 if n > 0 => {
                let i = pick_idx(*x, n);
                let l = (pick_idx(*y, 16) + 1).min(n - i);
                let chunk: Vec<u8> = b[i..i + l].to_vec();
                b.splice(i..i, chunk);
            }
            5 if !other.is_empty() => {
                let i = pick_idx(*x, n + 1);
                let k = pick_idx(*y, other.len());
                b.truncate(i);
                b.extend_from_slice(&other[k..]);
            }
            6 => {
                let i = pick_idx(*x, n + 1);
                let s = boundary_string(*y);
                b.splice(i..i, s.bytes());
            }
            _ if n > 0 => {
                let i = pick_idx(*x, n);
                b[i] = (*y % 256) as u8;
            }
            _ => {}
        }
    }
    b
}

fn paths(v: &Value, cur: &mut Vec<String>, out: &mut Vec<Vec<String>>) {
    out.push(cur.clone());
    match v {
        Value::Object(m) => {
            for (k, x) in m {
                cur.push(k.clone());
                paths(x, cur, out);
                cur.pop();
            }
        }
        Value::Array(a) => {
            for (i, x) in a.iter().enumerate() {
                cur.push(i.to_string());
                paths(x, cur, out);
                cur.pop();
            }
        }
        _ => {}
    }
}

fn at<'a>(v: &'a mut Value, p: &[String]) -> Option<&'a mut Value> {
    let mut cur = v;
    for k in p {
        cur = match cur {
            Value::Object(m) => m.get_mut(k)?,
            Value::Array(a) => a.get_mut(k.parse::<usize>().ok()?)?,
            _ => return None,
        };
    }
    Some(cur)
}

fn mutate_json(seed: &Value, ops: &[(u8, u16, u16)]) -> Value {
    let mut v = seed.clone();
    for (op, x, y) in ops {
        let mut ps = vec![];
        paths(&v, &mut vec![], &mut ps);
        let p = ps[pick_idx(*x, ps.len())].clone();
        match op % 9 {
            0 => {
                // delete
                if let Some((last, parent)) = p.split_last() {
                    match at(&mut v, parent) {
                        Some(Value::Object(m)) => {
                            m.remove(last);
                        }
                        Some(Value::Array(a)) => {
                            if let Ok(i) = last.parse::<usize>() {
                                if i < a.len() {
                                    a.remove(i);
                                }
                            }
                        }
                        _ => {}
                    }
                }
            }
            1 => {
                // type swap
                if let Some(slot) = at(&mut v, &p) {
                    *slot = [json!(null), json!(0), json!(-1), json!(1.5), json!("s"), json!(""), json!([]), json!({}), json!(true), json!(9007199254740993i64), json!([[]]), json!({"": {}})][pick_idx(*y, 12)].clone();
                }
            }
            2 => {
                // boundary-length string
                if let Some(slot) = at(&mut v, &p) {
                    *slot = json!(boundary_string(*y));
                }
            }
            3 => {
                // duplicate a field under another name / push a copy into the array
                if let Some((last, parent)) = p.split_last() {
                    let copy = at(&mut v, &p).map(|x| x.clone());
                    if let (Some(copy), Some(par)) = (copy, at(&mut v, parent)) {
                        match par {
                            Value::Object(m) => {
                                m.insert(format!("{last}{}", ["", "_", ".", "\0"][pick_idx(*y, 4)]), copy);
                            }
                            Value::Array(a) => a.push(copy),
                            _ => {}
                        }
                    }
                }
            }
            4 => {
                // deep nesting (bounded: JSON nesting <= 1024)
                if let Some(slot) = at(&mut v, &p) {
                    let depth = [2usize, 100, 126, 127, 128, 129, 200, 1000][pick_idx(*y, 8)];
                    let mut inner = slot.clone();
                    for i in 0..depth {
                        inner = if (i + *y as usize) % 2 == 0 { json!([inner]) } else { json!({ "n": inner }) };
                    }
                    *slot = inner;
                }
            }
            5 => {
                // swap two values
                let q = ps[pick_idx(*y, ps.len())].clone();
                let (a, b) = (at(&mut v, &p).map(|x| x.clone()), at(&mut v, &q).map(|x| x.clone()));
                if let (Some(a), Some(b)) = (a, b) {
                    if !p.starts_with(&q) && !q.starts_with(&p) {
                        if let Some(s) = at(&mut v, &p) {
                            *s = b;
                        }
                        if let Some(s) = at(&mut v, &q) {
                            *s = a;
                        }
                    }
                }
            }
            6 => {
                // hostile identifier-like strings
                if let Some(slot) = at(&mut v, &p) {
                    let a250 = "a".repeat(250);
                    *slot = json!([format!("mxc://{a250}/x"), format!("aé{}:x", "b".repeat(254)), "https://matrix.to/#///x".to_owned(), format!("@a:{a250}bbbbbb"), "ed25519:".to_owned(), ":80".to_owned(), "$".to_owned(), format!("{}:1", "k".repeat(300))][pick_idx(*y, 8)].clone());
                }
            }
            7 => {
                // wrap / unwrap
                if let Some(slot) = at(&mut v, &p) {
                    *slot = json!([slot.clone(), slot.clone()]);
                }
            }
            _ => {
                // numeric extremes
                if let Some(slot) = at(&mut v, &p) {
                    *slot = [json!(u64::MAX), json!(i64::MIN), json!(1e308), json!(-0.0), json!(4294967296u64), json!(65536)][pick_idx(*y, 6)].clone();
                }
            }
        }
    }
    v
}

fn html_nested(kind: u8, depth: usize, unclosed: bool) -> String {
    let tag = ["div", "span", "b", "blockquote", "font", "ul", "svg", "table", "a", "x-unknown"][kind as usize % 10];
    let mut s = format!("<{tag}>").repeat(depth);
    s.push('x');
    if !unclosed {
        s.push_str(&format!("</{tag}>").repeat(depth));
    }
    s
}

fn token_insertion_space() -> impl Iterator<Item = WireCase> {
    entry::ENTRY_POINTS.iter().filter(|ep| ep.starts_with("id_") || ep.starts_with("uri_") || ep.starts_with("hdr_") || **ep == "sig_base64").flat_map(|ep| {
        seeds(ep).into_iter().filter(|s| s.len() <= 96).flat_map(move |seed| {
            (0..=seed.len()).flat_map(move |pos| {
                let seed = seed.clone();
                DICT.iter().map(move |tok| {
                    let mut b = seed.clone();
                    b.splice(pos..pos, tok.iter().copied());
                    WireCase::new(ep, b)
                })
            })
        })
    })
}

fn is_json_ep(ep: &str) -> bool {
    ep.starts_with("json_") || ep.starts_with("http_") || ep.starts_with("push_") || ep.starts_with("sig_verify") || ep == "sig_sign" || ep == "sig_hashes_redact" || ep == "auth_check"
}

fn case_strategy() -> BoxedStrategy<WireCase> {
    let ops = || prop::collection::vec((any::<u8>(), any::<u16>(), any::<u16>()), 1..4);
    (0..entry::ENTRY_POINTS.len(), any::<u16>(), any::<u16>(), ops(), ops(), 0u8..10, (any::<u8>(), any::<u16>(), any::<bool>()))
        .prop_map(|(e, s1, s2, bops, jops, mode, (hk, hd, hu))| {
            let ep = entry::ENTRY_POINTS[e];
            let sd = seeds(ep);
            let seed = &sd[pick_idx(s1, sd.len())];
            let other = &sd[pick_idx(s2, sd.len())];
            let payload = if ep.starts_with("html_") && mode >= 7 {
                // nesting bound: 21,845 = floor(65,535 / 3) elements, the deepest tree one event body can carry
                let depths = [10usize, 99, 100, 101, 500, 1000, 1024, 2000, 5000, 10000, 21845];
                html_nested(hk, depths[pick_idx(hd, depths.len())], hu).into_bytes()
            } else if is_json_ep(ep) && mode % 2 == 0 {
                match serde_json::from_slice::<Value>(seed) {
                    Ok(v) => {
                        let m = mutate_json(&v, &jops);
                        // structured http payloads carry the body as bytes: mutate the inner JSON too
                        serde_json::to_vec(&m).unwrap_or_default()
                    }
                    Err(_) => mutate_bytes(seed, other, &bops),
                }
            } else if ep.starts_with("http_") {
                // mutate the body / uri / header bytes inside the structured payload
                match serde_json::from_slice::<Value>(seed) {
                    Ok(mut v) => {
                        let body: Vec<u8> = v["body"].as_array().map(|a| a.iter().filter_map(|x| x.as_u64()).map(|x| x as u8).collect()).unwrap_or_default();
                        match mode % 3 {
                            0 if ep == "http_resp_fed_media" && hu => v["body"] = json!(mutate_multipart(&body, b"abc", &bops)),
                            0 => v["body"] = json!(mutate_bytes(&body, &body, &bops)),
                            1 => {
                                let u = v["uri"].as_str().unwrap_or("").to_owned();
                                let m = String::from_utf8_lossy(&mutate_bytes(u.as_bytes(), u.as_bytes(), &bops)).into_owned();
                                v["uri"] = json!(m);
                                if let Some(a) = v["path_args"].as_array_mut() {
                                    if !a.is_empty() {
                                        let i = pick_idx(s2, a.len());
                                        a[i] = json!(boundary_string(hd));
                                    }
                                }
                            }
                            _ => {
                                if let Some(h) = v["headers"].as_array_mut() {
                                    h.push(json!(["authorization", mutate_bytes(b"X-Matrix origin=a.b,key=\"ed25519:1\",sig=\"c2ln\"", b"Bearer x", &bops)]));
                                    h.push(json!(["content-type", mutate_bytes(b"application/json", b"text/plain", &bops)]));
                                }
                            }
                        }
                        serde_json::to_vec(&v).unwrap_or_default()
                    }
                    Err(_) => seed.clone(),
                }
            } else if mode == 9 {
                seed.clone()
            } else {
                mutate_bytes(seed, other, &bops)
            };
            WireCase::new(ep, payload)
        })
        .boxed()
}

// ---------------------------------------------------------------------------------------------
// supervised execution

struct Sup {
    worker: Worker,
    calls: u64,
    canary: HashMap<String, Vec<(Vec<u8>, Vec<u8>)>>,
}

thread_local! {
    static SUP: RefCell<Option<Sup>> = const { RefCell::new(None) };
}
static INFRA: Mutex<Vec<String>> = Mutex::new(vec![]);

fn frame(ep: &str, payload: &[u8]) -> Vec<u8> {
    let mut f = vec![ep.len() as u8];
    f.extend_from_slice(ep.as_bytes());
    f.extend_from_slice(payload);
    f
}

fn spawn() -> Result<Worker, String> {
    Worker::spawn(&["C17".to_owned(), "--worker".to_owned()]).map_err(|e| format!("cannot spawn worker: {e}"))
}

fn json_nesting(p: &[u8]) -> usize {
    let (mut d, mut m, mut in_str, mut esc) = (0usize, 0usize, false, false);
    for b in p {
        if in_str {
            if esc {
                esc = false;
            } else if *b == b'\\' {
                esc = true;
            } else if *b == b'"' {
                in_str = false;
            }
            continue;
        }
        match b {
            b'"' => in_str = true,
            b'[' | b'{' => {
                d += 1;
                m = m.max(d);
            }
            b']' | b'}' => d = d.saturating_sub(1),
            _ => {}
        }
    }
    m
}

fn html_nesting(p: &[u8]) -> usize {
    let s = String::from_utf8_lossy(p);
    let (mut d, mut m) = (0usize, 0usize);
    let mut i = 0;
    let b = s.as_bytes();
    while i < b.len() {
        if b[i] == b'<' {
            if b.get(i + 1) == Some(&b'/') {
                d = d.saturating_sub(1);
            } else if b.get(i + 1).is_some_and(|c| c.is_ascii_alphabetic()) {
                d += 1;
                m = m.max(d);
            }
        }
        i += 1;
    }
    m
}

fn oracle(c: &WireCase, cx: &mut CaseCtx) -> Result<(), String> {
    let ep = c.ep.as_str();
    let payload = c.payload();
    cx.class(match ep.split('_').next().unwrap_or("") {
        "id" => "family_identifiers",
        "uri" => "family_uris",
        "json" => "family_json_events",
        "http" => "family_http_messages",
        "hdr" => "family_headers",
        "push" => "family_push",
        "sig" => "family_signatures",
        "auth" => "family_state_res",
        _ => "family_html",
    });
    SUP.with(|cell| {
        let mut slot = cell.borrow_mut();
        if slot.is_none() {
            *slot = Some(Sup { worker: spawn()?, calls: 0, canary: HashMap::new() });
        }
        let sup = slot.as_mut().unwrap();
        // isolation canary: fixed valid inputs must give byte-identical results at any time
        if !sup.canary.contains_key(ep) {
            let mut v = vec![];
            for s in seeds(ep) {
                if let Reply::Ok(out) = sup.worker.call(&frame(ep, &s), Duration::from_secs(60)) {
                    let text = String::from_utf8_lossy(&out);
                    if text.starts_with("PANIC:") || text.starts_with("LEAK:") {
                        return Err(format!("entry point {ep} fails on its own seed {:?}: {text}", String::from_utf8_lossy(&s).chars().take(120).collect::<String>()));
                    }
                    v.push((s, out));
                }
            }
            sup.canary.insert(ep.to_owned(), v);
        }
        // once a non-termination has been confirmed in this run, later watchdog hits (shrinking
        // re-evaluates many candidates) are judged by a short single wait
        let hang_known = HANG_CONFIRMED.load(std::sync::atomic::Ordering::SeqCst);
        let mut reply = sup.worker.call(&frame(ep, payload), Duration::from_secs(if hang_known { 2 } else { 30 }));
        sup.calls += 1;
        if matches!(reply, Reply::Timeout) {
            sup.canary.clear();
            // A watchdog hit is a violation only if the same input alone never returns in three
            // fresh processes (15 s each; 60 s each for the deliberately oversized nesting inputs,
            // whose parse is quadratic and takes seconds on a loaded machine). An answer from a
            // fresh process settles the case: the input terminates, and that answer is judged below
            // like any other.
            if hang_known && payload.len() <= 65_536 {
                return Err(format!("entry point {ep} does not terminate on a {}-byte input (non-termination of this entry point was confirmed earlier in this run)", payload.len()));
            }
            let budget = if payload.len() <= 65_536 { 15 } else { 60 };
            let (mut hangs, mut settled) = (0, None);
            for _ in 0..3 {
                if let Ok(mut w) = spawn() {
                    match w.call(&frame(ep, payload), Duration::from_secs(budget)) {
                        Reply::Timeout => hangs += 1,
                        other => {
                            settled = Some(other);
                            break;
                        }
                    }
                }
            }
            match settled {
                Some(r) => {
                    cx.class("watchdog_hit_settled_by_fresh_process");
                    reply = r;
                }
                None if hangs == 3 => {
                    HANG_CONFIRMED.store(true, std::sync::atomic::Ordering::SeqCst);
                    return Err(format!("entry point {ep} does not terminate (3 fresh processes, {budget} s each) on a {}-byte input", payload.len()));
                }
                None => {
                    INFRA.lock().unwrap().push(format!("watchdog hit on {ep} ({} bytes): no fresh process could be started to confirm it", payload.len()));
                    return Ok(());
                }
            }
        }
        let outcome = match reply {
            Reply::Ok(out) => String::from_utf8_lossy(&out).into_owned(),
            Reply::Died(status) => {
                sup.canary.clear();
                let nest = if ep.starts_with("html_") { html_nesting(payload) } else { json_nesting(payload) };
                if ep.starts_with("html_") && nest > 1024 && cx.known_finding("html_deep_nesting_stack_overflow", json!({"entry_point": ep, "nesting": nest, "status": status})) {
                    cx.class("known_html_deep_nesting");
                    return Ok(());
                }
                return Err(format!("entry point {ep} killed the process ({status}; stack exhaustion or abort) on a {}-byte input with nesting {nest}", payload.len()));
            }
            Reply::Timeout => unreachable!("settled above"),
        };
        if let Some(msg) = outcome.strip_prefix("LEAK:") {
            return Err(format!("entry point {ep}: a rejected input had an effect on later calls: {msg}"));
        }
        if let Some(msg) = outcome.strip_prefix("PANIC:") {
            let nest = json_nesting(payload);
            if (ep == "push_flatten" || ep == "push_get_match") && msg.contains("flattened_json.rs") && nest > 128 && cx.known_finding("flattened_json_from_raw_deep_nesting", json!({"entry_point": ep, "nesting": nest, "panic": msg})) {
                cx.class("known_flatten_deep_nesting");
                return Ok(());
            }
            return Err(format!("entry point {ep} panicked: {msg}"));
        }
        cx.class(if outcome.contains("err") || outcome.contains("false") || outcome.contains("None") || outcome.starts_with("bad") || outcome.starts_with("notutf8") { "rejected_input" } else { "accepted_input" });
        cx.nontrivial_if(!outcome.starts_with("bad") && !outcome.starts_with("notutf8"));
        if sup.calls % CANARY_EVERY == 0 {
            for (s, expected) in sup.canary.get(ep).cloned().unwrap_or_default() {
                match sup.worker.call(&frame(ep, &s), Duration::from_secs(60)) {
                    Reply::Ok(out) if out == expected => {}
                    Reply::Ok(out) => {
                        return Err(format!("isolation: after {} calls in one process the valid input {:?} of {ep} now gives {:?} instead of {:?} (an earlier input left state behind)", sup.calls, String::from_utf8_lossy(&s).chars().take(80).collect::<String>(), String::from_utf8_lossy(&out), String::from_utf8_lossy(&expected)))
                    }
                    _ => return Err(format!("isolation: the worker died or hung on a valid canary input of {ep}")),
                }
            }
            cx.class("canary_checked");
        }
        Ok(())
    })
}

/// Coverage-guided stage: the libFuzzer target /verif/fuzz (byte 0 selects the entry point) is
/// built from the current tree and run as 8 processes with distinct seeds from the valid seeds
/// of every entry point. Every artifact (crash-*, timeout-*, oom-*) is re-judged by the
/// supervised-worker oracle; the final corpus is absorbed into the statistics. When the target
/// cannot be built (no nightly toolchain / cargo-fuzz) the stage is skipped and says so.
fn libfuzzer_campaign(col: &mut vf_engine::Collector<WireCase>, seed: u64, runs: u64) -> String {
    use std::process::{Command, Stdio};
    let fuzz_dir_owned = std::env::var("VERIF_FUZZ_DIR").unwrap_or_else(|_| "/verif/fuzz".to_owned());
    let fuzz_dir = fuzz_dir_owned.as_str();
    let build = Command::new("cargo")
        .args(["+nightly", "fuzz", "build", "--fuzz-dir", fuzz_dir, "wire"])
        .current_dir(fuzz_dir)
        .env("CARGO_NET_OFFLINE", "true")
        .env_remove("RUSTUP_TOOLCHAIN")
        .stdout(Stdio::null())
        .stderr(Stdio::piped())
        .output();
    let bin = format!("{fuzz_dir}/target/x86_64-unknown-linux-gnu/release/wire");
    match build {
        Ok(o) if o.status.success() && std::path::Path::new(&bin).exists() => {}
        Ok(o) => return format!("skipped: fuzz target does not build: {}", String::from_utf8_lossy(&o.stderr).lines().rev().take(3).collect::<Vec<_>>().join(" | ")),
        Err(e) => return format!("skipped: cannot run cargo fuzz: {e}"),
    }
    let work = format!("{fuzz_dir}/work/{}", std::process::id());
    let _ = std::fs::remove_dir_all(&work);
    let sel_of = |ep: &str| entry::ENTRY_POINTS.iter().position(|e| *e == ep).unwrap_or(0) as u8;
    let nproc = 8u64;
    let mut children = vec![];
    for k in 0..nproc {
        let (corpus, arts) = (format!("{work}/corpus{k}"), format!("{work}/artifacts{k}/"));
        let _ = std::fs::create_dir_all(&corpus);
        let _ = std::fs::create_dir_all(&arts);
        let mut i = 0;
        for ep in entry::ENTRY_POINTS {
            for s in seeds(ep) {
                if s.len() < 4000 {
                    let mut f = vec![sel_of(ep)];
                    f.extend_from_slice(&s);
                    let _ = std::fs::write(format!("{corpus}/seed{i:04}"), f);
                    i += 1;
                }
            }
        }
        let child = Command::new(&bin)
            .arg(&corpus)
            .args([format!("-runs={}", runs / nproc), "-max_len=4096".into(), "-len_control=0".into(), "-timeout=20".into(), "-rss_limit_mb=4096".into(), format!("-seed={}", seed * nproc + k + 1), format!("-artifact_prefix={arts}"), format!("-dict={fuzz_dir}/wire.dict"), "-print_final_stats=1".into(), "-verbosity=0".into()])
            .stdout(Stdio::null())
            .stderr(Stdio::piped())
            .spawn();
        match child {
            Ok(c) => children.push((k, c)),
            Err(e) => return format!("skipped: cannot start the fuzz target: {e}"),
        }
    }
    let mut execs = 0u64;
    let mut artifacts = vec![];
    for (k, c) in children {
        let out = match c.wait_with_output() {
            Ok(o) => o,
            Err(e) => {
                col.infra(format!("fuzz process {k}: {e}"));
                continue;
            }
        };
        let err = String::from_utf8_lossy(&out.stderr);
        for l in err.lines() {
            if let Some(n) = l.strip_prefix("stat::number_of_executed_units:") {
                execs += n.trim().parse::<u64>().unwrap_or(0);
            }
        }
        if let Ok(rd) = std::fs::read_dir(format!("{work}/artifacts{k}")) {
            for f in rd.flatten() {
                artifacts.push(f.path());
            }
        }
        if !out.status.success() && std::fs::read_dir(format!("{work}/artifacts{k}")).map(|d| d.count()).unwrap_or(0) == 0 {
            col.infra(format!("fuzz process {k} ended with {} and left no artifact: {}", out.status, err.lines().rev().take(3).collect::<Vec<_>>().join(" | ")));
        }
    }
    let decode = |data: &[u8]| -> Option<WireCase> {
        let (sel, payload) = data.split_first()?;
        Some(WireCase::new(entry::ENTRY_POINTS[*sel as usize % entry::ENTRY_POINTS.len()], payload.to_vec()))
    };
    let mut reproduced = 0;
    for a in &artifacts {
        let Some(case) = std::fs::read(a).ok().and_then(|d| decode(&d)) else { continue };
        let mut cx = col.ctx();
        match oracle(&case, &mut cx) {
            Err(msg) => {
                reproduced += 1;
                col.fail(&case, format!("{msg} (found by libFuzzer: {})", a.file_name().and_then(|n| n.to_str()).unwrap_or("")));
            }
            Ok(()) => col.infra(format!("libFuzzer artifact {} ({}, {} bytes) does not reproduce under the supervised worker", a.display(), case.ep, case.payload().len())),
        }
    }
    // absorb the final corpora (inputs libFuzzer kept because they reached new code)
    let mut corpus_files = 0u64;
    let mut first = true;
    for k in 0..nproc {
        if let Ok(rd) = std::fs::read_dir(format!("{work}/corpus{k}")) {
            for f in rd.flatten() {
                let Some(case) = std::fs::read(f.path()).ok().and_then(|d| decode(&d)) else { continue };
                let mut cx = col.ctx();
                let out = no_panic(|| entry::call(&case.ep, case.payload())).unwrap_or_default();
                cx.class(if out.starts_with("bad") || out.starts_with("notutf8") { "rejected_at_first_gate" } else { "past_first_gate" });
                cx.class("libfuzzer_corpus_entry");
                cx.nontrivial_if(!out.starts_with("bad") && !out.starts_with("notutf8"));
                corpus_files += 1;
                if first {
                    cx.more_evals(execs.saturating_sub(1));
                    first = false;
                }
                col.ok(&case, cx);
            }
        }
    }
    let _ = std::fs::remove_dir_all(&work);
    format!("{execs} executions in {nproc} processes (seed {seed}), {corpus_files} corpus entries kept, {} artifacts, {reproduced} reproduced", artifacts.len())
}

static HANG_CONFIRMED: std::sync::atomic::AtomicBool = std::sync::atomic::AtomicBool::new(false);

fn worker_main() -> ! {
    vf_engine::install_quiet_panic_hook();
    serve(STACK, |req| {
        let n = req.first().copied().unwrap_or(0) as usize;
        if req.len() < 1 + n {
            return b"badframe".to_vec();
        }
        let ep = String::from_utf8_lossy(&req[1..1 + n]).into_owned();
        let payload = &req[1 + n..];
        match no_panic(|| entry::call(&ep, payload)) {
            Ok(s) => s.into_bytes(),
            Err(p) => format!("PANIC:{p}").into_bytes(),
        }
    })
}

fn main() {
    let args: Vec<String> = std::env::args().skip(1).collect();
    if args.iter().any(|a| a == "--worker") {
        worker_main();
    }
    let id = args.first().cloned().unwrap_or_default();
    let mut ck = Check::from_env(&id, &args[1.min(args.len())..]);
    ck.max_shrink_iters = 400;
    if id != "C17" {
        eprintln!("vf-wire: unknown property {id}");
        std::process::exit(2);
    }
    ck.rule(
        "46 entry points (identifier parsers and accessors, Matrix URIs, typed event / Raw / ruleset / condition / canonical JSON deserialisation, request and response conversion from HTTP, Content-Disposition / X-Matrix / Retry-After headers, push evaluation and flattening, verify_json / verify_event / sign_json / hash_and_sign_event / hashes / redaction on hostile signed objects, PKCS#8 documents, base64, auth_check on arbitrary contents, HTML parse / sanitize / serialise / drop), each with repository-derived valid seeds. \
         G1: 1-3 byte-level mutations (bit flips, deletions, dictionary insertions, truncation, duplication, splices, boundary-length runs of 254..258 / 510..514 / 65,536 bytes, invalid UTF-8) and 1-3 structure-level mutations (delete / duplicate / swap a field, type swap, boundary-length strings, hostile identifiers, numeric extremes, JSON nesting up to 1,000 levels, HTML nesting up to 21,845 levels), fed in long sequences to the same supervised worker process whose calls run on a 2 MiB stack. \
         G2 (exhaustive): every dictionary token inserted at every position of every textual seed of at most 96 bytes (identifiers, URIs, header values). Oracle: every call returns (no panic report, no abnormal process exit, no watchdog silence confirmed by three fresh 15 s runs), and every 250 calls the valid seeds of the entry point are re-evaluated in the same process and must give byte-identical results. Non-trivial = input that got past the entry point's first syntactic gate.",
    );
    ck.assume("input size <= 64 KiB (one PDU) except the explicit 65,536-byte boundary strings; JSON nesting <= 1,024; HTML nesting <= 21,845 = floor(65,535/3); 2 MiB thread stack");
    ck.assume("a watchdog hit is re-run in up to three fresh processes (15 s each, 60 s for inputs above 64 KiB): an answer from one of them is judged like any other answer, three silences are a violation");
    let n = ck.n(120_000, 6_000_000);
    ck.prop("mutated_seeds", n, case_strategy, oracle);
    // systematic layer under the random one: every dictionary token inserted at every position
    // of every short textual seed (identifiers, URIs, header values, event types)
    ck.exhaustive("single_token_insertions", true, |s, n| token_insertion_space().skip(s as usize).step_by(n as usize), oracle);
    for e in INFRA.lock().unwrap().drain(..) {
        ck.infra_error(e);
    }
    for cls in ["family_identifiers", "family_uris", "family_json_events", "family_http_messages", "family_headers", "family_push", "family_signatures", "family_state_res", "family_html", "rejected_input", "accepted_input", "canary_checked"] {
        ck.floor("mutated_seeds", cls, 100);
    }
    if ck.thorough() || ck.selected("libfuzzer_campaign") || ck.is_replay() {
        let (seed, runs) = (ck.seed, if ck.thorough() { 4_000_000u64 } else { 300_000 });
        let mut note = String::new();
        ck.custom::<WireCase, _, _>("libfuzzer_campaign", "coverage-guided fuzzing (libFuzzer), 8 processes", |col| note = libfuzzer_campaign(col, seed, runs), oracle);
        ck.extra("libfuzzer_campaign", json!(note));
        for e in INFRA.lock().unwrap().drain(..) {
            ck.infra_error(e);
        }
    }
    ck.finish()
}
