//! Entry-point registry of the C17 check as a library, so that the supervised-worker harness
//! (src/main.rs) and the coverage-guided fuzz target (/verif/fuzz) exercise the same code.
pub mod auth;
pub mod entry;
