//! auth_check / auth_types_for_event on events with arbitrary content (C17 entry point).
use std::{collections::HashMap, sync::Arc};

use ruma_common::{MilliSecondsSinceUnixEpoch, OwnedEventId, OwnedRoomId, OwnedUserId, RoomId, RoomVersionId, UserId};
use ruma_events::TimelineEventType;
use ruma_state_res::{auth_check, auth_types_for_event, Event};
use serde_json::{value::RawValue, Value};

pub struct Pdu {
    id: OwnedEventId,
    room_id: OwnedRoomId,
    sender: OwnedUserId,
    ts: MilliSecondsSinceUnixEpoch,
    ty: TimelineEventType,
    content: Box<RawValue>,
    state_key: Option<String>,
    prev: Vec<OwnedEventId>,
    auth: Vec<OwnedEventId>,
    redacts: Option<OwnedEventId>,
}

impl Pdu {
    fn from_json(v: &Value) -> Option<Arc<Pdu>> {
        let s = |k: &str| v.get(k).and_then(|x| x.as_str());
        let ids = |k: &str| -> Vec<OwnedEventId> { v.get(k).and_then(|x| x.as_array()).map(|a| a.iter().filter_map(|x| x.as_str()).filter_map(|x| OwnedEventId::try_from(x).ok()).collect()).unwrap_or_default() };
        Some(Arc::new(Pdu {
            id: OwnedEventId::try_from(s("event_id")?).ok()?,
            room_id: OwnedRoomId::try_from(s("room_id")?).ok()?,
            sender: OwnedUserId::try_from(s("sender")?).ok()?,
            ts: MilliSecondsSinceUnixEpoch(js_int::UInt::try_from(v.get("origin_server_ts").and_then(|x| x.as_u64()).unwrap_or(0) % (1 << 52)).ok()?),
            ty: TimelineEventType::from(s("type")?),
            content: serde_json::value::to_raw_value(v.get("content").unwrap_or(&Value::Null)).ok()?,
            state_key: s("state_key").map(str::to_owned),
            prev: ids("prev_events"),
            auth: ids("auth_events"),
            redacts: s("redacts").and_then(|x| OwnedEventId::try_from(x).ok()),
        }))
    }
}

impl Event for Pdu {
    type Id = OwnedEventId;
    fn event_id(&self) -> &Self::Id {
        &self.id
    }
    fn room_id(&self) -> &RoomId {
        &self.room_id
    }
    fn sender(&self) -> &UserId {
        &self.sender
    }
    fn origin_server_ts(&self) -> MilliSecondsSinceUnixEpoch {
        self.ts
    }
    fn event_type(&self) -> &TimelineEventType {
        &self.ty
    }
    fn content(&self) -> &RawValue {
        &self.content
    }
    fn state_key(&self) -> Option<&str> {
        self.state_key.as_deref()
    }
    fn prev_events(&self) -> Box<dyn DoubleEndedIterator<Item = &Self::Id> + '_> {
        Box::new(self.prev.iter())
    }
    fn auth_events(&self) -> Box<dyn DoubleEndedIterator<Item = &Self::Id> + '_> {
        Box::new(self.auth.iter())
    }
    fn redacts(&self) -> Option<&Self::Id> {
        self.redacts.as_ref()
    }
}

pub fn auth_outcome(version: u64, event: &Value, state: &[Value]) -> String {
    let Some(ev) = Pdu::from_json(event) else { return "badevent".into() };
    let rules = RoomVersionId::try_from(((version % 11) + 1).to_string().as_str()).unwrap().rules().unwrap().authorization;
    let mut st: HashMap<(String, String), Arc<Pdu>> = HashMap::new();
    for s in state {
        if let Some(p) = Pdu::from_json(s) {
            if let Some(k) = p.state_key.clone() {
                st.insert((p.ty.to_string(), k), p);
            }
        }
    }
    let sel = auth_types_for_event(&ev.ty, &ev.sender, ev.state_key.as_deref(), &ev.content, &rules);
    let r = auth_check(&rules, &*ev, |ty, key| st.get(&(ty.to_string(), key.to_owned())).cloned());
    format!("{}:{}", sel.map(|s| s.len().to_string()).unwrap_or_else(|e| format!("selerr{}", e.len())), r.is_ok())
}
