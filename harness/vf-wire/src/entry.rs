//! Registry of entry points that consume data controlled by a remote party. Each takes a
//! payload (bytes; structured payloads are JSON) and returns a short outcome string whose exact
//! value is used for the isolation canary (equal inputs must give equal outcomes at any time).

use std::{collections::BTreeMap, str::FromStr};

use ruma_common::{
    api::{IncomingRequest, IncomingResponse},
    canonical_json::{redact, CanonicalJsonObject, CanonicalJsonValue},
    http_headers::ContentDisposition,
    push::{FlattenedJson, PushCondition, PushConditionRoomCtx, Ruleset},
    serde::{Base64, Raw},
    MatrixToUri, MatrixUri, RoomVersionId,
};
use ruma_events::{
    room::message::RoomMessageEventContent, AnyEphemeralRoomEvent, AnyGlobalAccountDataEvent, AnyStrippedStateEvent, AnySyncTimelineEvent, AnyTimelineEvent, AnyToDeviceEvent,
};
use serde::Deserialize;
use serde_json::Value;
use vf_engine::fnv;

fn d<T: std::fmt::Debug, E: std::fmt::Display>(r: Result<T, E>) -> String {
    match r {
        Ok(v) => format!("ok:{:016x}", fnv(format!("{v:?}").as_bytes())),
        Err(e) => format!("err:{:016x}", fnv(e.to_string().as_bytes())),
    }
}

fn utf8(p: &[u8]) -> Option<&str> {
    std::str::from_utf8(p).ok()
}

fn rules(v: u64) -> ruma_common::room_version_rules::RoomVersionRules {
    RoomVersionId::try_from(((v % 11) + 1).to_string().as_str()).unwrap().rules().unwrap()
}

macro_rules! id_ep {
    ($p:expr, $T:ty) => {{
        match utf8($p) {
            None => "notutf8".to_owned(),
            Some(s) => match <&$T>::try_from(s) {
                Ok(v) => format!("ok:{:016x}", fnv(v.as_str().as_bytes())),
                Err(e) => format!("err:{e}"),
            },
        }
    }};
}

#[derive(Deserialize)]
struct HttpPayload {
    method: String,
    uri: String,
    headers: Vec<(String, Vec<u8>)>,
    body: Vec<u8>,
    path_args: Vec<String>,
}

fn http_request(p: &[u8]) -> Option<(http::Request<Vec<u8>>, Vec<String>)> {
    let h: HttpPayload = serde_json::from_slice(p).ok()?;
    let mut b = http::Request::builder().method(http::Method::from_bytes(h.method.as_bytes()).ok()?).uri(h.uri.parse::<http::Uri>().ok()?);
    for (k, v) in &h.headers {
        b = b.header(http::header::HeaderName::from_bytes(k.as_bytes()).ok()?, http::HeaderValue::from_bytes(v).ok()?);
    }
    Some((b.body(h.body).ok()?, h.path_args))
}

fn http_response(p: &[u8]) -> Option<http::Response<Vec<u8>>> {
    let h: HttpPayload = serde_json::from_slice(p).ok()?;
    let mut b = http::Response::builder().status(h.method.parse::<u16>().ok().and_then(|s| http::StatusCode::from_u16(s).ok())?);
    for (k, v) in &h.headers {
        b = b.header(http::header::HeaderName::from_bytes(k.as_bytes()).ok()?, http::HeaderValue::from_bytes(v).ok()?);
    }
    b.body(h.body).ok()
}

macro_rules! req_ep {
    ($p:expr, $R:ty) => {{
        match http_request($p) {
            None => "badpayload".to_owned(),
            Some((req, args)) => d(<$R as IncomingRequest>::try_from_http_request(req, &args).map(|r| format!("{r:?}").len())),
        }
    }};
}
macro_rules! resp_ep {
    ($p:expr, $R:ty) => {{
        match http_response($p) {
            None => "badpayload".to_owned(),
            Some(resp) => d(<$R as IncomingResponse>::try_from_http_response(resp).map(|r| format!("{r:?}").len())),
        }
    }};
}

#[derive(Deserialize)]
struct SigPayload {
    version: u64,
    object: Value,
    /// entity -> key id -> base64 public key
    keys: BTreeMap<String, BTreeMap<String, String>>,
    seed: Vec<u8>,
    entity: String,
    key_version: String,
}

#[derive(Deserialize)]
struct PushPayload {
    ruleset: Value,
    event: Value,
    display_name: String,
    member_count: u32,
}

#[derive(Deserialize)]
struct EditPayload {
    ruleset: Value,
    ops: Vec<EditOp>,
}

#[derive(Deserialize)]
struct EditOp {
    op: String,
    kind: String,
    rule_id: String,
    #[serde(default)]
    after: Option<String>,
    #[serde(default)]
    before: Option<String>,
    #[serde(default)]
    enabled: bool,
    #[serde(default)]
    actions: Value,
    #[serde(default)]
    conditions: Value,
    #[serde(default)]
    pattern: String,
}

/// Applies a sequence of rules edits received from a client to one ruleset. A rejected edit must
/// leave the ruleset as it was: otherwise the outcome starts with `LEAK:`.
fn ruleset_edits(pl: EditPayload) -> String {
    use ruma_common::push::{Action, NewConditionalPushRule, NewPatternedPushRule, NewPushRule, NewSimplePushRule, RuleKind};
    let mut rs: Ruleset = match serde_json::from_value(pl.ruleset) {
        Ok(r) => r,
        Err(e) => return format!("err:{e}"),
    };
    let mut log = String::new();
    for o in pl.ops.into_iter().take(64) {
        let before_state = serde_json::to_string(&rs).unwrap_or_default();
        let kind = match o.kind.as_str() {
            "override" => RuleKind::Override,
            "underride" => RuleKind::Underride,
            "content" => RuleKind::Content,
            "room" => RuleKind::Room,
            "sender" => RuleKind::Sender,
            _ => {
                log.push('k');
                continue;
            }
        };
        let actions: Vec<Action> = serde_json::from_value(o.actions.clone()).unwrap_or_default();
        let res: Result<(), String> = match o.op.as_str() {
            "insert" => {
                let rule = match kind {
                    RuleKind::Override | RuleKind::Underride => {
                        let conds: Vec<PushCondition> = serde_json::from_value(o.conditions.clone()).unwrap_or_default();
                        let r = NewConditionalPushRule::new(o.rule_id.clone(), conds, actions);
                        Some(if kind == RuleKind::Override { NewPushRule::Override(r) } else { NewPushRule::Underride(r) })
                    }
                    RuleKind::Content => Some(NewPushRule::Content(NewPatternedPushRule::new(o.rule_id.clone(), o.pattern.clone(), actions))),
                    RuleKind::Room => o.rule_id.as_str().try_into().ok().map(|id| NewPushRule::Room(NewSimplePushRule::new(id, actions))),
                    _ => o.rule_id.as_str().try_into().ok().map(|id| NewPushRule::Sender(NewSimplePushRule::new(id, actions))),
                };
                match rule {
                    None => {
                        log.push('i');
                        continue;
                    }
                    Some(r) => rs.insert(r, o.after.as_deref(), o.before.as_deref()).map_err(|e| e.to_string()),
                }
            }
            "remove" => rs.remove(kind, &o.rule_id).map_err(|e| e.to_string()),
            "set_enabled" => rs.set_enabled(kind, &o.rule_id, o.enabled).map_err(|e| e.to_string()),
            "set_actions" => rs.set_actions(kind, &o.rule_id, actions).map_err(|e| e.to_string()),
            _ => {
                log.push('o');
                continue;
            }
        };
        match res {
            Ok(()) => log.push('+'),
            Err(e) => {
                log.push('-');
                if serde_json::to_string(&rs).unwrap_or_default() != before_state {
                    return format!("LEAK:{} {:?} on {:?} was rejected ({e}) but changed the ruleset", o.op, o.kind, o.rule_id);
                }
            }
        }
    }
    format!("{log}:{:016x}", fnv(serde_json::to_string(&rs).unwrap_or_default().as_bytes()))
}

#[derive(Deserialize)]
struct AuthPayload {
    version: u64,
    event: Value,
    state: Vec<Value>,
}

pub const ENTRY_POINTS: &[&str] = &[
    "id_user", "id_room", "id_alias", "id_room_or_alias", "id_event", "id_server", "id_mxc", "id_key", "id_device_key", "id_misc", "id_event_type", "uri_matrix_to", "uri_matrix", "json_timeline", "json_sync_timeline",
    "json_stripped", "json_to_device", "json_account_data", "json_ephemeral", "json_raw", "json_message_content", "json_ruleset", "json_push_condition", "json_canonical", "http_send_message", "http_get_state", "http_get_account_data",
    "http_join", "http_fed_send_join", "http_fed_transaction", "http_resp_sync", "http_resp_error", "http_resp_fed_media", "hdr_content_disposition", "hdr_xmatrix", "hdr_retry_after", "push_get_match", "push_flatten", "push_ruleset_edits", "sig_verify_json",
    "sig_verify_event", "sig_sign", "sig_hashes_redact", "sig_from_der", "sig_base64", "auth_check", "html_parse", "html_sanitize_strict", "html_sanitize_compat", "html_remove_fallback",
];

pub fn call(ep: &str, p: &[u8]) -> String {
    match ep {
        "id_user" => match utf8(p) {
            None => "notutf8".into(),
            Some(s) => match <&ruma_common::UserId>::try_from(s) {
                Ok(u) => format!("ok:{}:{}:{:?}:{:?}", u.localpart().len(), u.server_name().host().len(), u.server_name().port(), u.validate_strict().is_ok()),
                Err(e) => format!("err:{e}"),
            },
        },
        "id_room" => id_ep!(p, ruma_common::RoomId),
        "id_alias" => id_ep!(p, ruma_common::RoomAliasId),
        "id_room_or_alias" => id_ep!(p, ruma_common::RoomOrAliasId),
        "id_event" => match utf8(p) {
            None => "notutf8".into(),
            Some(s) => match <&ruma_common::EventId>::try_from(s) {
                Ok(e) => format!("ok:{}:{:?}", e.localpart().len(), e.server_name().map(|s| s.as_str().len())),
                Err(e) => format!("err:{e}"),
            },
        },
        "id_server" => match utf8(p) {
            None => "notutf8".into(),
            Some(s) => match <&ruma_common::ServerName>::try_from(s) {
                Ok(n) => format!("ok:{}:{:?}:{}", n.host().len(), n.port(), n.is_ip_literal()),
                Err(e) => format!("err:{e}"),
            },
        },
        "id_mxc" => match utf8(p) {
            None => "notutf8".into(),
            Some(s) => {
                let m: &ruma_common::MxcUri = s.into();
                format!("{:?}:{:?}", m.validate().is_ok(), m.parts().map(|(a, b)| (a.as_str().len(), b.len())).ok())
            }
        },
        "id_key" => match utf8(p) {
            None => "notutf8".into(),
            Some(s) => match <&ruma_common::ServerSigningKeyId>::try_from(s) {
                Ok(k) => format!("ok:{}:{}", k.algorithm().as_ref().len(), k.key_name().as_str().len()),
                Err(e) => format!("err:{e}"),
            },
        },
        "id_device_key" => match utf8(p) {
            None => "notutf8".into(),
            Some(s) => format!(
                "{:?}:{:?}:{:?}",
                <&ruma_common::DeviceKeyId>::try_from(s).map(|k| (k.algorithm().as_ref().len(), k.key_name().as_str().len())).ok(),
                <&ruma_common::OneTimeKeyId>::try_from(s).map(|k| k.as_str().len()).ok(),
                <&ruma_common::CrossSigningKeyId>::try_from(s).map(|k| k.as_str().len()).ok()
            ),
        },
        "id_misc" => match utf8(p) {
            None => "notutf8".into(),
            Some(s) => format!(
                "{}{}{}{}{}",
                RoomVersionId::try_from(s).is_ok() as u8,
                <&ruma_common::ClientSecret>::try_from(s).is_ok() as u8,
                <&ruma_common::SessionId>::try_from(s).is_ok() as u8,
                <&ruma_common::ServerSigningKeyVersion>::try_from(s).is_ok() as u8,
                <&ruma_common::Base64PublicKey>::try_from(s).is_ok() as u8
            ),
        },
        // event types arrive as the `type` of an event and as a path segment of endpoints; every enum
        // must turn any string into a value whose string form is total as well
        "id_event_type" => match utf8(p) {
            None => "notutf8".into(),
            Some(s) => {
                use ruma_events::{EphemeralRoomEventType, GlobalAccountDataEventType, MessageLikeEventType, RoomAccountDataEventType, StateEventType, TimelineEventType, ToDeviceEventType};
                format!(
                    "{}:{}:{}:{}:{}:{}:{}",
                    TimelineEventType::from(s).to_string().len(),
                    StateEventType::from(s).to_string().len(),
                    MessageLikeEventType::from(s).to_string().len(),
                    GlobalAccountDataEventType::from(s.to_owned()).to_string().len(),
                    RoomAccountDataEventType::from(s).to_string().len(),
                    EphemeralRoomEventType::from(s).to_string().len(),
                    ToDeviceEventType::from(s).to_string().len()
                )
            }
        },
        "uri_matrix_to" => utf8(p).map(|s| d(MatrixToUri::parse(s).map(|u| u.to_string()))).unwrap_or_else(|| "notutf8".into()),
        "uri_matrix" => utf8(p).map(|s| d(MatrixUri::parse(s).map(|u| u.to_string()))).unwrap_or_else(|| "notutf8".into()),
        "json_timeline" => d(serde_json::from_slice::<AnyTimelineEvent>(p).map(|e| (e.event_type().to_string(), e.sender().to_owned()))),
        "json_sync_timeline" => d(serde_json::from_slice::<AnySyncTimelineEvent>(p).map(|e| e.event_type().to_string())),
        "json_stripped" => d(serde_json::from_slice::<AnyStrippedStateEvent>(p).map(|e| e.event_type().to_string())),
        "json_to_device" => d(serde_json::from_slice::<AnyToDeviceEvent>(p).map(|e| e.event_type().to_string())),
        "json_account_data" => d(serde_json::from_slice::<AnyGlobalAccountDataEvent>(p).map(|e| e.event_type().to_string())),
        "json_ephemeral" => d(serde_json::from_slice::<AnyEphemeralRoomEvent>(p).map(|e| e.event_type().to_string())),
        "json_raw" => match utf8(p).map(|s| Raw::<AnyTimelineEvent>::from_json_string(s.to_owned())) {
            Some(Ok(raw)) => format!("{}:{}:{}", raw.deserialize().is_ok(), d(raw.get_field::<Value>("type")), d(raw.get_field::<String>("sender"))),
            Some(Err(e)) => format!("err:{e}"),
            None => "notutf8".into(),
        },
        "json_message_content" => d(serde_json::from_slice::<RoomMessageEventContent>(p).map(|c| serde_json::to_string(&c).map(|s| s.len()).unwrap_or(0))),
        "json_ruleset" => d(serde_json::from_slice::<Ruleset>(p).map(|r| r.iter().count())),
        "json_push_condition" => d(serde_json::from_slice::<PushCondition>(p)),
        "json_canonical" => d(serde_json::from_slice::<CanonicalJsonValue>(p).map(|v| v.to_string().len())),
        "http_send_message" => req_ep!(p, ruma_client_api::message::send_message_event::v3::Request),
        "http_get_state" => req_ep!(p, ruma_client_api::state::get_state_events_for_key::v3::Request),
        "http_get_account_data" => req_ep!(p, ruma_client_api::config::get_global_account_data::v3::Request),
        "http_join" => req_ep!(p, ruma_client_api::membership::join_room_by_id_or_alias::v3::Request),
        "http_fed_send_join" => req_ep!(p, ruma_federation_api::membership::create_join_event::v2::Request),
        "http_fed_transaction" => req_ep!(p, ruma_federation_api::transactions::send_transaction_message::v1::Request),
        "http_resp_sync" => resp_ep!(p, ruma_client_api::sync::sync_events::v3::Response),
        "http_resp_fed_media" => resp_ep!(p, ruma_federation_api::authenticated_media::get_content::v1::Response),
        "http_resp_error" => match http_response(p) {
            None => "badpayload".into(),
            Some(r) => {
                use ruma_common::api::EndpointError;
                let e = ruma_client_api::Error::from_http_response(r);
                format!("{:?}", e.error_kind().map(|k| k.errcode().to_string()))
            }
        },
        "hdr_content_disposition" => format!("{}:{}", d(ContentDisposition::try_from(p).map(|c| c.to_string())), utf8(p).map(|s| d(ContentDisposition::from_str(s).map(|c| c.to_string()))).unwrap_or_default()),
        "hdr_xmatrix" => match http::HeaderValue::from_bytes(p) {
            Ok(h) => d(ruma_federation_api::authentication::XMatrix::try_from(&h).map(|x| x.to_string())),
            Err(_) => "badheader".into(),
        },
        "hdr_retry_after" => match http::HeaderValue::from_bytes(p) {
            Ok(h) => d(ruma_client_api::error::RetryAfter::try_from(&h).map(|r| format!("{r:?}"))),
            Err(_) => "badheader".into(),
        },
        "push_get_match" => match serde_json::from_slice::<PushPayload>(p) {
            Err(_) => "badpayload".into(),
            Ok(pl) => match serde_json::from_value::<Ruleset>(pl.ruleset) {
                Err(e) => format!("err:{e}"),
                Ok(rs) => {
                    let ctx = PushConditionRoomCtx { room_id: "!r:x.y".try_into().unwrap(), member_count: js_int::UInt::from(pl.member_count), user_id: "@me:x.y".try_into().unwrap(), user_display_name: pl.display_name, power_levels: None };
                    let raw: Raw<Value> = Raw::from_json(serde_json::value::to_raw_value(&pl.event).unwrap());
                    let m = rs.get_match(&raw, &ctx).map(|r| r.rule_id().to_owned());
                    format!("{m:?}:{}", rs.get_actions(&raw, &ctx).len())
                }
            },
        },
        "push_ruleset_edits" => match serde_json::from_slice::<EditPayload>(p) {
            Err(_) => "badpayload".into(),
            Ok(pl) => ruleset_edits(pl),
        },
        "push_flatten" => match utf8(p).map(|s| Raw::<Value>::from_json_string(s.to_owned())) {
            Some(Ok(raw)) => {
                let f = FlattenedJson::from_raw(&raw);
                format!("{:?}:{}", f.get_str("type"), f.contains_mentions())
            }
            Some(Err(e)) => format!("err:{e}"),
            None => "notutf8".into(),
        },
        "sig_verify_json" | "sig_verify_event" | "sig_sign" | "sig_hashes_redact" => match serde_json::from_slice::<SigPayload>(p) {
            Err(_) => "badpayload".into(),
            Ok(sp) => {
                let obj: CanonicalJsonObject = match serde_json::from_value(sp.object) {
                    Ok(o) => o,
                    Err(e) => return format!("err:{e}"),
                };
                let mut map = ruma_signatures::PublicKeyMap::new();
                for (ent, ks) in &sp.keys {
                    for (kid, k) in ks {
                        if let Ok(b) = Base64::parse(k) {
                            map.entry(ent.clone()).or_default().insert(kid.clone(), b);
                        }
                    }
                }
                let r = rules(sp.version);
                match ep {
                    "sig_verify_json" => d(ruma_signatures::verify_json(&map, &obj)),
                    "sig_verify_event" => d(ruma_signatures::verify_event(&map, &obj, &r)),
                    "sig_sign" => {
                        let mut seed = [0u8; 32];
                        for (i, b) in sp.seed.iter().take(32).enumerate() {
                            seed[i] = *b;
                        }
                        let mut doc = vec![0x30, 0x2e, 0x02, 0x01, 0x00, 0x30, 0x05, 0x06, 0x03, 0x2b, 0x65, 0x70, 0x04, 0x22, 0x04, 0x20];
                        doc.extend_from_slice(&seed);
                        match ruma_signatures::Ed25519KeyPair::from_der(&doc, sp.key_version.clone()) {
                            Err(e) => format!("err:{e}"),
                            Ok(kp) => {
                                let mut o1 = obj.clone();
                                let a = ruma_signatures::sign_json(&sp.entity, &kp, &mut o1);
                                let mut o2 = obj.clone();
                                let b = ruma_signatures::hash_and_sign_event(&sp.entity, &kp, &mut o2, &r.redaction);
                                format!("{}:{}", d(a.map(|_| o1.len())), d(b.map(|_| o2.len())))
                            }
                        }
                    }
                    _ => format!("{}:{}:{}:{}", d(ruma_signatures::content_hash(&obj).map(|h| h.encode())), d(ruma_signatures::reference_hash(&obj, &r)), d(redact(obj.clone(), &r.redaction, None).map(|o| o.len())), d(ruma_signatures::canonical_json(&obj))),
                }
            }
        },
        "sig_from_der" => d(ruma_signatures::Ed25519KeyPair::from_der(p, "1".into()).map(|k| k.public_key())),
        "sig_base64" => format!("{}:{}", d(Base64::<ruma_common::serde::base64::Standard>::parse(p).map(|b| b.as_bytes().len())), d(Base64::<ruma_common::serde::base64::UrlSafe>::parse(p).map(|b| b.as_bytes().len()))),
        "auth_check" => match serde_json::from_slice::<AuthPayload>(p) {
            Err(_) => "badpayload".into(),
            Ok(ap) => crate::auth::auth_outcome(ap.version, &ap.event, &ap.state),
        },
        "html_parse" => match utf8(p) {
            None => "notutf8".into(),
            Some(s) => {
                let h = ruma_html::Html::parse(s);
                format!("ok:{}", h.to_string().len())
            }
        },
        "html_sanitize_strict" => utf8(p).map(|s| format!("ok:{}", ruma_html::sanitize_html(s, ruma_html::HtmlSanitizerMode::Strict, ruma_html::RemoveReplyFallback::Yes).len())).unwrap_or_else(|| "notutf8".into()),
        "html_sanitize_compat" => utf8(p).map(|s| format!("ok:{}", ruma_html::sanitize_html(s, ruma_html::HtmlSanitizerMode::Compat, ruma_html::RemoveReplyFallback::No).len())).unwrap_or_else(|| "notutf8".into()),
        "html_remove_fallback" => utf8(p).map(|s| format!("ok:{}", ruma_html::remove_html_reply_fallback(s).len())).unwrap_or_else(|| "notutf8".into()),
        _ => "unknown-entry-point".into(),
    }
}
