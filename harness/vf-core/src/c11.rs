//! C11 Matrix URIs round-trip through text and parsing them never panics.

use proptest::prelude::*;
use ruma_common::{
    matrix_uri::{MatrixId, MatrixToUri, MatrixUri},
    EventId, OwnedServerName, RoomAliasId, RoomId, ServerName, UserId,
};
use serde::{Deserialize, Serialize};
use vf_engine::{pick_idx, CaseCtx, Check};
use vf_ref::idgen;

#[derive(Serialize, Deserialize, Debug, Clone)]
pub struct UriValue {
    /// 0 user, 1 room, 2 room+event, 3 alias, 4 alias+event
    pub kind: u8,
    pub matrix_to: bool,
    pub id: String,
    pub event: String,
    pub via: Vec<String>,
    pub flag: bool,
}

const HOSTILE: &str = "[a-zA-Z0-9%/?#+&= \"<>`{}\\\\|^~é\u{1F600}\u{0080};,.'()*@!$-]";

fn hostile_local() -> impl Strategy<Value = String> {
    prop_oneof![
        3 => proptest::string::string_regex(&format!("{HOSTILE}{{1,10}}")).unwrap(),
        1 => "[a-z]{0,3}%[0-9A-Fa-f]{2}[a-z]{0,3}",
        1 => "[a-z]{0,3}%[a-z]{0,3}",
        1 => "[a-z]{1,3}(/|\\?|#|\\+|&|=| )[a-z]{1,3}",
    ]
}

/// Identifiers close to the 255-byte limit made of characters that need percent-encoding, so
/// that the URI text is up to three times longer than the identifier.
fn long_id(sigil: char) -> impl Strategy<Value = String> {
    (proptest::string::string_regex(&format!("{HOSTILE}{{80,255}}")).unwrap(), idgen::server_name(), 0usize..4, any::<bool>()).prop_map(move |(local, server, slack, ascii)| {
        let local: String = if ascii { local.chars().map(|c| if c.is_ascii() { c } else { '/' }).collect() } else { local };
        let budget = 255usize.saturating_sub(2 + server.len() + slack);
        let mut cut = local.len().min(budget);
        while !local.is_char_boundary(cut) {
            cut -= 1;
        }
        format!("{sigil}{}:{server}", &local[..cut])
    })
}

fn user_ids() -> impl Strategy<Value = String> {
    prop_oneof![
        1 => long_id('@'),
        2 => idgen::user_id(),
        3 => ("[!-9;-~]{1,10}", idgen::server_name()).prop_map(|(l, s)| format!("@{l}:{s}")),
        1 => ("[a-z]{0,3}%[0-9A-F]{2}[a-z]{0,3}", idgen::server_name()).prop_map(|(l, s)| format!("@{l}:{s}")),
        2 => (hostile_local(), idgen::server_name()).prop_map(|(l, s)| format!("@{l}:{s}")),
    ]
}
fn room_ids() -> impl Strategy<Value = String> {
    prop_oneof![
        1 => long_id('!'),
        2 => idgen::room_id(),
        3 => (hostile_local(), idgen::server_name()).prop_map(|(l, s)| format!("!{l}:{s}")),
        1 => hostile_local().prop_map(|l| format!("!{l}")),
        // room ids are opaque: what follows the first colon need not be a server name
        1 => (hostile_local(), hostile_local(), idgen::server_name()).prop_map(|(l, m, s)| format!("!{l}:{m}:{s}")),
        1 => (hostile_local(), prop_oneof![Just("/".to_owned()), Just("example.com:notaport".to_owned()), Just("under_score.hs".to_owned()), Just(String::new()), Just("b c".to_owned()), hostile_local()]).prop_map(|(l, junk)| format!("!{l}:{junk}")),
    ]
}
fn alias_ids() -> impl Strategy<Value = String> {
    prop_oneof![1 => long_id('#'), 2 => idgen::room_alias_id(), 3 => (hostile_local(), idgen::server_name()).prop_map(|(l, s)| format!("#{l}:{s}"))]
}
fn event_ids() -> impl Strategy<Value = String> {
    prop_oneof![
        1 => long_id('$'),
        3 => idgen::event_id(),
        2 => (hostile_local(), idgen::server_name()).prop_map(|(l, s)| format!("${l}:{s}")),
        2 => hostile_local().prop_map(|l| format!("${l}")),
    ]
}

pub fn uri_value() -> impl Strategy<Value = UriValue> {
    (0u8..5, any::<bool>(), prop::collection::vec(idgen::server_name(), 0..4), any::<bool>()).prop_flat_map(|(kind, matrix_to, via, flag)| {
        let id = match kind {
            0 => user_ids().boxed(),
            1 | 2 => room_ids().boxed(),
            _ => alias_ids().boxed(),
        };
        (id, event_ids()).prop_map(move |(id, event)| UriValue { kind, matrix_to, id, event, via: via.clone(), flag })
    })
}

/// Independent percent decoder.
fn pct_decode(s: &str) -> Vec<u8> {
    let b = s.as_bytes();
    let mut out = Vec::with_capacity(b.len());
    let mut i = 0;
    while i < b.len() {
        if b[i] == b'%' && i + 2 < b.len() {
            let h = |c: u8| (c as char).to_digit(16);
            if let (Some(a), Some(c)) = (h(b[i + 1]), h(b[i + 2])) {
                out.push((a * 16 + c) as u8);
                i += 3;
                continue;
            }
        }
        out.push(b[i]);
        i += 1;
    }
    out
}

enum Built {
    To(MatrixToUri),
    Uri(MatrixUri),
}

fn build(c: &UriValue, cx: &mut CaseCtx) -> Option<Built> {
    let via: Vec<OwnedServerName> = c.via.iter().filter_map(|s| ServerName::parse(s).ok()).collect();
    if via.len() != c.via.len() {
        cx.class("id_rejected_by_parser");
        return None;
    }
    // degenerate identifiers with an empty opaque part exist only through a gap C10 leaves
    // unasserted; the spec requires non-empty opaque ids
    let empty_opaque = |s: &str| s.len() <= 1 || s[1..].starts_with(':');
    if empty_opaque(&c.id) || (matches!(c.kind, 2 | 4) && empty_opaque(&c.event)) {
        cx.class("degenerate_empty_id_excluded");
        return None;
    }
    let ev = || <&EventId>::try_from(c.event.as_str()).ok().map(|e| e.to_owned());
    Some(match (c.kind, c.matrix_to) {
        (0, true) => Built::To(<&UserId>::try_from(c.id.as_str()).ok()?.matrix_to_uri()),
        (0, false) => Built::Uri(<&UserId>::try_from(c.id.as_str()).ok()?.matrix_uri(c.flag)),
        (1, true) => {
            let r = <&RoomId>::try_from(c.id.as_str()).ok()?;
            Built::To(if via.is_empty() && c.flag { r.matrix_to_uri() } else { r.matrix_to_uri_via(via) })
        }
        (1, false) => {
            let r = <&RoomId>::try_from(c.id.as_str()).ok()?;
            Built::Uri(if via.is_empty() { r.matrix_uri(c.flag) } else { r.matrix_uri_via(via, c.flag) })
        }
        (2, true) => {
            let r = <&RoomId>::try_from(c.id.as_str()).ok()?;
            Built::To(if via.is_empty() { r.matrix_to_event_uri(ev()?) } else { r.matrix_to_event_uri_via(ev()?, via) })
        }
        (2, false) => {
            let r = <&RoomId>::try_from(c.id.as_str()).ok()?;
            Built::Uri(if via.is_empty() { r.matrix_event_uri(ev()?) } else { r.matrix_event_uri_via(ev()?, via) })
        }
        (3, true) => Built::To(<&RoomAliasId>::try_from(c.id.as_str()).ok()?.matrix_to_uri()),
        (3, false) => Built::Uri(<&RoomAliasId>::try_from(c.id.as_str()).ok()?.matrix_uri(c.flag)),
        #[allow(deprecated)]
        (_, true) => Built::To(<&RoomAliasId>::try_from(c.id.as_str()).ok()?.matrix_to_event_uri(ev()?)),
        #[allow(deprecated)]
        (_, false) => Built::Uri(<&RoomAliasId>::try_from(c.id.as_str()).ok()?.matrix_event_uri(ev()?)),
    })
}

fn id_strings(id: &MatrixId) -> Vec<String> {
    match id {
        MatrixId::Room(r) => vec![r.to_string()],
        MatrixId::RoomAlias(r) => vec![r.to_string()],
        MatrixId::User(r) => vec![r.to_string()],
        MatrixId::Event(r, e) => vec![r.to_string(), e.to_string()],
        _ => vec![],
    }
}

pub fn value_oracle(c: &UriValue, cx: &mut CaseCtx) -> Result<(), String> {
    let Some(b) = build(c, cx) else {
        cx.class("id_rejected_by_parser");
        return Ok(());
    };
    let reserved = |s: &str| s.chars().any(|ch| "%/?#+&= \"<>`{}\\|^".contains(ch) || !ch.is_ascii());
    let with_event = matches!(c.kind, 2 | 4);
    cx.class_if(c.id.contains('%') || (with_event && c.event.contains('%')), "percent_in_id");
    cx.class_if(reserved(&c.id) || (with_event && reserved(&c.event)), "reserved_char_in_id");
    cx.class_if(!c.via.is_empty(), "with_via");
    cx.class_if(c.id.len() >= 200 || (with_event && c.event.len() >= 200), "id_of_200_to_255_bytes");
    cx.class_if(c.id.len() == 255 || (with_event && c.event.len() == 255), "id_of_exactly_255_bytes");
    cx.nontrivial_if(reserved(&c.id) || (with_event && reserved(&c.event)) || !c.via.is_empty());
    match b {
        Built::To(u) => {
            let text = u.to_string();
            let back = MatrixToUri::parse(&text).map_err(|e| format!("MatrixToUri {:?} formats to {text:?} which does not parse: {e}", id_strings(u.id())))?;
            if back != u {
                return Err(format!("MatrixToUri round trip changed the value: ids {:?} via {:?} -> text {text:?} -> ids {:?} via {:?}", id_strings(u.id()), u.via(), id_strings(back.id()), back.via()));
            }
            // independent decode of the path segments
            let rest = text.strip_prefix("https://matrix.to/#/").ok_or("wrong base url")?;
            let path = rest.split('?').next().unwrap_or("");
            let segs: Vec<Vec<u8>> = path.split('/').map(pct_decode).collect();
            let want: Vec<Vec<u8>> = id_strings(u.id()).into_iter().map(String::into_bytes).collect();
            if segs != want {
                return Err(format!("matrix.to text {text:?}: percent-decoding its path segments does not give back the identifiers {:?}", id_strings(u.id())));
            }
            if "https://matrix.to/#/".len() + path.len() != text.len() && !rest[path.len()..].starts_with("?via=") {
                return Err(format!("unexpected query in {text:?}"));
            }
        }
        Built::Uri(u) => {
            let text = u.to_string();
            let back = MatrixUri::parse(&text).map_err(|e| format!("MatrixUri {:?} formats to {text:?} which does not parse: {e}", id_strings(u.id())))?;
            if back != u {
                return Err(format!(
                    "MatrixUri round trip changed the value: ids {:?} via {:?} action {:?} -> text {text:?} -> ids {:?} via {:?} action {:?}",
                    id_strings(u.id()),
                    u.via(),
                    u.action().map(|a| a.as_str().to_owned()),
                    id_strings(back.id()),
                    back.via(),
                    back.action().map(|a| a.as_str().to_owned())
                ));
            }
            let rest = text.strip_prefix("matrix:").ok_or("wrong scheme")?;
            let path = rest.split('?').next().unwrap_or("");
            let segs: Vec<&str> = path.split('/').collect();
            let ids = id_strings(u.id());
            let decoded: Vec<Vec<u8>> = segs.iter().skip(1).step_by(2).map(|s| pct_decode(s)).collect();
            let want: Vec<Vec<u8>> = ids.iter().map(|s| s.as_bytes()[1..].to_vec()).collect();
            if decoded != want {
                return Err(format!("matrix: text {text:?}: percent-decoding its path segments does not give back the identifiers {ids:?}"));
            }
        }
    }
    Ok(())
}

#[derive(Serialize, Deserialize, Debug, Clone)]
pub struct TextCase {
    pub text: String,
}

fn reparse_check(text: &str, cx: &mut CaseCtx) -> Result<(), String> {
    let mut parsed_any = false;
    let degenerate = |id: &MatrixId| id_strings(id).iter().any(|s| s.len() <= 1 || s[1..].starts_with(':'));
    if let Ok(u) = MatrixToUri::parse(text) {
        parsed_any = true;
        if degenerate(u.id()) {
            cx.class("degenerate_empty_id_excluded");
            return Ok(());
        }
        let t2 = u.to_string();
        match MatrixToUri::parse(&t2) {
            Ok(u2) if u2 == u => {}
            Ok(u2) => return Err(format!("parsed matrix.to URI {text:?} re-formats to {t2:?} which parses to a different value: {:?} vs {:?}", id_strings(u.id()), id_strings(u2.id()))),
            Err(e) => return Err(format!("parsed matrix.to URI {text:?} re-formats to {t2:?} which does not parse: {e}")),
        }
        if text.parse::<MatrixToUri>().ok().as_ref() != Some(&u) || MatrixToUri::try_from(text).ok().as_ref() != Some(&u) {
            return Err("FromStr/TryFrom disagree with parse".into());
        }
    }
    if let Ok(u) = MatrixUri::parse(text) {
        parsed_any = true;
        if degenerate(u.id()) {
            cx.class("degenerate_empty_id_excluded");
            return Ok(());
        }
        let t2 = u.to_string();
        let custom = u.action().map(|a| !matches!(a.as_str(), "join" | "chat")).unwrap_or(false);
        cx.class_if(custom, "custom_action");
        match MatrixUri::parse(&t2) {
            Ok(u2) if u2 == u => {}
            Ok(u2) => {
                return Err(format!(
                    "parsed matrix: URI {text:?} re-formats to {t2:?} which parses to a different value: ids {:?}/{:?} action {:?}/{:?}",
                    id_strings(u.id()),
                    id_strings(u2.id()),
                    u.action().map(|a| a.as_str().to_owned()),
                    u2.action().map(|a| a.as_str().to_owned())
                ))
            }
            Err(e) => return Err(format!("parsed matrix: URI {text:?} (action {:?}) re-formats to {t2:?} which does not parse: {e}", u.action().map(|a| a.as_str().to_owned()))),
        }
        if text.parse::<MatrixUri>().ok().as_ref() != Some(&u) || MatrixUri::try_from(text).ok().as_ref() != Some(&u) {
            return Err("FromStr/TryFrom disagree with parse".into());
        }
    }
    cx.class(if parsed_any { "text_parsed" } else { "text_rejected" });
    Ok(())
}

pub fn text_oracle(c: &TextCase, cx: &mut CaseCtx) -> Result<(), String> {
    cx.nontrivial();
    reparse_check(&c.text, cx)
}

const TEXT_EDIT: &[&str] = &["/", "//", "?", "#", "%", "%2", "%41", "%2F", "&", "=", "+", " ", "via=", "action=", "?via=x.y", "&action=join", "&action=a%2Bb", "&action=a%26b%23c", "?action=a+b%25", "e/", "u/", "r/", "roomid/", "x/", "$", "!", "@", ":", "é"];

fn text_case() -> impl Strategy<Value = TextCase> {
    let formatted = uri_value().prop_map(|v| {
        let mut cx = CaseCtx::default();
        match build(&v, &mut cx) {
            Some(Built::To(u)) => u.to_string(),
            Some(Built::Uri(u)) => u.to_string(),
            None => format!("matrix:u/{}", v.id.trim_start_matches('@')),
        }
    });
    let edits = prop::collection::vec((any::<u16>(), any::<u16>(), 0u8..3), 0..4);
    prop_oneof![
        6 => (formatted, edits).prop_map(|(mut t, edits)| {
            for (pos, what, op) in edits {
                let idxs: Vec<usize> = t.char_indices().map(|x| x.0).chain([t.len()]).collect();
                let at = idxs[pick_idx(pos, idxs.len())];
                let w = TEXT_EDIT[pick_idx(what, TEXT_EDIT.len())];
                match op {
                    0 => t.insert_str(at, w),
                    1 => {
                        if at < t.len() {
                            let end = idxs[(pick_idx(pos, idxs.len()) + 1).min(idxs.len() - 1)];
                            t.replace_range(at..end, "");
                        }
                    }
                    _ => t.truncate(at),
                }
            }
            TextCase { text: t }
        }),
        2 => prop::collection::vec(any::<u16>().prop_map(|s| TEXT_EDIT[pick_idx(s, TEXT_EDIT.len())]), 0..8).prop_map(|parts| TextCase { text: format!("https://matrix.to/#/{}", parts.concat()) }),
        2 => prop::collection::vec(any::<u16>().prop_map(|s| TEXT_EDIT[pick_idx(s, TEXT_EDIT.len())]), 0..8).prop_map(|parts| TextCase { text: format!("matrix:{}", parts.concat()) }),
        1 => (user_ids(), "[a-zA-Z0-9%+&#= .é-]{0,8}").prop_map(|(u, a)| TextCase { text: format!("matrix:u/{}?action={a}", u.trim_start_matches('@')) }),
        1 => any::<String>().prop_map(|text| TextCase { text }),
    ]
}

pub fn run(ck: &mut Check) {
    ck.rule(
        "G1: URI values built through the public constructors (users, rooms, aliases, events; 0-3 via servers; join/chat flag) over grammar-derived identifiers and identifiers with reserved, percent and non-ASCII characters; \
         texts: formatted URIs with 0-3 edits (empty/extra path segments, stray / ? # %, truncated escapes, unknown types, duplicated/unknown query keys, encoded custom actions), token soups and arbitrary strings. \
         Oracle: parse(format(u)) == u, an independent percent-decoder applied to the formatted path gives back the identifier bytes, every text parses or errors without panic, and every parsed value re-formats to text that parses to the same value. \
         Non-trivial = identifier with a reserved/percent/non-ASCII character or >= 1 via server, or any text case.",
    );
    ck.assume("identifiers with an empty opaque part (`!`, `$`, `!:server`) are excluded by construction and counted: they exist only through a grammar gap C10 leaves unasserted");
    let n = ck.n(150_000, 5_000_000);
    ck.prop("uri_values", n, uri_value, value_oracle);
    ck.floor("uri_values", "percent_in_id", 2000);
    ck.floor("uri_values", "reserved_char_in_id", 10000);
    ck.floor("uri_values", "with_via", 10000);
    ck.floor("uri_values", "id_of_200_to_255_bytes", 3000);
    ck.floor("uri_values", "id_of_exactly_255_bytes", 300);
    let n = ck.n(300_000, 8_000_000);
    ck.prop("uri_texts", n, text_case, text_oracle);
    ck.floor("uri_texts", "text_parsed", 10000);
    ck.floor("uri_texts", "text_rejected", 10000);
    ck.floor("uri_texts", "custom_action", 1000);
}
