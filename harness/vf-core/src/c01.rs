//! C01 Canonical JSON is the spec's unique, order-independent, lossless encoding.

use proptest::prelude::*;
use ruma_common::{
    canonical_json::{to_canonical_value, try_from_json_map},
    CanonicalJsonObject, CanonicalJsonValue,
};
use serde::{Deserialize, Serialize};
use vf_engine::{CaseCtx, Check};
use vf_ref::cjson::{self, S, V};

/// ruma value -> reference value
pub fn to_ref(v: &CanonicalJsonValue) -> V {
    match v {
        CanonicalJsonValue::Null => V::Null,
        CanonicalJsonValue::Bool(b) => V::Bool(*b),
        CanonicalJsonValue::Integer(i) => V::Int(i64::from(*i)),
        CanonicalJsonValue::String(s) => V::Str(s.clone()),
        CanonicalJsonValue::Array(a) => V::Arr(a.iter().map(to_ref).collect()),
        CanonicalJsonValue::Object(m) => V::Obj(m.iter().map(|(k, v)| (k.clone(), to_ref(v))).collect()),
    }
}

/// reference value -> ruma value (built structurally, not through a parser)
pub fn from_ref(v: &V) -> CanonicalJsonValue {
    match v {
        V::Null => CanonicalJsonValue::Null,
        V::Bool(b) => CanonicalJsonValue::Bool(*b),
        V::Int(i) => CanonicalJsonValue::Integer(js_int::Int::try_from(*i).expect("in range")),
        V::Str(s) => CanonicalJsonValue::String(s.clone()),
        V::Arr(a) => CanonicalJsonValue::Array(a.iter().map(from_ref).collect()),
        V::Obj(m) => CanonicalJsonValue::Object(m.iter().map(|(k, v)| (k.clone(), from_ref(v))).collect()),
    }
}

#[allow(dead_code)]
pub fn obj_from_ref(v: &V) -> CanonicalJsonObject {
    match from_ref(v) {
        CanonicalJsonValue::Object(m) => m,
        _ => panic!("not an object"),
    }
}

#[derive(Serialize, Deserialize, Debug, Clone)]
pub struct SpellCase {
    pub s: S,
    pub salt: u8,
}

fn show(b: &[u8]) -> String {
    String::from_utf8_lossy(b).chars().take(300).collect()
}

fn encodings_equal(val: &CanonicalJsonValue, want: &[u8], what: &str) -> Result<(), String> {
    let a = val.to_string().into_bytes();
    let b = format!("{val}").into_bytes();
    let c = serde_json::to_vec(val).map_err(|e| format!("{what}: serde_json::to_vec failed: {e}"))?;
    let d = serde_json::to_string(val).map_err(|e| format!("{what}: to_string failed: {e}"))?.into_bytes();
    // formatting parameters (width, fill, alignment, precision, sign, alternate) must not reach the
    // canonical string: the canonical form depends on the value only
    let (w, p) = (want.len() + 7, want.len() / 2);
    let e = format!("{val:>w$}").into_bytes();
    let f = format!("{val:*^w$.p$}").into_bytes();
    let g = format!("{val:#}").into_bytes();
    let h = format!("{val:+010.3}").into_bytes();
    for (n, got) in [("to_string", &a), ("Display", &b), ("serde_json::to_vec", &c), ("serde_json::to_string", &d), ("Display with width", &e), ("Display with fill, width and precision", &f), ("alternate Display", &g), ("Display with sign, zero padding and precision", &h)] {
        if got != want {
            return Err(format!("{what}: {n} gives {:?}, the specification prescribes {:?}", show(got), show(want)));
        }
    }
    Ok(())
}

pub fn spelling_oracle(c: &SpellCase, cx: &mut CaseCtx) -> Result<(), String> {
    let text = c.s.text();
    let v = c.s.value().ok_or("harness: spelled value not representable")?;
    let want = cjson::canon(&v);
    // (a) parse the text with every entry path
    let parsed: CanonicalJsonValue = serde_json::from_str(&text).map_err(|e| format!("valid representable JSON text rejected: {e}; text {text:?}"))?;
    if to_ref(&parsed) != v {
        return Err(format!("parsed value differs from the denoted value for text {text:?}: got {:?}", to_ref(&parsed)));
    }
    encodings_equal(&parsed, &want, "parsed text")?;
    let via_slice: CanonicalJsonValue = serde_json::from_slice(text.as_bytes()).map_err(|e| format!("from_slice rejected: {e}"))?;
    let sj: serde_json::Value = serde_json::from_str(&text).map_err(|e| format!("serde_json rejected generated text: {e}"))?;
    let via_value = CanonicalJsonValue::try_from(sj.clone()).map_err(|e| format!("TryFrom<JsonValue> rejected representable value: {e}"))?;
    let via_tcv = to_canonical_value(&sj).map_err(|e| format!("to_canonical_value rejected representable value: {e}"))?;
    let via_from_value: CanonicalJsonValue = serde_json::from_value(sj.clone()).map_err(|e| format!("from_value rejected: {e}"))?;
    for (n, x) in [("from_slice", &via_slice), ("TryFrom<JsonValue>", &via_value), ("to_canonical_value", &via_tcv), ("from_value", &via_from_value)] {
        if *x != parsed {
            return Err(format!("{n} disagrees with from_str on text {text:?}"));
        }
        encodings_equal(x, &want, n)?;
    }
    // structurally built value encodes the same
    encodings_equal(&from_ref(&v), &want, "structurally built value")?;
    // (b) another spelling of the same value gives identical bytes (metamorphic; independent of
    // the reference encoder)
    let s2 = c.s.respell(c.salt);
    let text2 = s2.text();
    if s2.value().as_ref() != Some(&v) {
        return Err("harness: respell changed the value".into());
    }
    let parsed2: CanonicalJsonValue = serde_json::from_str(&text2).map_err(|e| format!("respelled text rejected: {e}; text {text2:?}"))?;
    if parsed2.to_string() != parsed.to_string() || parsed2 != parsed {
        return Err(format!("two spellings of one value encode differently: {text:?} -> {:?} but {text2:?} -> {:?}", parsed.to_string(), parsed2.to_string()));
    }
    // (c) parsing the canonical bytes back gives an equal value that re-encodes identically
    let back: CanonicalJsonValue = serde_json::from_slice(&want).map_err(|e| format!("canonical bytes do not parse back: {e}"))?;
    if back != parsed {
        return Err(format!("canonical bytes parse to a different value: {:?}", show(&want)));
    }
    encodings_equal(&back, &want, "re-parsed canonical bytes")?;
    // objects: the signing helper and the map conversion
    if let (V::Obj(m), serde_json::Value::Object(sm)) = (&v, &sj) {
        let obj = try_from_json_map(sm.clone()).map_err(|e| format!("try_from_json_map rejected: {e}"))?;
        if CanonicalJsonValue::Object(obj.clone()) != parsed {
            return Err("try_from_json_map disagrees with from_str".into());
        }
        let got = ruma_signatures::canonical_json(&obj).map_err(|e| format!("ruma_signatures::canonical_json failed: {e}"))?;
        let want_sig = cjson::canon_without(m, &["signatures", "unsigned"]);
        if got.as_bytes() != want_sig {
            return Err(format!("ruma_signatures::canonical_json gives {:?}, expected {:?}", show(got.as_bytes()), show(&want_sig)));
        }
        // only the TOP-LEVEL `signatures` / `unsigned` members are left out: the same names deeper
        // in the value (objects, objects inside arrays) are ordinary members
        let mut wrapped = m.clone();
        wrapped.insert("signatures".into(), V::Obj([("s".to_owned(), V::Int(1))].into_iter().collect()));
        wrapped.insert("unsigned".into(), v.clone());
        let inner: std::collections::BTreeMap<String, V> = [
            ("signatures".to_owned(), v.clone()),
            ("unsigned".to_owned(), V::Int(2)),
            ("hashes".to_owned(), V::Null),
            ("list".to_owned(), V::Arr(vec![V::Obj([("unsigned".to_owned(), V::Int(3)), ("signatures".to_owned(), V::Str("x".into()))].into_iter().collect())])),
        ]
        .into_iter()
        .collect();
        wrapped.insert("nested".into(), V::Obj(inner));
        let wobj = match from_ref(&V::Obj(wrapped.clone())) {
            CanonicalJsonValue::Object(o) => o,
            _ => unreachable!(),
        };
        let got = ruma_signatures::canonical_json(&wobj).map_err(|e| format!("ruma_signatures::canonical_json failed: {e}"))?;
        let want_sig = cjson::canon_without(&wrapped, &["signatures", "unsigned"]);
        if got.as_bytes() != want_sig {
            return Err(format!("ruma_signatures::canonical_json with nested members named signatures / unsigned / hashes gives {:?}, expected {:?}", show(got.as_bytes()), show(&want_sig)));
        }
    }
    // classification
    let unsorted = c.s.has_unsorted_object();
    let esc = c.s.any_char(&|ch, _| (ch as u32) < 0x20 || ch == '"' || ch == '\\');
    let boundary = c.s.any_num(&|t| t.trim_start_matches('-').len() >= 16);
    cx.class_if(unsorted, "unsorted_object");
    cx.class_if(c.s.any_key_char(&|ch| ch as u32 >= 0x10000), "astral_key");
    cx.class_if(c.s.any_key_char(&|ch| (0xe000..=0xffff).contains(&(ch as u32))), "bmp_private_or_high_key");
    cx.class_if(c.s.any_char(&|ch, _| (ch as u32) < 0x20), "control_char");
    cx.class_if(c.s.any_char(&|ch, st| st % 4 != 0 && (ch as u32) >= 0x20 && ch != '"' && ch != '\\'), "unneeded_escape_spelling");
    cx.class_if(c.s.any_char(&|ch, st| (ch as u32) >= 0x10000 && matches!(st % 4, 1 | 2)), "surrogate_pair_spelling");
    cx.class_if(c.s.has_dup_keys(), "dup_key");
    cx.class_if(boundary, "int_boundary");
    cx.class_if(v.depth() >= 3, "depth_ge_3");
    cx.nontrivial_if(unsorted || esc || boundary);
    cx.more_evals(1);
    Ok(())
}

#[derive(Serialize, Deserialize, Debug, Clone)]
pub struct RejectCase {
    pub s: S,
    pub at: usize,
    pub num: String,
}

pub fn reject_oracle(c: &RejectCase, cx: &mut CaseCtx) -> Result<(), String> {
    let mut s = c.s.clone();
    if !cjson::poison_number(&mut s, c.at, &c.num) {
        s = S::Arr(vec![s, S::Num(c.num.clone())], 0);
    }
    if s.value().map(|v| v.representable()).unwrap_or(false) {
        return Err(format!("harness: poisoned document still representable ({})", c.num));
    }
    let text = s.text();
    cx.class("reject_case");
    cx.nontrivial();
    if let Ok(v) = serde_json::from_str::<CanonicalJsonValue>(&text) {
        return Err(format!("text with unrepresentable number {:?} was accepted and became {:?} (text {text:?})", c.num, v.to_string()));
    }
    if serde_json::from_slice::<CanonicalJsonValue>(text.as_bytes()).is_ok() {
        return Err(format!("from_slice accepted unrepresentable number {:?}", c.num));
    }
    // Through serde_json::Value (if serde_json itself can hold the number)
    if let Ok(sj) = serde_json::from_str::<serde_json::Value>(&text) {
        if let Ok(v) = CanonicalJsonValue::try_from(sj.clone()) {
            return Err(format!("TryFrom<JsonValue> accepted unrepresentable number {:?} -> {:?}", c.num, v.to_string()));
        }
        if let Ok(v) = to_canonical_value(&sj) {
            return Err(format!("to_canonical_value accepted unrepresentable number {:?} -> {:?}", c.num, v.to_string()));
        }
        if let serde_json::Value::Object(m) = sj {
            if try_from_json_map(m).is_ok() {
                return Err(format!("try_from_json_map accepted unrepresentable number {:?}", c.num));
            }
        }
    }
    Ok(())
}

/// `to_canonical_value` fed with `Serialize` values carrying native numbers.
#[derive(Serialize, Deserialize, Debug, Clone)]
pub struct NativeCase {
    pub i: i64,
    pub u: u64,
    pub f: f64,
    pub which: u8,
    pub name: String,
}

#[derive(Serialize)]
struct NativeI<'a> {
    name: &'a str,
    nested: Vec<i64>,
}
#[derive(Serialize)]
struct NativeU<'a> {
    name: &'a str,
    value: u64,
}
#[derive(Serialize)]
struct NativeF<'a> {
    name: &'a str,
    inner: std::collections::BTreeMap<&'a str, f64>,
}

pub fn native_oracle(c: &NativeCase, cx: &mut CaseCtx) -> Result<(), String> {
    let in_range_i = (cjson::MIN_INT..=cjson::MAX_INT).contains(&c.i);
    match c.which % 3 {
        0 => {
            let r = to_canonical_value(NativeI { name: &c.name, nested: vec![1, c.i] });
            cx.class_if(!in_range_i, "reject_case");
            cx.nontrivial_if(c.i.unsigned_abs() >= (1 << 52));
            match (r, in_range_i) {
                (Ok(v), true) => {
                    let want = V::Obj([("name".to_owned(), V::Str(c.name.clone())), ("nested".to_owned(), V::Arr(vec![V::Int(1), V::Int(c.i)]))].into_iter().collect());
                    if v.to_string().as_bytes() != cjson::canon(&want) {
                        return Err(format!("to_canonical_value(i64 {}) encodes as {}", c.i, v));
                    }
                }
                (Err(_), false) => {}
                (Ok(v), false) => return Err(format!("to_canonical_value accepted out-of-range i64 {} -> {}", c.i, v)),
                (Err(e), true) => return Err(format!("to_canonical_value rejected in-range i64 {}: {e}", c.i)),
            }
        }
        1 => {
            let ok = c.u <= cjson::MAX_INT as u64;
            let r = to_canonical_value(NativeU { name: &c.name, value: c.u });
            cx.class_if(!ok, "reject_case");
            cx.nontrivial_if(c.u >= (1 << 52));
            match (r, ok) {
                (Ok(v), true) => {
                    let want = V::Obj([("name".to_owned(), V::Str(c.name.clone())), ("value".to_owned(), V::Int(c.u as i64))].into_iter().collect());
                    if v.to_string().as_bytes() != cjson::canon(&want) {
                        return Err(format!("to_canonical_value(u64 {}) encodes as {}", c.u, v));
                    }
                }
                (Err(_), false) => {}
                (Ok(v), false) => return Err(format!("to_canonical_value accepted out-of-range u64 {} -> {}", c.u, v)),
                (Err(e), true) => return Err(format!("to_canonical_value rejected in-range u64 {}: {e}", c.u)),
            }
        }
        _ => {
            // every f64 is unrepresentable (even integral ones: canonical JSON has no floats)
            let r = to_canonical_value(NativeF { name: &c.name, inner: [("x", c.f)].into_iter().collect() });
            if !c.f.is_finite() {
                // NaN and the infinities are not JSON values at all (serde_json itself maps them to
                // null before ruma sees them); the property quantifies over JSON values: unasserted
                cx.class("non_finite_float_unasserted");
                return Ok(());
            }
            cx.class("reject_case");
            cx.nontrivial();
            if let Ok(v) = r {
                return Err(format!("to_canonical_value accepted f64 {:?} -> {}", c.f, v));
            }
        }
    }
    Ok(())
}

pub fn run(ck: &mut Check) {
    ck.rule(
        "G1: recursive generator of a JSON value together with one spelling of it as text (random key order, whitespace, per-character escape style incl. surrogate pairs, duplicate keys, \
         boundary integers, weighted alphabet over C0 controls / quotes / BMP / astral); a second spelling of the same value; documents poisoned with one unrepresentable number; \
         native Serialize values. Non-trivial = some object's keys are out of code-point order, or a string needs an escape, or an integer has >= 16 digits, or a rejection case; distinct by document.",
    );
    ck.assume("a JSON text with duplicate keys denotes the value in which the last occurrence wins");
    ck.assume("non-finite f64 values handed to to_canonical_value are outside the property (not JSON values); counted, not asserted");
    let n = ck.n(400_000, 6_000_000);
    ck.prop("spellings", n, || (cjson::spelled(5, 6, true), any::<u8>()).prop_map(|(s, salt)| SpellCase { s, salt }), spelling_oracle);
    for (class, min) in [("unsorted_object", 2000), ("astral_key", 300), ("control_char", 2000), ("dup_key", 1000), ("int_boundary", 1000), ("surrogate_pair_spelling", 300), ("depth_ge_3", 500)] {
        ck.floor("spellings", class, min);
    }
    let n = ck.n(100_000, 2_000_000);
    ck.prop("unrepresentable_text", n, || (cjson::spelled(4, 4, false), any::<usize>(), cjson::unrepresentable_num()).prop_map(|(s, at, num)| RejectCase { s, at, num }), reject_oracle);
    let n = ck.n(100_000, 2_000_000);
    ck.prop(
        "native_serialize",
        n,
        || {
            let i = prop_oneof![any::<i64>(), cjson::int_in_range(), Just(cjson::MAX_INT + 1), Just(cjson::MIN_INT - 1), Just(i64::MIN), Just(i64::MAX)];
            let u = prop_oneof![any::<u64>(), 0u64..1000, Just(u64::MAX), Just(cjson::MAX_INT as u64), Just(cjson::MAX_INT as u64 + 1)];
            let f = prop_oneof![any::<f64>(), Just(1.0f64), Just(0.0), Just(-0.0), Just(1.5), Just(f64::NAN), Just(f64::INFINITY), Just(9007199254740992.0)];
            (i, u, f, any::<u8>(), "[a-z\"\\\\\u{1F600}]{0,4}").prop_map(|(i, u, f, which, name)| NativeCase { i, u, f, which, name })
        },
        native_oracle,
    );
    ck.floor("native_serialize", "reject_case", 1000);
}
