//! C13 Push ruleset edits follow placement semantics, never panic, and fail atomically.

use proptest::prelude::*;
use ruma_common::{
    push::{
        insert_and_move_rule, Action, NewConditionalPushRule, NewPatternedPushRule, NewPushRule, NewSimplePushRule, PushCondition, RuleKind, Ruleset, Tweak,
    },
    user_id, OwnedRoomId, OwnedUserId,
};
use serde::{Deserialize, Serialize};
use vf_engine::{pick_idx, CaseCtx, Check};

const KINDS: [&str; 5] = ["override", "content", "room", "sender", "underride"];

#[derive(Serialize, Deserialize, Debug, Clone, PartialEq)]
pub enum Op {
    /// insert(kind, id, after, before) with content tag
    Insert { kind: u8, id: String, after: Option<String>, before: Option<String>, tag: u8 },
    Remove { kind: u8, id: String },
    SetEnabled { kind: u8, id: String, enabled: bool },
    SetActions { kind: u8, id: String, tag: u8 },
}

#[derive(Serialize, Deserialize, Debug, Clone)]
pub struct Seq {
    pub start_default: bool,
    pub ops: Vec<Op>,
}

/// Model rule: (id, enabled, default, content tag rendering).
#[derive(Debug, Clone, PartialEq, Eq)]
struct MRule {
    id: String,
    enabled: bool,
    default: bool,
    content: String,
}

type Model = [Vec<MRule>; 5];

fn actions_for(tag: u8) -> Vec<Action> {
    match tag % 3 {
        0 => vec![],
        1 => vec![Action::Notify],
        _ => vec![Action::Notify, Action::SetTweak(Tweak::Highlight(true))],
    }
}

/// Full id used for a pool id in the given kind (room / sender kinds need real identifiers).
fn full_id(kind: u8, id: &str) -> String {
    let plain = !id.is_empty() && id.bytes().all(|b| b.is_ascii_alphanumeric());
    match kind {
        2 if plain => format!("!{id}:x.y"),
        3 if plain => format!("@{id}:x.y"),
        _ => id.to_owned(),
    }
}

fn content_of(actions: &[Action], pattern: Option<&str>, conds: Option<&[PushCondition]>) -> String {
    // cheap fingerprint: enough to tell the tag-derived contents used by the operations apart
    let mut out = String::with_capacity(24);
    for a in actions {
        out.push(match a {
            Action::Notify => 'n',
            Action::SetTweak(Tweak::Highlight(true)) => 'H',
            Action::SetTweak(Tweak::Highlight(false)) => 'h',
            Action::SetTweak(Tweak::Sound(_)) => 's',
            _ => '?',
        });
    }
    out.push('|');
    out.push_str(pattern.unwrap_or("-"));
    out.push('|');
    if let Some(c) = conds {
        out.push_str(&c.len().to_string());
        if let Some(PushCondition::EventMatch { pattern, .. }) = c.first() {
            out.push_str(pattern);
        }
    }
    out
}

fn snapshot(rs: &Ruleset) -> Model {
    [
        rs.override_.iter().map(|r| MRule { id: r.rule_id.clone(), enabled: r.enabled, default: r.default, content: content_of(&r.actions, None, Some(&r.conditions)) }).collect(),
        rs.content.iter().map(|r| MRule { id: r.rule_id.clone(), enabled: r.enabled, default: r.default, content: content_of(&r.actions, Some(&r.pattern), None) }).collect(),
        rs.room.iter().map(|r| MRule { id: r.rule_id.to_string(), enabled: r.enabled, default: r.default, content: content_of(&r.actions, None, None) }).collect(),
        rs.sender.iter().map(|r| MRule { id: r.rule_id.to_string(), enabled: r.enabled, default: r.default, content: content_of(&r.actions, None, None) }).collect(),
        rs.underride.iter().map(|r| MRule { id: r.rule_id.clone(), enabled: r.enabled, default: r.default, content: content_of(&r.actions, None, Some(&r.conditions)) }).collect(),
    ]
}

fn rule_kind(k: u8) -> RuleKind {
    match k {
        0 => RuleKind::Override,
        1 => RuleKind::Content,
        2 => RuleKind::Room,
        3 => RuleKind::Sender,
        _ => RuleKind::Underride,
    }
}

fn new_rule(kind: u8, id: &str, tag: u8) -> Option<(NewPushRule, String)> {
    let actions = actions_for(tag);
    let fid = full_id(kind, id);
    Some(match kind {
        0 | 4 => {
            let conds: Vec<PushCondition> = if tag % 2 == 0 { vec![] } else { vec![PushCondition::EventMatch { key: "type".into(), pattern: format!("t{tag}") }] };
            let content = content_of(&actions, None, Some(&conds));
            let r = NewConditionalPushRule::new(fid, conds, actions);
            (if kind == 0 { NewPushRule::Override(r) } else { NewPushRule::Underride(r) }, content)
        }
        1 => {
            let pattern = format!("p{tag}");
            let content = content_of(&actions, Some(&pattern), None);
            (NewPushRule::Content(NewPatternedPushRule::new(fid, pattern, actions)), content)
        }
        2 => {
            let rid = OwnedRoomId::try_from(fid.as_str()).ok()?;
            let content = content_of(&actions, None, None);
            (NewPushRule::Room(NewSimplePushRule::new(rid, actions)), content)
        }
        _ => {
            let uid = OwnedUserId::try_from(fid.as_str()).ok()?;
            let content = content_of(&actions, None, None);
            (NewPushRule::Sender(NewSimplePushRule::new(uid, actions)), content)
        }
    })
}

/// Model of `insert`: Err(()) or the list of acceptable resulting orders (usually one).
fn model_insert(list: &[MRule], kind: u8, fid: &str, after: Option<&str>, before: Option<&str>, content: &str, tags: &mut Vec<&'static str>) -> Result<Vec<Vec<MRule>>, ()> {
    if fid.starts_with('.') || fid.contains('/') || fid.contains('\\') {
        tags.push("err_reserved_id");
        return Err(());
    }
    if after.is_some_and(|a| a.starts_with('.')) || before.is_some_and(|b| b.starts_with('.')) {
        tags.push("err_default_anchor");
        return Err(());
    }
    let pos = |id: &str| list.iter().position(|r| r.id == id);
    let existing = pos(fid);
    let a = match after {
        Some(x) => Some(pos(x).ok_or_else(|| tags.push("err_unknown_anchor"))?),
        None => None,
    };
    let b = match before {
        Some(y) => Some(pos(y).ok_or_else(|| tags.push("err_unknown_anchor"))?),
        None => None,
    };
    if let (Some(a), Some(b)) = (a, b) {
        if b <= a {
            tags.push("err_before_not_after_after");
            return Err(());
        }
    }
    let rule = MRule { id: fid.to_owned(), enabled: existing.map(|i| list[i].enabled).unwrap_or(true), default: false, content: content.to_owned() };
    let mut rest: Vec<MRule> = list.iter().filter(|r| r.id != fid).cloned().collect();
    let self_anchor = after == Some(fid) || before == Some(fid);
    if self_anchor {
        // anchor equal to the rule's own id: order unasserted; any position is accepted
        tags.push("self_anchor_unasserted");
        let mut outs = vec![];
        for i in 0..=rest.len() {
            let mut o = rest.clone();
            o.insert(i, rule.clone());
            outs.push(o);
        }
        return Ok(outs);
    }
    let rpos = |id: &str| rest.iter().position(|r| r.id == id).expect("anchor present");
    if let Some(y) = before {
        if let Some(e) = existing {
            tags.push(if e < b.unwrap() { "reinsert_from_lt_anchor" } else { "reinsert_from_gt_anchor" });
        }
        let i = rpos(y);
        rest.insert(i, rule);
        return Ok(vec![rest]);
    }
    if let Some(x) = after {
        if let Some(e) = existing {
            tags.push(if e < a.unwrap() { "reinsert_from_lt_anchor" } else { "reinsert_from_gt_anchor" });
        }
        let i = rpos(x) + 1;
        rest.insert(i, rule);
        return Ok(vec![rest]);
    }
    if let Some(e) = existing {
        tags.push("replace_in_place");
        rest.insert(e, rule);
        return Ok(vec![rest]);
    }
    // new unpositioned rule: most important of its kind; second after the master rule for
    // overrides
    if kind == 0 {
        if rest.is_empty() {
            tags.push("first_override_in_empty_set");
            return Ok(vec![vec![rule]]);
        }
        if rest[0].id == ".m.rule.master" {
            rest.insert(1, rule);
            return Ok(vec![rest]);
        }
        tags.push("override_without_master_first_unasserted");
        let mut o0 = rest.clone();
        o0.insert(0, rule.clone());
        rest.insert(1, rule);
        return Ok(vec![o0, rest]);
    }
    rest.insert(0, rule);
    Ok(vec![rest])
}

pub fn oracle(seq: &Seq, cx: &mut CaseCtx) -> Result<(), String> {
    let user = user_id!("@me:x.y");
    let mut rs = if seq.start_default { Ruleset::server_default(user) } else { Ruleset::new() };
    let initial = snapshot(&rs);
    let initial_defaults: Vec<(usize, String)> = initial.iter().enumerate().flat_map(|(k, l)| l.iter().filter(|r| r.default).map(move |r| (k, r.id.clone()))).collect();
    let mut model = initial.clone();
    let mut tags: Vec<&'static str> = vec![];
    for (step, op) in seq.ops.iter().enumerate() {
        let pre = snapshot(&rs);
        if pre != model {
            return Err(format!("harness: model diverged before step {step}"));
        }
        let (k, ok, expected): (usize, bool, Result<Vec<Vec<MRule>>, ()>) = match op {
            Op::Insert { kind, id, after, before, tag } => {
                let k = *kind as usize;
                let Some((rule, content)) = new_rule(*kind, id, *tag) else {
                    // id not expressible for this kind (room/sender need real identifiers)
                    cx.class("skipped_inexpressible_id");
                    continue;
                };
                let fid = full_id(*kind, id);
                let (fa, fb) = (after.as_deref().map(|a| full_id(*kind, a)), before.as_deref().map(|b| full_id(*kind, b)));
                let expected = model_insert(&model[k], *kind, &fid, fa.as_deref(), fb.as_deref(), &content, &mut tags);
                let r = rs.insert(rule, fa.as_deref(), fb.as_deref());
                (k, r.is_ok(), expected)
            }
            Op::Remove { kind, id } => {
                let k = *kind as usize;
                let fid = full_id(*kind, id);
                let expected = match model[k].iter().position(|r| r.id == fid) {
                    None => {
                        tags.push("err_remove_missing");
                        Err(())
                    }
                    Some(i) if model[k][i].default => {
                        tags.push("err_remove_default");
                        Err(())
                    }
                    Some(i) => {
                        let mut l = model[k].clone();
                        l.remove(i);
                        Ok(vec![l])
                    }
                };
                let r = rs.remove(rule_kind(*kind), &fid);
                (k, r.is_ok(), expected)
            }
            Op::SetEnabled { kind, id, enabled } => {
                let k = *kind as usize;
                let fid = full_id(*kind, id);
                let expected = match model[k].iter().position(|r| r.id == fid) {
                    None => {
                        tags.push("err_set_missing");
                        Err(())
                    }
                    Some(i) => {
                        let mut l = model[k].clone();
                        l[i].enabled = *enabled;
                        Ok(vec![l])
                    }
                };
                let r = rs.set_enabled(rule_kind(*kind), &fid, *enabled);
                (k, r.is_ok(), expected)
            }
            Op::SetActions { kind, id, tag } => {
                let k = *kind as usize;
                let fid = full_id(*kind, id);
                let acts = actions_for(*tag);
                let expected = match model[k].iter().position(|r| r.id == fid) {
                    None => {
                        tags.push("err_set_missing");
                        Err(())
                    }
                    Some(i) => {
                        let mut l = model[k].clone();
                        // content = actions|pattern|conditions: replace the actions part
                        let old = l[i].content.clone();
                        let rest = old.splitn(2, '|').nth(1).unwrap_or("").to_owned();
                        let head = content_of(&acts, None, None);
                        l[i].content = format!("{}|{}", head.split('|').next().unwrap_or(""), rest);
                        Ok(vec![l])
                    }
                };
                let r = rs.set_actions(rule_kind(*kind), &fid, acts);
                (k, r.is_ok(), expected)
            }
        };
        let post = snapshot(&rs);
        match (&expected, ok) {
            (Err(()), true) => return Err(format!("step {step} {op:?}: must be refused by the documented semantics but returned Ok")),
            (Ok(_), false) => return Err(format!("step {step} {op:?}: returned Err but the documented semantics accept it")),
            (Err(()), false) => {
                if post != pre {
                    return Err(format!("step {step} {op:?}: returned Err but changed the ruleset (not atomic): kind {} before {:?} after {:?}", KINDS[k], ids(&pre[k]), ids(&post[k])));
                }
                tags.push("error_paths");
            }
            (Ok(alts), true) => {
                for (j, l) in post.iter().enumerate() {
                    if j != k && *l != pre[j] {
                        return Err(format!("step {step} {op:?}: changed rules of another kind ({})", KINDS[j]));
                    }
                }
                match alts.iter().find(|a| **a == post[k]) {
                    Some(a) => model[k] = a.clone(),
                    None => {
                        return Err(format!(
                            "step {step} {op:?}: kind {} is {:?}, documented placement gives {:?} (from {:?})",
                            KINDS[k],
                            render(&post[k]),
                            alts.iter().map(|a| render(a)).collect::<Vec<_>>(),
                            render(&pre[k])
                        ))
                    }
                }
            }
        }
        // invariants after every step
        for (j, l) in post.iter().enumerate() {
            let mut seen = std::collections::BTreeSet::new();
            for r in l {
                if !seen.insert(&r.id) {
                    return Err(format!("step {step}: duplicate rule id {:?} in kind {}", r.id, KINDS[j]));
                }
            }
        }
        let defaults_now: Vec<(usize, String)> = post.iter().enumerate().flat_map(|(k, l)| l.iter().filter(|r| r.default || r.id.starts_with('.')).map(move |r| (k, r.id.clone()))).collect();
        let mut a = initial_defaults.clone();
        let mut b = defaults_now;
        a.sort();
        b.sort();
        if a != b {
            return Err(format!("step {step} {op:?}: set of server-default rules changed"));
        }
        // get() and iter() agree with the per-kind lists
        let flat: Vec<(String, bool)> = post.iter().flat_map(|l| l.iter().map(|r| (r.id.clone(), r.enabled))).collect();
        let it: Vec<(String, bool)> = rs.iter().map(|r| (r.rule_id().to_owned(), r.enabled())).collect();
        if flat != it {
            return Err(format!("step {step}: iter() order {it:?} differs from per-kind lists {flat:?}"));
        }
        for (j, l) in post.iter().enumerate() {
            for r in l {
                match rs.get(rule_kind(j as u8), &r.id) {
                    Some(g) if g.rule_id() == r.id && g.enabled() == r.enabled => {}
                    _ => return Err(format!("step {step}: get({}, {:?}) disagrees with the list", KINDS[j], r.id)),
                }
            }
            if rs.get(rule_kind(j as u8), "does-not-exist").is_some() {
                return Err("get() returns a rule for an unknown id".into());
            }
        }
    }
    let nt = tags.iter().any(|t| t.starts_with("reinsert_") || *t == "error_paths");
    for t in tags {
        cx.class(t);
    }
    cx.nontrivial_if(nt);
    Ok(())
}

fn ids(l: &[MRule]) -> Vec<&str> {
    l.iter().map(|r| r.id.as_str()).collect()
}
fn render(l: &[MRule]) -> Vec<String> {
    l.iter().map(|r| format!("{}{}", r.id, if r.enabled { "" } else { "(off)" })).collect()
}

// ---------------------------------------------------------------------------------------------
// Enumeration

fn alphabet(kinds: &[u8], ids: &[&str], anchors: &[Option<&str>], with_misc: bool) -> Vec<Op> {
    let mut ops = vec![];
    for &k in kinds {
        for id in ids {
            for a in anchors {
                for b in anchors {
                    ops.push(Op::Insert { kind: k, id: (*id).into(), after: a.map(Into::into), before: b.map(Into::into), tag: 1 });
                }
            }
            ops.push(Op::Remove { kind: k, id: (*id).into() });
            ops.push(Op::SetEnabled { kind: k, id: (*id).into(), enabled: false });
            if with_misc {
                ops.push(Op::SetEnabled { kind: k, id: (*id).into(), enabled: true });
                ops.push(Op::SetActions { kind: k, id: (*id).into(), tag: 2 });
                ops.push(Op::Insert { kind: k, id: (*id).into(), after: None, before: None, tag: 2 });
            }
        }
        if with_misc && (k == 0 || k == 1 || k == 4) {
            for rid in [".x", "a/b", "a\\b"] {
                ops.push(Op::Insert { kind: k, id: rid.into(), after: None, before: None, tag: 1 });
                ops.push(Op::Insert { kind: k, id: rid.into(), after: Some("a".into()), before: None, tag: 1 });
            }
            let dflt = if k == 0 { ".m.rule.master" } else if k == 1 { ".m.rule.contains_user_name" } else { ".m.rule.call" };
            ops.push(Op::Remove { kind: k, id: dflt.into() });
            ops.push(Op::SetEnabled { kind: k, id: dflt.into(), enabled: false });
            ops.push(Op::SetActions { kind: k, id: dflt.into(), tag: 1 });
        }
    }
    ops
}

fn seq_space(alpha: std::sync::Arc<Vec<Op>>, prefixes: std::sync::Arc<Vec<Vec<Op>>>, max_len: u32, shard: u64, nshards: u64) -> impl Iterator<Item = Seq> {
    let n = alpha.len() as u64;
    let mut total = 0u64;
    let mut offsets = vec![];
    for l in 0..=max_len {
        offsets.push(total);
        total += n.pow(l);
    }
    let np = prefixes.len() as u64;
    (0..total * 2 * np).skip(shard as usize).step_by(nshards as usize).map(move |i| {
        let start_default = i % 2 == 1;
        let prefix = &prefixes[((i / 2) % np) as usize];
        let mut j = i / (2 * np);
        let len = (0..=max_len).rev().find(|l| j >= offsets[*l as usize]).unwrap_or(0);
        j -= offsets[len as usize];
        let mut ops = Vec::with_capacity(prefix.len() + len as usize);
        ops.extend(prefix.iter().cloned());
        for _ in 0..len {
            ops.push(alpha[(j % n) as usize].clone());
            j /= n;
        }
        Seq { start_default, ops }
    })
}

/// Prefixes that populate one kind with every arrangement of every subset of `ids` (through
/// unpositioned inserts), so that the enumerated operations meet existing rules in every relative
/// position to their anchors.
fn prefixes(kind: u8, ids: &[&str]) -> Vec<Vec<Op>> {
    let mut out: Vec<Vec<Op>> = vec![vec![]];
    fn rec(kind: u8, ids: &[&str], cur: &mut Vec<Op>, out: &mut Vec<Vec<Op>>) {
        for id in ids {
            if !cur.iter().any(|o| matches!(o, Op::Insert { id: i, .. } if i == id)) {
                cur.push(Op::Insert { kind, id: (*id).into(), after: None, before: None, tag: 0 });
                out.push(cur.clone());
                rec(kind, ids, cur, out);
                cur.pop();
            }
        }
    }
    rec(kind, ids, &mut vec![], &mut out);
    out
}

fn op_strategy() -> impl Strategy<Value = Op> {
    let ids = ["a", "b", "c", "d", "e", "f", "a", "b", "c", "a", "b"];
    let id = any::<u16>().prop_map(move |s| ids[pick_idx(s, ids.len())].to_owned());
    let anchor_pool = ["a", "b", "c", "d", "e", "f", "a", "b", "c", "a", "b", "c", ".m.rule.master", "zz", ".m.rule.call", ""];
    let anchor = prop::option::weighted(0.3, any::<u16>().prop_map(move |s| anchor_pool[pick_idx(s, anchor_pool.len())].to_owned()));
    let kind = prop_oneof![4 => Just(0u8), 2 => Just(1u8), 1 => Just(2u8), 1 => Just(3u8), 1 => Just(4u8)];
    prop_oneof![
        6 => (kind.clone(), id.clone(), anchor.clone(), anchor, any::<u8>()).prop_map(|(kind, id, after, before, tag)| Op::Insert { kind, id, after, before, tag }),
        1 => (prop_oneof![Just(0u8), Just(1u8), Just(4u8)], prop_oneof![Just(".x"), Just("a/b"), Just("a\\b"), Just(".m.rule.master")], any::<u8>()).prop_map(|(kind, id, tag)| Op::Insert { kind, id: id.into(), after: None, before: None, tag }),
        2 => (kind.clone(), id.clone()).prop_map(|(kind, id)| Op::Remove { kind, id }),
        1 => (kind.clone(), prop_oneof![Just(".m.rule.master"), Just(".m.rule.call"), Just(".m.rule.contains_user_name")]).prop_map(|(kind, id)| Op::Remove { kind, id: id.into() }),
        2 => (kind.clone(), id.clone(), any::<bool>()).prop_map(|(kind, id, enabled)| Op::SetEnabled { kind, id, enabled }),
        1 => (kind, id, any::<u8>()).prop_map(|(kind, id, tag)| Op::SetActions { kind, id, tag }),
    ]
}

// ---------------------------------------------------------------------------------------------
// insert_and_move_rule called directly on a bare IndexSet

#[derive(Serialize, Deserialize, Debug, Clone)]
pub struct BareCase {
    pub initial: Vec<String>,
    pub rule: String,
    pub default_position: usize,
    pub after: Option<String>,
    pub before: Option<String>,
}

#[derive(Hash, PartialEq, Eq, Clone, Debug)]
struct BareRule(String);
impl indexmap::Equivalent<BareRule> for str {
    fn equivalent(&self, key: &BareRule) -> bool {
        self == key.0
    }
}

fn bare_oracle(c: &BareCase, cx: &mut CaseCtx) -> Result<(), String> {
    let mut set: indexmap::IndexSet<BareRule> = c.initial.iter().map(|s| BareRule(s.clone())).collect();
    let pre: Vec<String> = set.iter().map(|r| r.0.clone()).collect();
    let r = insert_and_move_rule(&mut set, BareRule(c.rule.clone()), c.default_position, c.after.as_deref(), c.before.as_deref());
    let post: Vec<String> = set.iter().map(|r| r.0.clone()).collect();
    let mut sorted = post.clone();
    sorted.sort();
    sorted.dedup();
    if sorted.len() != post.len() {
        return Err(format!("duplicate ids after insert_and_move_rule: {post:?}"));
    }
    match r {
        Err(_) => {
            cx.class("error_paths");
            cx.nontrivial();
            if post != pre {
                return Err(format!("insert_and_move_rule returned Err but changed the set: {pre:?} -> {post:?}"));
            }
        }
        Ok(()) => {
            let others: Vec<&String> = post.iter().filter(|s| **s != c.rule).collect();
            let expected_others: Vec<&String> = pre.iter().filter(|s| **s != c.rule).collect();
            if others != expected_others || !post.contains(&c.rule) {
                return Err(format!("insert_and_move_rule reordered other rules: {pre:?} -> {post:?}"));
            }
            let i = post.iter().position(|s| *s == c.rule).unwrap();
            let self_anchor = c.after.as_deref() == Some(&c.rule) || c.before.as_deref() == Some(&c.rule);
            if !self_anchor {
                if let Some(b) = &c.before {
                    if post.get(i + 1) != Some(b) {
                        return Err(format!("before={b:?}: rule not immediately before it: {pre:?} -> {post:?}"));
                    }
                } else if let Some(a) = &c.after {
                    if i == 0 || post[i - 1] != *a {
                        return Err(format!("after={a:?}: rule not immediately after it: {pre:?} -> {post:?}"));
                    }
                } else if let Some(old) = pre.iter().position(|s| *s == c.rule) {
                    if old != i {
                        return Err(format!("unpositioned replace moved the rule: {pre:?} -> {post:?}"));
                    }
                } else if i != c.default_position.min(pre.len()) {
                    return Err(format!("new unpositioned rule at {i}, default position {}: {pre:?} -> {post:?}", c.default_position));
                }
                cx.nontrivial_if(pre.contains(&c.rule) && (c.after.is_some() || c.before.is_some()));
            }
        }
    }
    Ok(())
}

fn bare_space(shard: u64, nshards: u64) -> impl Iterator<Item = BareCase> {
    // initial sets: all arrangements of up to 4 distinct ids from {a,b,c,d}; rule in {a,b,e};
    // default position 0..=2; anchors in {None,a,b,c,e,zz}
    let pool = ["a", "b", "c", "d"];
    let mut initials: Vec<Vec<String>> = vec![vec![]];
    fn perms(pool: &[&str], cur: &mut Vec<String>, out: &mut Vec<Vec<String>>) {
        for p in pool {
            if !cur.iter().any(|c| c == p) {
                cur.push((*p).to_owned());
                out.push(cur.clone());
                perms(pool, cur, out);
                cur.pop();
            }
        }
    }
    perms(&pool, &mut vec![], &mut initials);
    let anchors: Vec<Option<String>> = vec![None, Some("a".into()), Some("b".into()), Some("c".into()), Some("e".into()), Some("zz".into())];
    let mut all = vec![];
    for init in &initials {
        for rule in ["a", "b", "e"] {
            for dp in 0..=2usize {
                for a in &anchors {
                    for b in &anchors {
                        all.push(BareCase { initial: init.clone(), rule: rule.into(), default_position: dp, after: a.clone(), before: b.clone() });
                    }
                }
            }
        }
    }
    all.into_iter().skip(shard as usize).step_by(nshards as usize)
}

pub fn run(ck: &mut Check) {
    ck.rule(
        "G2: every operation sequence up to a length bound over a small alphabet (insert with every (after, before) anchor pair, remove, set_enabled, set_actions, reserved ids, \
         default-rule targets), from the empty and from the server-default ruleset, checked step by step against a Vec-per-kind model of the documented placement semantics; \
         G1: random sequences up to 40 ops over 6 ids and all five kinds; insert_and_move_rule directly on a bare IndexSet (exhaustive small space). \
         Non-trivial = sequence with a positioned re-insertion of an existing rule or an error path; distinct by sequence.",
    );
    ck.assume("anchor equal to the inserted rule's own id: only panic-freedom, atomicity and other rules' relative order are asserted");
    ck.assume("unpositioned override insert when .m.rule.master is not first: index 0 or 1 accepted");
    let anchors6: Vec<Option<&str>> = vec![None, Some("a"), Some("b"), Some("c"), Some(".m.rule.master"), Some("zz")];
    let anchors4: Vec<Option<&str>> = vec![None, Some("a"), Some("b"), Some("zz")];
    let none = std::sync::Arc::new(vec![vec![]]);
    // length <= 2 over the full alphabet (three kinds), from empty / server-default
    let full = std::sync::Arc::new(alphabet(&[0, 1, 2], &["a", "b", "c"], &anchors6, true));
    ck.extra("alphabet_full_ops", serde_json::json!(full.len()));
    {
        let (a, p) = (full.clone(), none.clone());
        ck.exhaustive("seq_len2_full_alphabet", true, move |s, n| seq_space(a.clone(), p.clone(), 2, s, n), oracle);
    }
    // every arrangement of every subset of {a,b,c} as starting population, then every operation
    // sequence of length <= 2 (thorough: <= 3 for overrides) over the kind's full alphabet
    let kinds: &[(&str, u8)] = if ck.thorough() {
        &[("populated_override", 0), ("populated_content", 1), ("populated_room", 2), ("populated_sender", 3), ("populated_underride", 4)]
    } else {
        &[("populated_override", 0), ("populated_content", 1)]
    };
    for (name, kind) in kinds {
        let a = std::sync::Arc::new(alphabet(&[*kind], &["a", "b", "c"], &anchors6, true));
        let p = std::sync::Arc::new(prefixes(*kind, &["a", "b", "c"]));
        ck.exhaustive(name, true, move |s, n| seq_space(a.clone(), p.clone(), 2, s, n), oracle);
    }
    // length <= 3 (thorough: 4) over a reduced alphabet from the empty set
    let a = std::sync::Arc::new(alphabet(&[0], &["a", "b"], &anchors4, false));
    let (depth, p) = (if ck.thorough() { 4 } else { 3 }, none.clone());
    ck.exhaustive("seq_deep_override", true, move |s, n| seq_space(a.clone(), p.clone(), depth, s, n), oracle);
    if ck.thorough() {
        let a = std::sync::Arc::new(alphabet(&[0], &["a", "b"], &anchors4, false));
        let p = std::sync::Arc::new(prefixes(0, &["a", "b", "c"]));
        ck.exhaustive("populated_override_len3", true, move |s, n| seq_space(a.clone(), p.clone(), 3, s, n), oracle);
    }
    ck.exhaustive("bare_insert_and_move", true, bare_space, bare_oracle);
    let n = ck.n(30_000, 1_000_000);
    ck.prop("seq_random", n, || (any::<bool>(), prop::collection::vec(op_strategy(), 0..40)).prop_map(|(start_default, ops)| Seq { start_default, ops }), oracle);
    ck.floor("seq_len2_full_alphabet", "error_paths", 1000);
    ck.floor("seq_len2_full_alphabet", "first_override_in_empty_set", 100);
    for sub in ["populated_override", "populated_content", "seq_random"] {
        ck.floor(sub, "reinsert_from_lt_anchor", 300);
        ck.floor(sub, "reinsert_from_gt_anchor", 300);
        ck.floor(sub, "error_paths", 1000);
        ck.floor(sub, "replace_in_place", 1000);
    }
    ck.floor("seq_random", "first_override_in_empty_set", 100);
}
