//! C05 Content hash, reference hash and event IDs are the spec's functions of the event.

use std::collections::BTreeMap;

use proptest::prelude::*;
use ruma_common::{canonical_json::redact, CanonicalJsonObject, CanonicalJsonValue};
use ruma_signatures::{content_hash, reference_hash, Error};
use serde::{Deserialize, Serialize};
use vf_engine::{pick_idx, CaseCtx, Check};
use vf_ref::{
    cjson::{self, V},
    hash::{b64, sha256},
    pdu::{self, Pdu},
    redact as rref,
};

use crate::{
    c01::{from_ref, to_ref},
    c04::rules_for,
};

pub fn to_obj(e: &BTreeMap<String, V>) -> CanonicalJsonObject {
    match from_ref(&V::Obj(e.clone())) {
        CanonicalJsonValue::Object(m) => m,
        _ => unreachable!(),
    }
}

/// Canonical form measured by the content hash.
pub fn content_hash_form(e: &BTreeMap<String, V>) -> Vec<u8> {
    cjson::canon_without(e, &["unsigned", "signatures", "hashes"])
}

/// Canonical form measured by the reference hash (None: the event is malformed for redaction).
pub fn reference_hash_form(v: u8, e: &BTreeMap<String, V>) -> Option<(Vec<u8>, bool)> {
    let r = rref::redact(v, e).ok()?;
    Some((cjson::canon_without(&r.event, &["signatures", "unsigned"]), r.tpi_without_signed || r.tpi_not_object))
}

pub fn ref_content_hash(e: &BTreeMap<String, V>) -> String {
    b64(&sha256(&content_hash_form(e)), false)
}

pub fn ref_reference_hash(v: u8, e: &BTreeMap<String, V>) -> Option<String> {
    let (form, _) = reference_hash_form(v, e)?;
    Some(b64(&sha256(&form), v >= 4))
}

#[derive(Serialize, Deserialize, Debug, Clone)]
pub enum Mutation {
    None,
    /// change the value of an existing top-level key (selected by index)
    ModifyTop(u16),
    /// change the value of an existing content key
    ModifyContent(u16),
    AddTop,
    AddContent,
    SetUnsigned,
    SetSignatures,
    SetHashes,
    /// inside third_party_invite.signed of a member event
    ModifyTpiSigned,
}

#[derive(Serialize, Deserialize, Debug, Clone)]
pub struct HashCase {
    pub pdu: Pdu,
    pub mutation: Mutation,
    pub with_hashes: bool,
    pub with_signatures: bool,
}

fn bump(v: &V) -> V {
    match v {
        V::Int(i) => V::Int(if *i >= 1000 { i - 1 } else { i + 1 }),
        V::Str(s) => V::Str(format!("{s}~")),
        V::Bool(b) => V::Bool(!b),
        V::Null => V::Int(0),
        V::Arr(a) => {
            let mut a = a.clone();
            a.push(V::Str("mutated".into()));
            V::Arr(a)
        }
        V::Obj(m) => {
            let mut m = m.clone();
            m.insert("zz_mutated".into(), V::Int(1));
            V::Obj(m)
        }
    }
}

/// Applies the mutation; returns (mutated event, covered by content hash, covered by reference
/// hash) or None if not applicable.
pub fn apply_mutation(v: u8, e: &BTreeMap<String, V>, m: &Mutation) -> Option<(BTreeMap<String, V>, bool, bool)> {
    let ty = e.get("type").and_then(|t| t.as_str()).unwrap_or("").to_owned();
    let mut out = e.clone();
    let content_cov = |k: &str| !matches!(k, "unsigned" | "signatures" | "hashes");
    let ref_cov = |k: &str| rref::top_level_kept(v, k) && !matches!(k, "unsigned" | "signatures");
    match m {
        Mutation::None => None,
        Mutation::ModifyTop(sel) => {
            let keys: Vec<&String> = e.keys().filter(|k| !matches!(k.as_str(), "type" | "content" | "sender" | "event_id")).collect();
            if keys.is_empty() {
                return None;
            }
            let k = keys[pick_idx(*sel, keys.len())].clone();
            out.insert(k.clone(), bump(&e[&k]));
            Some((out, content_cov(&k), ref_cov(&k)))
        }
        Mutation::ModifyContent(sel) => {
            let content = e.get("content")?.obj()?;
            let keys: Vec<&String> = content.keys().filter(|k| !matches!(k.as_str(), "membership" | "third_party_invite" | "join_authorised_via_users_server")).collect();
            if keys.is_empty() {
                return None;
            }
            let k = keys[pick_idx(*sel, keys.len())].clone();
            let nv = bump(&content[&k]);
            out.get_mut("content")?.obj_mut()?.insert(k.clone(), nv);
            Some((out, true, rref::content_kept(v, &ty, &k)))
        }
        Mutation::AddTop => {
            out.insert("zz_added".into(), V::Str("x".into()));
            Some((out, true, false))
        }
        Mutation::AddContent => {
            if e.get("content")?.obj()?.contains_key("zz_added") {
                return None;
            }
            out.get_mut("content")?.obj_mut()?.insert("zz_added".into(), V::Str("x".into()));
            Some((out, true, rref::content_kept(v, &ty, "zz_added")))
        }
        Mutation::SetUnsigned => {
            let nv = match e.get("unsigned") {
                Some(u) => bump(u),
                None => V::Obj([("age".to_owned(), V::Int(42))].into_iter().collect()),
            };
            out.insert("unsigned".into(), nv);
            Some((out, false, false))
        }
        Mutation::SetSignatures => {
            let nv = match e.get("signatures") {
                Some(u) => bump(u),
                None => V::Obj([("x.example".to_owned(), V::Obj([("ed25519:z".to_owned(), V::Str("AAAA".into()))].into_iter().collect()))].into_iter().collect()),
            };
            out.insert("signatures".into(), nv);
            Some((out, false, false))
        }
        Mutation::SetHashes => {
            let nv = match e.get("hashes") {
                Some(u) => bump(u),
                None => V::Obj([("sha256".to_owned(), V::Str("AAAA".into()))].into_iter().collect()),
            };
            out.insert("hashes".into(), nv);
            // `hashes` is outside the content hash but is kept by redaction: the reference hash covers it
            Some((out, false, true))
        }
        Mutation::ModifyTpiSigned => {
            if ty != "m.room.member" {
                return None;
            }
            let tpi = out.get_mut("content")?.obj_mut()?.get_mut("third_party_invite")?.obj_mut()?;
            let signed = tpi.get("signed")?.clone();
            tpi.insert("signed".into(), bump(&signed));
            Some((out, true, v >= 11))
        }
    }
}

fn rust_ok<T>(r: &Result<T, Error>) -> String {
    match r {
        Ok(_) => "Ok".into(),
        Err(e) => format!("Err({e})"),
    }
}

pub fn check_hashes(v: u8, e: &BTreeMap<String, V>, cx: &mut CaseCtx) -> Result<(Option<String>, Option<String>), String> {
    let rules = rules_for(v);
    let obj = to_obj(e);
    // content hash
    let form = content_hash_form(e);
    let ch = content_hash(&obj);
    let got_ch = if form.len() > 65_535 {
        cx.class("content_form_over_limit");
        if !matches!(ch, Err(Error::PduSize)) {
            return Err(format!("content_hash of an event whose hashed canonical form has {} bytes returned {} instead of refusing it", form.len(), rust_ok(&ch)));
        }
        None
    } else {
        let h = ch.map_err(|e2| format!("content_hash refused an event whose hashed canonical form has {} bytes: {e2}", form.len()))?;
        let want = sha256(&form);
        if h.as_bytes() != want || h.encode() != b64(&want, false) {
            return Err(format!("content_hash = {}, the specification gives {}", h.encode(), b64(&want, false)));
        }
        // the hash that hash_and_sign_event stores is this function of the event, whatever
        // `hashes` the event carried before (stale, foreign or other algorithms)
        if e.contains_key("sender") && form.len() < 60_000 {
            let kp = ruma_signatures::Ed25519KeyPair::from_der(&crate::keys::der_v1(&[7; 32]), "1".into()).map_err(|x| format!("from_der: {x}"))?;
            for prior in [None, Some(("sha256", "c3RhbGU")), Some(("md5", "AAAA"))] {
                let mut o = obj.clone();
                match prior {
                    None => {
                        o.remove("hashes");
                    }
                    Some((alg, val)) => {
                        let mut h = CanonicalJsonObject::new();
                        h.insert(alg.to_owned(), CanonicalJsonValue::String(val.to_owned()));
                        if alg == "md5" {
                            h.insert("sha256".to_owned(), CanonicalJsonValue::String(b64(&sha256(b"other event"), false)));
                        }
                        o.insert("hashes".to_owned(), CanonicalJsonValue::Object(h));
                    }
                }
                if ruma_signatures::hash_and_sign_event("a.example", &kp, &mut o, &rules.redaction).is_ok() {
                    let stored = match o.get("hashes") {
                        Some(CanonicalJsonValue::Object(h)) => match h.get("sha256") {
                            Some(CanonicalJsonValue::String(x)) => x.clone(),
                            _ => String::new(),
                        },
                        _ => String::new(),
                    };
                    if stored != b64(&want, false) {
                        return Err(format!("hash_and_sign_event stored hashes.sha256 = {stored:?} for an event that carried {prior:?} before; the content hash is {}", b64(&want, false)));
                    }
                    cx.class("stored_hash_after_hash_and_sign");
                }
            }
        }
        Some(h.encode())
    };
    // reference hash
    let got_rh = match reference_hash_form(v, e) {
        None => {
            if reference_hash(&obj, &rules).is_ok() {
                return Err("reference_hash accepted an event that cannot be redacted".into());
            }
            None
        }
        Some((rform, unasserted)) => {
            let rh = reference_hash(&obj, &rules);
            if unasserted {
                cx.class("v11_tpi_corner_unasserted");
                None
            } else if rform.len() > 65_535 {
                cx.class("reference_form_over_limit");
                if !matches!(rh, Err(Error::PduSize)) {
                    return Err(format!("reference_hash of an event whose redacted canonical form has {} bytes returned {} instead of refusing it", rform.len(), rust_ok(&rh)));
                }
                None
            } else {
                let h = rh.map_err(|e2| format!("reference_hash (v{v}) refused an event whose redacted canonical form has {} bytes: {e2}", rform.len()))?;
                let want = b64(&sha256(&rform), v >= 4);
                if h != want {
                    return Err(format!("reference_hash (v{v}) = {h}, the specification gives {want}"));
                }
                // unchanged by redaction (ruma's own redaction)
                let red = redact(obj.clone(), &rules.redaction, None).map_err(|e2| format!("redact failed: {e2}"))?;
                let h2 = reference_hash(&red, &rules).map_err(|e2| format!("reference_hash of the redacted event failed: {e2}"))?;
                if h2 != h {
                    return Err(format!("reference_hash changes under redaction (v{v}): {h} -> {h2}"));
                }
                Some(h)
            }
        }
    };
    let (fl, rl) = (form.len(), reference_hash_form(v, e).map(|f| f.0.len()).unwrap_or(0));
    cx.class_if((65_530..=65_540).contains(&fl) || (65_530..=65_540).contains(&rl), "size_boundary");
    Ok((got_ch, got_rh))
}

pub fn oracle(c: &HashCase, cx: &mut CaseCtx) -> Result<(), String> {
    let v = c.pdu.version;
    let mut e = c.pdu.event.clone();
    if c.with_hashes {
        e.insert("hashes".into(), V::Obj([("sha256".to_owned(), V::Str("b2xkaGFzaA".into()))].into_iter().collect()));
    }
    if c.with_signatures {
        e.insert("signatures".into(), V::Obj([("a.example".to_owned(), V::Obj([("ed25519:1".to_owned(), V::Str("c2ln".into()))].into_iter().collect()))].into_iter().collect()));
    }
    let (ch, rh) = check_hashes(v, &e, cx)?;
    cx.class(if v <= 3 { "std_alphabet_version" } else { "urlsafe_version" });
    let mut nontrivial = e.get("content").and_then(|c| c.obj()).map(|c| !c.is_empty()).unwrap_or(false) && e.contains_key("unsigned");
    if let Some((e2, ccov, rcov)) = apply_mutation(v, &e, &c.mutation) {
        if e2 != e {
            let (ch2, rh2) = check_hashes(v, &e2, cx)?;
            cx.more_evals(1);
            if let (Some(a), Some(b)) = (&ch, &ch2) {
                if ccov && a == b {
                    return Err(format!("content hash unchanged by a mutation of a covered field ({:?})", c.mutation));
                }
                if !ccov && a != b {
                    return Err(format!("content hash changed by a mutation confined to unsigned/signatures/hashes ({:?})", c.mutation));
                }
            }
            if let (Some(a), Some(b)) = (&rh, &rh2) {
                if rcov && a == b {
                    return Err(format!("reference hash (v{v}) unchanged by a mutation of a field redaction keeps ({:?})", c.mutation));
                }
                if !rcov && a != b {
                    return Err(format!("reference hash (v{v}) changed by a mutation of a field outside the redacted form ({:?})", c.mutation));
                }
            }
            cx.class(if ccov { "mut_content_covered" } else { "mut_content_uncovered" });
            cx.class(if rcov { "mut_reference_covered" } else { "mut_reference_uncovered" });
            nontrivial = true;
        }
    }
    cx.nontrivial_if(nontrivial);
    Ok(())
}

/// Boundary constructions: pad one string so that the measured canonical form has exactly
/// `target` bytes.
#[derive(Serialize, Deserialize, Debug, Clone)]
pub struct SizeCase {
    pub pdu: Pdu,
    /// 0: pad content.body (content-hash form), 1: pad a prev_events entry (both forms)
    pub which: u8,
    pub target: usize,
    pub multibyte: bool,
}

pub fn size_oracle(c: &SizeCase, cx: &mut CaseCtx) -> Result<(), String> {
    let v = c.pdu.version;
    let mut e = c.pdu.event.clone();
    let set_pad = |e: &mut BTreeMap<String, V>, pad: String, which: u8| {
        if which == 0 {
            if let Some(V::Obj(content)) = e.get_mut("content") {
                content.insert("body".into(), V::Str(pad));
            }
        } else {
            let entry = if v <= 2 { V::Arr(vec![V::Str(pad), V::Obj([("sha256".to_owned(), V::Str("aGFzaA".into()))].into_iter().collect())]) } else { V::Str(pad) };
            e.insert("prev_events".into(), V::Arr(vec![entry]));
        }
    };
    let measure = |e: &BTreeMap<String, V>| -> Option<usize> {
        if c.which == 0 {
            Some(content_hash_form(e).len())
        } else {
            reference_hash_form(v, e).map(|f| f.0.len())
        }
    };
    set_pad(&mut e, String::new(), c.which);
    let Some(base) = measure(&e) else { return Ok(()) };
    if base > c.target {
        return Ok(());
    }
    let need = c.target - base;
    let pad = if c.multibyte {
        // 3-byte characters: character count and byte count differ
        let mut p = "€".repeat(need / 3);
        p.push_str(&"a".repeat(need % 3));
        p
    } else {
        "a".repeat(need)
    };
    set_pad(&mut e, pad, c.which);
    if measure(&e) != Some(c.target) {
        return Err("harness: padding did not reach the target size".into());
    }
    cx.class("size_boundary_constructed");
    cx.class_if(c.target > 65_535, "over_limit");
    cx.class_if(c.target <= 65_535, "within_limit");
    cx.nontrivial();
    check_hashes(v, &e, cx).map(|_| ())
}

pub fn run(ck: &mut Check) {
    if let Err(e) = crate::keys::self_test() {
        ck.infra_error(format!("reference self-test failed: {e}"));
        return;
    }
    ck.rule(
        "G1: well-formed PDUs of every room version (event types with version-specific redaction, arbitrary extra keys/content, optional hashes/signatures/unsigned) with one mutation inside or outside each hash's \
         covered portion; boundary constructions padding one string so that the measured canonical form has exactly 65,531..65,540 bytes (ASCII and multi-byte pads). \
         Oracle: hand-written SHA-256/base64 (self-tested against ring) over the reference canonical JSON of the reference-redacted event. Non-trivial = event with non-empty content and unsigned, or any mutation/boundary case.",
    );
    ck.assume("v11 member events whose third_party_invite lacks `signed`: reference hash not asserted (redaction corner left open by the spec)");
    let n = ck.n(150_000, 1_500_000);
    let mutation = || {
        prop_oneof![
            1 => Just(Mutation::None),
            3 => any::<u16>().prop_map(Mutation::ModifyTop),
            3 => any::<u16>().prop_map(Mutation::ModifyContent),
            1 => Just(Mutation::AddTop),
            1 => Just(Mutation::AddContent),
            1 => Just(Mutation::SetUnsigned),
            1 => Just(Mutation::SetSignatures),
            1 => Just(Mutation::SetHashes),
            1 => Just(Mutation::ModifyTpiSigned),
        ]
    };
    ck.prop("hashes_and_mutations", n, move || (pdu::pdu(), mutation(), any::<bool>(), any::<bool>()).prop_map(|(pdu, mutation, with_hashes, with_signatures)| HashCase { pdu, mutation, with_hashes, with_signatures }), oracle);
    let n = ck.n(2_000, 20_000);
    ck.prop(
        "size_limit_boundary",
        n,
        || (pdu::pdu(), 0u8..2, 65_531usize..=65_540, any::<bool>()).prop_map(|(pdu, which, target, multibyte)| SizeCase { pdu, which, target, multibyte }),
        size_oracle,
    );
    for cls in ["mut_content_covered", "mut_content_uncovered", "mut_reference_covered", "mut_reference_uncovered", "std_alphabet_version", "urlsafe_version"] {
        ck.floor("hashes_and_mutations", cls, 1000);
    }
    ck.floor("hashes_and_mutations", "stored_hash_after_hash_and_sign", 10_000);
    ck.floor("size_limit_boundary", "over_limit", 50);
    ck.floor("size_limit_boundary", "within_limit", 50);
}
