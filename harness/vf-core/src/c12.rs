//! C12 Push evaluation picks the first matching enabled rule under spec semantics.

use std::collections::BTreeMap;

use js_int::{Int, UInt};
use proptest::prelude::*;
use ruma_common::{
    power_levels::NotificationPowerLevels,
    push::{
        Action, ComparisonOperator, ConditionalPushRuleInit, FlattenedJson, FlattenedJsonValue, PatternedPushRuleInit, PushCondition, PushConditionPowerLevelsCtx, PushConditionRoomCtx,
        RoomMemberCountIs, Ruleset, ScalarJsonValue, SimplePushRuleInit, Tweak,
    },
    serde::Raw,
    OwnedRoomId, OwnedUserId,
};
use serde::{Deserialize, Serialize};
use serde_json::{json, Value};
use vf_engine::{pick_idx, CaseCtx, Check};

// ---------------------------------------------------------------------------------------------
// Reference semantics

fn is_word(c: char) -> bool {
    c.is_ascii_alphanumeric() || c == '_'
}

/// Glob: `*` any run of characters (incl. empty, incl. newline), `?` exactly one character.
fn glob(p: &[char], t: &[char]) -> bool {
    // iterative DP over (pattern index, text index)
    let mut cur = vec![false; t.len() + 1];
    cur[0] = true;
    for pc in p {
        let mut next = vec![false; t.len() + 1];
        match pc {
            '*' => {
                let mut any = false;
                for j in 0..=t.len() {
                    any |= cur[j];
                    next[j] = any;
                }
            }
            '?' => {
                for j in 1..=t.len() {
                    next[j] = cur[j - 1];
                }
            }
            c => {
                for j in 1..=t.len() {
                    next[j] = cur[j - 1] && t[j - 1] == *c;
                }
            }
        }
        cur = next;
    }
    cur[t.len()]
}

/// Case-insensitive glob match of the whole value.
pub fn ref_match_whole(value: &str, pattern: &str) -> bool {
    let v: Vec<char> = value.to_lowercase().chars().collect();
    let p: Vec<char> = pattern.to_lowercase().chars().collect();
    glob(&p, &v)
}

/// Word mode: some substring matches the glob and, at each end, not both neighbouring characters
/// are word characters.
pub fn ref_match_words(value: &str, pattern: &str) -> bool {
    let v: Vec<char> = value.to_lowercase().chars().collect();
    let p: Vec<char> = pattern.to_lowercase().chars().collect();
    let boundary = |i: usize| i == 0 || i == v.len() || !(is_word(v[i - 1]) && is_word(v[i]));
    for s in 0..=v.len() {
        if !boundary(s) {
            continue;
        }
        for e in s..=v.len() {
            if boundary(e) && glob(&p, &v[s..e]) {
                return true;
            }
        }
    }
    false
}

#[derive(Debug, Clone, PartialEq)]
pub enum Flat {
    Null,
    Bool(bool),
    Int(i64),
    Str(String),
    Arr(Vec<Value>),
    EmptyObject,
}

fn scalar_in_range(v: &Value) -> Option<Value> {
    match v {
        Value::Null | Value::Bool(_) | Value::String(_) => Some(v.clone()),
        Value::Number(n) => n.as_i64().filter(|i| i.unsigned_abs() < (1 << 53)).map(|_| v.clone()),
        _ => None,
    }
}

fn escape_key(k: &str) -> String {
    k.replace('\\', "\\\\").replace('.', "\\.")
}

/// Reference flattening: dot-separated path of backslash-escaped keys.
pub fn ref_flatten(v: &Value) -> BTreeMap<String, Flat> {
    fn rec(v: &Value, path: Option<String>, out: &mut BTreeMap<String, Flat>) {
        let p = || path.clone().unwrap_or_default();
        match v {
            Value::Object(m) if m.is_empty() => {
                out.insert(p(), Flat::EmptyObject);
            }
            Value::Object(m) => {
                for (k, x) in m {
                    let seg = escape_key(k);
                    let np = match &path {
                        None => seg,
                        Some(pp) => format!("{pp}.{seg}"),
                    };
                    rec(x, Some(np), out);
                }
            }
            Value::Array(a) => {
                out.insert(p(), Flat::Arr(a.iter().filter_map(scalar_in_range).collect()));
            }
            Value::Null => {
                out.insert(p(), Flat::Null);
            }
            Value::Bool(b) => {
                out.insert(p(), Flat::Bool(*b));
            }
            Value::String(s) => {
                out.insert(p(), Flat::Str(s.clone()));
            }
            Value::Number(n) => {
                if let Some(i) = n.as_i64().filter(|i| i.unsigned_abs() < (1 << 53)) {
                    out.insert(p(), Flat::Int(i));
                }
            }
        }
    }
    let mut out = BTreeMap::new();
    rec(v, None, &mut out);
    out
}

#[derive(Serialize, Deserialize, Debug, Clone, PartialEq)]
pub enum Cond {
    EventMatch { key: String, pattern: String },
    ContainsDisplayName,
    RoomMemberCount { op: u8, count: u32 },
    SenderNotificationPermission { key: String },
    EventPropertyIs { key: String, value: Value },
    EventPropertyContains { key: String, value: Value },
}

#[derive(Serialize, Deserialize, Debug, Clone)]
pub struct Ctx {
    pub room_id: String,
    pub member_count: u32,
    pub user_id: String,
    pub display_name: String,
    /// (users, users_default, notifications.room)
    pub power_levels: Option<(Vec<(String, i32)>, i32, i32)>,
}

fn flat_str<'a>(flat: &'a BTreeMap<String, Flat>, k: &str) -> Option<&'a str> {
    match flat.get(k) {
        Some(Flat::Str(s)) => Some(s),
        _ => None,
    }
}

fn scalar_eq(f: &Flat, v: &Value) -> bool {
    match (f, v) {
        (Flat::Null, Value::Null) => true,
        (Flat::Bool(a), Value::Bool(b)) => a == b,
        (Flat::Int(a), Value::Number(n)) => n.as_i64() == Some(*a),
        (Flat::Str(a), Value::String(b)) => a == b,
        _ => false,
    }
}

/// None = outcome not asserted (outside the constructed domain).
pub fn ref_cond(c: &Cond, flat: &BTreeMap<String, Flat>, ctx: &Ctx) -> Option<bool> {
    if flat_str(flat, "sender") == Some(ctx.user_id.as_str()) {
        return Some(false);
    }
    Some(match c {
        Cond::EventMatch { key, pattern } => {
            let value = if key == "room_id" { Some(ctx.room_id.as_str()) } else { flat_str(flat, key) };
            match value {
                None => false,
                Some(v) => {
                    if key == "content.body" {
                        if pattern.is_empty() {
                            return None;
                        }
                        ref_match_words(v, pattern)
                    } else {
                        ref_match_whole(v, pattern)
                    }
                }
            }
        }
        Cond::ContainsDisplayName => match flat_str(flat, "content.body") {
            None => false,
            Some(v) => {
                if ctx.display_name.is_empty() || ctx.display_name.contains(['*', '?']) {
                    return None;
                }
                ref_match_words(v, &ctx.display_name)
            }
        },
        Cond::RoomMemberCount { op, count } => {
            let m = ctx.member_count;
            match op % 5 {
                0 => m == *count,
                1 => m < *count,
                2 => m > *count,
                3 => m >= *count,
                _ => m <= *count,
            }
        }
        Cond::SenderNotificationPermission { key } => {
            let Some((users, users_default, room)) = &ctx.power_levels else { return Some(false) };
            let Some(sender) = flat_str(flat, "sender") else { return Some(false) };
            if <&ruma_common::UserId>::try_from(sender).is_err() {
                return Some(false);
            }
            if key != "room" {
                return None;
            }
            let level = users.iter().rev().find(|(u, _)| u == sender).map(|(_, l)| *l).unwrap_or(*users_default);
            level >= *room
        }
        Cond::EventPropertyIs { key, value } => flat.get(key).is_some_and(|f| scalar_eq(f, value)),
        Cond::EventPropertyContains { key, value } => match flat.get(key) {
            Some(Flat::Arr(a)) => a.iter().any(|x| x == value && scalar_in_range(x).is_some()),
            _ => false,
        },
    })
}

fn to_scalar(v: &Value) -> ScalarJsonValue {
    match v {
        Value::Bool(b) => ScalarJsonValue::Bool(*b),
        Value::Number(n) => ScalarJsonValue::Integer(Int::try_from(n.as_i64().unwrap_or(0)).unwrap_or_default()),
        Value::String(s) => ScalarJsonValue::String(s.clone()),
        _ => ScalarJsonValue::Null,
    }
}

fn to_condition(c: &Cond) -> PushCondition {
    match c {
        Cond::EventMatch { key, pattern } => PushCondition::EventMatch { key: key.clone(), pattern: pattern.clone() },
        Cond::ContainsDisplayName => PushCondition::ContainsDisplayName,
        Cond::RoomMemberCount { op, count } => PushCondition::RoomMemberCount {
            is: RoomMemberCountIs {
                prefix: match op % 5 {
                    0 => ComparisonOperator::Eq,
                    1 => ComparisonOperator::Lt,
                    2 => ComparisonOperator::Gt,
                    3 => ComparisonOperator::Ge,
                    _ => ComparisonOperator::Le,
                },
                count: UInt::from(*count),
            },
        },
        Cond::SenderNotificationPermission { key } => PushCondition::SenderNotificationPermission { key: key.clone() },
        Cond::EventPropertyIs { key, value } => PushCondition::EventPropertyIs { key: key.clone(), value: to_scalar(value) },
        Cond::EventPropertyContains { key, value } => PushCondition::EventPropertyContains { key: key.clone(), value: to_scalar(value) },
    }
}

fn to_ctx(c: &Ctx) -> Option<PushConditionRoomCtx> {
    Some(PushConditionRoomCtx {
        room_id: OwnedRoomId::try_from(c.room_id.as_str()).ok()?,
        member_count: UInt::from(c.member_count),
        user_id: OwnedUserId::try_from(c.user_id.as_str()).ok()?,
        user_display_name: c.display_name.clone(),
        power_levels: match &c.power_levels {
            None => None,
            Some((users, users_default, room)) => {
                let mut n = NotificationPowerLevels::new();
                n.room = Int::from(*room);
                let mut m = BTreeMap::new();
                for (u, l) in users {
                    m.insert(OwnedUserId::try_from(u.as_str()).ok()?, Int::from(*l));
                }
                Some(PushConditionPowerLevelsCtx { users: m, users_default: Int::from(*users_default), notifications: n })
            }
        },
    })
}

fn raw_event(v: &Value) -> Raw<Value> {
    Raw::from_json(serde_json::value::to_raw_value(v).expect("raw"))
}

// ---------------------------------------------------------------------------------------------
// Glob enumeration

const PAT_ALPHA: [char; 6] = ['a', 'b', ' ', '*', '?', '-'];
const VAL_ALPHA: [char; 7] = ['a', 'b', 'A', ' ', '-', '\n', 'é'];

fn strings_over(alpha: &[char], max_len: usize) -> Vec<String> {
    let mut out = vec![String::new()];
    let mut layer = vec![String::new()];
    for _ in 0..max_len {
        let mut next = vec![];
        for s in &layer {
            for c in alpha {
                let mut t = s.clone();
                t.push(*c);
                next.push(t);
            }
        }
        out.extend(next.iter().cloned());
        layer = next;
    }
    out
}

fn default_ctx() -> Ctx {
    Ctx { room_id: "!room:x.y".into(), member_count: 3, user_id: "@me:x.y".into(), display_name: "me".into(), power_levels: None }
}

#[derive(Serialize, Deserialize, Debug, Clone)]
pub struct GlobCase {
    pub value: String,
    /// empty = all enumerated patterns
    pub patterns: Vec<String>,
}

fn glob_oracle_with(patterns: &[String], c: &GlobCase, cx: &mut CaseCtx) -> Result<(), String> {
    let ctx = default_ctx();
    let rctx = to_ctx(&ctx).ok_or("ctx")?;
    let ev = json!({"type": "m.room.message", "sender": "@other:x.y", "content": {"body": c.value, "other": c.value}});
    let flat = FlattenedJson::from_raw(&raw_event(&ev));
    let pats: &[String] = if c.patterns.is_empty() { patterns } else { &c.patterns };
    let mut n = 0;
    let mut nt = false;
    for p in pats {
        for (key, words) in [("content.other", false), ("content.body", true)] {
            if words && p.is_empty() {
                continue;
            }
            let want = if words { ref_match_words(&c.value, p) } else { ref_match_whole(&c.value, p) };
            let got = PushCondition::EventMatch { key: key.into(), pattern: p.clone() }.applies(&flat, &rctx);
            n += 1;
            if got != want {
                return Err(format!("pattern {p:?} on value {:?} ({}): ruma says {got}, the glob semantics say {want}", c.value, if words { "content.body, word boundaries" } else { "ordinary key, whole value" }));
            }
            nt |= p.contains(['*', '?']) || (want != c.value.to_lowercase().contains(&p.to_lowercase()));
        }
        cx.class_if(p.contains("**") || p.contains("*?") || p.contains("?*") || p.contains("??"), "adjacent_wildcards");
    }
    cx.class_if(c.value.contains('\n'), "newline_in_value");
    cx.class_if(!c.value.is_ascii(), "multibyte_in_value");
    cx.more_evals(n.max(1) - 1);
    cx.nontrivial_if(nt);
    Ok(())
}

// ---------------------------------------------------------------------------------------------
// Rulesets

#[derive(Serialize, Deserialize, Debug, Clone)]
pub struct RuleSpec {
    /// 0 override, 1 content, 2 room, 3 sender, 4 underride
    pub kind: u8,
    pub id: String,
    pub enabled: bool,
    pub conditions: Vec<Cond>,
    pub pattern: String,
    pub tag: u8,
}

#[derive(Serialize, Deserialize, Debug, Clone)]
pub struct EvalCase {
    pub rules: Vec<RuleSpec>,
    pub event: Value,
    pub ctx: Ctx,
}

fn actions_for(tag: u8) -> Vec<Action> {
    match tag % 3 {
        0 => vec![],
        1 => vec![Action::Notify],
        _ => vec![Action::Notify, Action::SetTweak(Tweak::Highlight(true))],
    }
}

fn build_ruleset(rules: &[RuleSpec]) -> Option<Ruleset> {
    let mut rs = Ruleset::new();
    for r in rules {
        let actions = actions_for(r.tag);
        match r.kind % 5 {
            0 | 4 => {
                let rule = ConditionalPushRuleInit { actions, default: r.id.starts_with('.'), enabled: r.enabled, rule_id: r.id.clone(), conditions: r.conditions.iter().map(to_condition).collect() }.into();
                if r.kind % 5 == 0 {
                    rs.override_.insert(rule);
                } else {
                    rs.underride.insert(rule);
                }
            }
            1 => {
                rs.content.insert(PatternedPushRuleInit { actions, default: r.id.starts_with('.'), enabled: r.enabled, rule_id: r.id.clone(), pattern: r.pattern.clone() }.into());
            }
            2 => {
                rs.room.insert(SimplePushRuleInit { actions, default: false, enabled: r.enabled, rule_id: OwnedRoomId::try_from(r.id.as_str()).ok()? }.into());
            }
            _ => {
                rs.sender.insert(SimplePushRuleInit { actions, default: false, enabled: r.enabled, rule_id: OwnedUserId::try_from(r.id.as_str()).ok()? }.into());
            }
        }
    }
    Some(rs)
}

fn has_mentions(flat: &BTreeMap<String, Flat>) -> bool {
    flat.keys().any(|k| k == "content.m\\.mentions" || k.starts_with("content.m\\.mentions."))
}

/// Reference evaluation: index into `rules` (deduplicated per kind, first occurrence kept as
/// IndexSet does) of the first matching enabled rule; None in the inner Option = unasserted.
fn ref_eval(rules: &[RuleSpec], flat: &BTreeMap<String, Flat>, ctx: &Ctx) -> Option<Option<(u8, String)>> {
    if flat_str(flat, "sender") == Some(ctx.user_id.as_str()) {
        return Some(None);
    }
    for kind in [0u8, 1, 2, 3, 4] {
        let mut seen: Vec<&str> = vec![];
        for r in rules.iter().filter(|r| r.kind % 5 == kind) {
            if seen.contains(&r.id.as_str()) {
                continue;
            }
            seen.push(&r.id);
            if !r.enabled {
                continue;
            }
            let hit = match kind {
                0 | 4 => {
                    if (r.id == ".m.rule.roomnotif" || r.id == ".m.rule.contains_display_name") && has_mentions(flat) {
                        false
                    } else {
                        let mut all = true;
                        for c in &r.conditions {
                            match ref_cond(c, flat, ctx) {
                                Some(true) => {}
                                Some(false) => {
                                    all = false;
                                    break;
                                }
                                None => return None,
                            }
                        }
                        all
                    }
                }
                1 => {
                    if r.id == ".m.rule.contains_user_name" && has_mentions(flat) {
                        false
                    } else {
                        ref_cond(&Cond::EventMatch { key: "content.body".into(), pattern: r.pattern.clone() }, flat, ctx)?
                    }
                }
                2 => ctx.room_id == r.id,
                _ => flat_str(flat, "sender") == Some(r.id.as_str()),
            };
            if hit {
                return Some(Some((kind, r.id.clone())));
            }
        }
    }
    Some(None)
}

fn flat_agrees(flat: &FlattenedJson, rf: &BTreeMap<String, Flat>, ev: &Value) -> Result<(), String> {
    for (k, v) in rf {
        let got = flat.get(k);
        let ok = match (v, got) {
            (Flat::Null, Some(FlattenedJsonValue::Null)) => true,
            (Flat::Bool(a), Some(FlattenedJsonValue::Bool(b))) => a == b,
            (Flat::Int(a), Some(FlattenedJsonValue::Integer(b))) => i64::from(*b) == *a,
            (Flat::Str(a), Some(FlattenedJsonValue::String(b))) => a == b && flat.get_str(k) == Some(a.as_str()),
            (Flat::EmptyObject, Some(FlattenedJsonValue::EmptyObject)) => true,
            (Flat::Arr(a), Some(FlattenedJsonValue::Array(b))) => a.len() == b.len() && a.iter().zip(b.iter()).all(|(x, y)| to_scalar(x) == *y),
            _ => false,
        };
        if !ok {
            return Err(format!("flattened property at path {k:?} is {got:?}, expected {v:?} (event {ev})"));
        }
    }
    // nothing else is addressable: probe a few derived paths that must be absent
    for k in rf.keys() {
        for probe in [format!("{k}.zz"), format!("zz.{k}"), k.replace("\\.", ".")] {
            if !rf.contains_key(&probe) && flat.get(&probe).is_some() {
                return Err(format!("flattened event has a property at path {probe:?} which the event does not have (event {ev})"));
            }
        }
    }
    Ok(())
}

pub fn eval_oracle(c: &EvalCase, cx: &mut CaseCtx) -> Result<(), String> {
    let Some(rctx) = to_ctx(&c.ctx) else {
        cx.class("ctx_not_constructible");
        return Ok(());
    };
    let Some(rs) = build_ruleset(&c.rules) else {
        cx.class("rule_id_not_constructible");
        return Ok(());
    };
    // every other event is handed over in a different spelling of the same JSON value (key
    // order, escaped strings, whitespace): evaluation depends on the value only
    let h = vf_engine::fnv(c.event.to_string().as_bytes());
    let raw = if h % 2 == 0 {
        raw_event(&c.event)
    } else {
        cx.class("event_text_respelled");
        let text = vf_ref::respell::respell(&c.event, (h >> 8) as u8, (h >> 16) as u8 % 15 + 1, &mut 0);
        Raw::from_json_string(text).map_err(|e| format!("harness: respelled event not valid JSON: {e}"))?
    };
    let flat = FlattenedJson::from_raw(&raw);
    let rf = ref_flatten(&c.event);
    flat_agrees(&flat, &rf, &c.event)?;
    // individual conditions
    for r in &c.rules {
        for cond in &r.conditions {
            if let Some(want) = ref_cond(cond, &rf, &c.ctx) {
                let got = to_condition(cond).applies(&flat, &rctx);
                cx.more_evals(1);
                if got != want {
                    return Err(format!("condition {cond:?} on event {} in context {:?}: ruma says {got}, the specification says {want}", c.event, c.ctx));
                }
                cx.class(match cond {
                    Cond::EventMatch { .. } => "cond_event_match",
                    Cond::ContainsDisplayName => "cond_contains_display_name",
                    Cond::RoomMemberCount { .. } => "cond_room_member_count",
                    Cond::SenderNotificationPermission { .. } => "cond_sender_notification_permission",
                    Cond::EventPropertyIs { .. } => "cond_event_property_is",
                    Cond::EventPropertyContains { .. } => "cond_event_property_contains",
                });
                cx.class_if(want, "condition_true");
            } else {
                cx.class("condition_unasserted");
            }
        }
    }
    let Some(want) = ref_eval(&c.rules, &rf, &c.ctx) else {
        cx.class("evaluation_unasserted");
        return Ok(());
    };
    let got = rs.get_match(&raw, &rctx);
    let got_id = got.as_ref().map(|r| {
        let k = match r {
            ruma_common::push::AnyPushRuleRef::Override(_) => 0u8,
            ruma_common::push::AnyPushRuleRef::Content(_) => 1,
            ruma_common::push::AnyPushRuleRef::Room(_) => 2,
            ruma_common::push::AnyPushRuleRef::Sender(_) => 3,
            ruma_common::push::AnyPushRuleRef::Underride(_) => 4,
            _ => 9,
        };
        (k, r.rule_id().to_owned())
    });
    if got_id != want {
        return Err(format!("get_match picked {got_id:?}, the specification picks {want:?}; rules {:?}; event {}; ctx {:?}", c.rules.iter().map(|r| (r.kind % 5, &r.id, r.enabled)).collect::<Vec<_>>(), c.event, c.ctx));
    }
    let acts = rs.get_actions(&raw, &rctx);
    let want_acts = match &want {
        Some((k, id)) => c.rules.iter().find(|r| r.kind % 5 == *k && r.id == *id).map(|r| actions_for(r.tag)).unwrap_or_default(),
        None => vec![],
    };
    if serde_json::to_string(acts).ok() != serde_json::to_string(&want_acts).ok() {
        return Err(format!("get_actions returned {acts:?}, expected those of {want:?}"));
    }
    // how many enabled rules of different kinds match (by the reference)?
    let self_sent = flat_str(&rf, "sender") == Some(c.ctx.user_id.as_str());
    cx.class_if(self_sent, "self_sent_event");
    cx.class_if(want.is_some(), "some_rule_matches");
    cx.class_if(c.rules.iter().any(|r| !r.enabled), "has_disabled_rule");
    cx.class_if(has_mentions(&rf), "has_mentions");
    cx.class_if(rf.keys().any(|k| k.contains('\\')), "escaped_key");
    let kinds_matching = (0u8..5)
        .filter(|k| {
            let only: Vec<RuleSpec> = c.rules.iter().filter(|r| r.kind % 5 == *k).cloned().collect();
            matches!(ref_eval(&only, &rf, &c.ctx), Some(Some(_)))
        })
        .count();
    cx.class_if(kinds_matching >= 2, "rules_of_two_kinds_match");
    cx.nontrivial_if(kinds_matching >= 2 || (want.is_some() && c.rules.iter().any(|r| !r.enabled)) || self_sent);
    Ok(())
}

// --- generators ---------------------------------------------------------------------------------

const USERS: [&str; 4] = ["@me:x.y", "@alice:x.y", "@bob:z.w", "@carol:x.y"];
const ROOMS: [&str; 3] = ["!room:x.y", "!other:x.y", "!third:z.w"];
const WORDS: [&str; 10] = ["me", "hello", "alice", "room", "foo", "bar", "Jo", "x-y", "a_b", "été"];

fn body() -> impl Strategy<Value = String> {
    prop_oneof![
        3 => prop::collection::vec((any::<u16>().prop_map(|s| WORDS[pick_idx(s, WORDS.len())]), prop_oneof![Just(" "), Just(""), Just("-"), Just("\n"), Just(", "), Just("_"), Just("é"), Just("!")]), 0..6)
            .prop_map(|v| v.into_iter().map(|(w, s)| format!("{w}{s}")).collect::<String>()),
        1 => "[a-cA-C \\n_.*?-]{0,10}",
        1 => "\\PC{0,8}",
    ]
}

fn pattern() -> impl Strategy<Value = String> {
    prop_oneof![
        3 => any::<u16>().prop_map(|s| WORDS[pick_idx(s, WORDS.len())].to_owned()),
        3 => (any::<u16>(), prop_oneof![Just("*"), Just("?"), Just("**"), Just("?*"), Just("*?"), Just("??")], any::<u16>(), any::<bool>()).prop_map(|(a, w, b, lead)| {
            let (x, y) = (WORDS[pick_idx(a, WORDS.len())], WORDS[pick_idx(b, WORDS.len())]);
            if lead { format!("{w}{x}") } else { format!("{x}{w}{y}") }
        }),
        2 => "[a-cA-C *?.+()\\[\\]{}^$|\\\\-]{1,8}",
        1 => Just("m.text".to_owned()),
        1 => Just("m.*".to_owned()),
    ]
}

fn key_name() -> impl Strategy<Value = String> {
    prop_oneof![4 => "[a-c]{1,2}", 1 => Just(String::new()), 1 => Just("m.mentions".to_owned()), 1 => Just("a.b".to_owned()), 1 => Just("a\\b".to_owned()), 1 => Just("a\\.b".to_owned()), 1 => Just("é".to_owned())]
}

fn small_json() -> impl Strategy<Value = Value> {
    let leaf = prop_oneof![
        Just(Value::Null),
        any::<bool>().prop_map(Value::Bool),
        (-3i64..4).prop_map(|i| json!(i)),
        Just(json!(9007199254740993i64)),
        body().prop_map(Value::String),
        Just(json!({})),
        prop::collection::vec(prop_oneof![Just(json!(1)), Just(json!("a")), Just(json!(true)), Just(Value::Null), Just(json!({"x": 1})), Just(json!([1])), Just(json!(1.5))], 0..4).prop_map(Value::Array),
    ];
    leaf.prop_recursive(3, 12, 4, |inner| prop::collection::btree_map(key_name(), inner, 0..4).prop_map(|m| Value::Object(m.into_iter().collect())))
}

fn event() -> impl Strategy<Value = Value> {
    (any::<u16>(), prop::option::weighted(0.8, body()), prop::option::of(small_json()), prop::collection::btree_map(key_name(), small_json(), 0..4), any::<u16>(), prop::option::weighted(0.3, Just(())), prop_oneof![Just("m.text"), Just("m.notice")], any::<bool>())
        .prop_map(|(s, body, extra, content_extra, room, mentions, msgtype, with_room)| {
            let mut content: serde_json::Map<String, Value> = content_extra.into_iter().collect();
            content.insert("msgtype".into(), json!(msgtype));
            match body {
                Some(b) => {
                    content.insert("body".into(), json!(b));
                }
                None => {
                    content.remove("body");
                }
            }
            if mentions.is_some() {
                content.insert("m.mentions".into(), json!({"user_ids": ["@me:x.y"]}));
            } else {
                content.remove("m.mentions");
            }
            let mut ev = json!({"type": "m.room.message", "sender": USERS[pick_idx(s, USERS.len())], "content": Value::Object(content), "event_id": "$e"});
            if with_room {
                ev["room_id"] = json!(ROOMS[0]);
            }
            if let Some(x) = extra {
                if room % 8 == 0 {
                    // a top-level property whose name is the empty string
                    ev[""] = x.clone();
                }
                ev["extra"] = x;
            }
            ev
        })
}

fn ctx() -> impl Strategy<Value = Ctx> {
    (0u32..6, prop_oneof![3 => Just("me".to_owned()), 1 => Just("Jo".to_owned()), 1 => Just("x-y".to_owned()), 1 => Just("été".to_owned()), 1 => "[a-c]{1,3}"], prop::option::weighted(0.7, (prop::collection::vec((any::<u16>().prop_map(|s| USERS[pick_idx(s, USERS.len())].to_owned()), 0i32..101), 0..3), 0i32..60, prop_oneof![Just(50i32), 0i32..101])))
        .prop_map(|(member_count, display_name, power_levels)| Ctx { room_id: ROOMS[0].into(), member_count, user_id: USERS[0].into(), display_name, power_levels })
}

fn cond() -> impl Strategy<Value = Cond> {
    let key = prop_oneof![
        3 => Just("content.body".to_owned()),
        2 => Just("content.msgtype".to_owned()),
        1 => Just("type".to_owned()),
        1 => Just("sender".to_owned()),
        1 => Just("room_id".to_owned()),
        2 => (key_name(), key_name()).prop_map(|(a, b)| format!("content.{}.{}", a.replace('\\', "\\\\").replace('.', "\\."), b.replace('\\', "\\\\").replace('.', "\\."))),
        2 => key_name().prop_map(|a| format!("content.{}", a.replace('\\', "\\\\").replace('.', "\\."))),
        1 => key_name().prop_map(|a| format!("content.{a}")),
        1 => Just("extra".to_owned()),
    ];
    let scalar = prop_oneof![Just(Value::Null), any::<bool>().prop_map(Value::Bool), (-3i64..4).prop_map(|i| json!(i)), Just(json!("a")), Just(json!("m.text")), body().prop_map(Value::String)];
    prop_oneof![
        4 => (key.clone(), pattern()).prop_map(|(key, pattern)| Cond::EventMatch { key, pattern }),
        1 => Just(Cond::EventMatch { key: "room_id".into(), pattern: ROOMS[0].into() }),
        2 => Just(Cond::ContainsDisplayName),
        2 => (0u8..5, 0u32..6).prop_map(|(op, count)| Cond::RoomMemberCount { op, count }),
        2 => prop_oneof![4 => Just("room".to_owned()), 1 => Just("other".to_owned())].prop_map(|key| Cond::SenderNotificationPermission { key }),
        2 => (key.clone(), scalar.clone()).prop_map(|(key, value)| Cond::EventPropertyIs { key, value }),
        2 => (key, scalar).prop_map(|(key, value)| Cond::EventPropertyContains { key, value }),
    ]
}

/// Conditions aimed at properties the event actually has (so that `true` outcomes and
/// near-misses are frequent), next to the untargeted ones.
fn cond_for(paths: std::sync::Arc<Vec<(String, Flat)>>) -> BoxedStrategy<Cond> {
    if paths.is_empty() {
        return cond().boxed();
    }
    let targeted = (any::<u16>(), any::<u16>(), 0u8..6).prop_map(move |(sel, sub, how)| {
        let (key, val) = &paths[pick_idx(sel, paths.len())];
        match val {
            Flat::Str(v) => {
                let chars: Vec<char> = v.chars().collect();
                match how {
                    0 => Cond::EventMatch { key: key.clone(), pattern: v.clone() },
                    1 => Cond::EventMatch { key: key.clone(), pattern: v.to_uppercase() },
                    2 if !chars.is_empty() => {
                        // a word out of the middle, or a wildcarded version
                        let a = pick_idx(sub, chars.len());
                        let b = (a + 1 + (sub as usize % 4)).min(chars.len());
                        Cond::EventMatch { key: key.clone(), pattern: chars[a..b].iter().collect() }
                    }
                    3 if !chars.is_empty() => {
                        let a = pick_idx(sub, chars.len());
                        Cond::EventMatch { key: key.clone(), pattern: format!("{}*", chars[..a].iter().collect::<String>()) }
                    }
                    4 => Cond::EventPropertyIs { key: key.clone(), value: json!(v) },
                    _ => Cond::EventPropertyIs { key: key.clone(), value: json!(format!("{v}x")) },
                }
            }
            Flat::Arr(a) if !a.is_empty() => {
                let el = a[pick_idx(sub, a.len())].clone();
                if how == 0 {
                    Cond::EventPropertyContains { key: key.clone(), value: json!("not-a-member") }
                } else {
                    Cond::EventPropertyContains { key: key.clone(), value: el }
                }
            }
            Flat::Arr(_) => Cond::EventPropertyContains { key: key.clone(), value: Value::Null },
            Flat::Int(i) => Cond::EventPropertyIs { key: key.clone(), value: json!(if how % 2 == 0 { *i } else { *i + 1 }) },
            Flat::Bool(b) => Cond::EventPropertyIs { key: key.clone(), value: json!(if how % 2 == 0 { *b } else { !*b }) },
            Flat::Null => Cond::EventPropertyIs { key: key.clone(), value: if how % 2 == 0 { Value::Null } else { json!(false) } },
            Flat::EmptyObject => Cond::EventPropertyIs { key: key.clone(), value: Value::Null },
        }
    });
    prop_oneof![1 => cond(), 1 => targeted].boxed()
}

fn rule(paths: std::sync::Arc<Vec<(String, Flat)>>) -> impl Strategy<Value = RuleSpec> {
    (0u8..5, any::<u16>(), prop::bool::weighted(0.75), prop::collection::vec(cond_for(paths), 0..3), pattern(), any::<u8>()).prop_map(|(kind, idsel, enabled, conditions, pattern, tag)| {
        let id = match kind {
            2 => ROOMS[pick_idx(idsel, ROOMS.len())].to_owned(),
            3 => USERS[pick_idx(idsel, USERS.len())].to_owned(),
            1 => [".m.rule.contains_user_name", "c1", "c2", "c3"][pick_idx(idsel, 4)].to_owned(),
            _ => [".m.rule.master", ".m.rule.roomnotif", ".m.rule.contains_display_name", "r1", "r2", "r3", "r4"][pick_idx(idsel, 7)].to_owned(),
        };
        RuleSpec { kind, id, enabled, conditions, pattern, tag }
    })
}

pub fn run(ck: &mut Check) {
    ck.rule(
        "G2: every glob pattern over {a,b,space,*,?,-} up to a length bound x every value over {a,b,A,space,-,newline,e-acute} up to a length bound, in whole-value mode (ordinary key) and word-boundary mode (content.body), against a recursive glob matcher; \
         G1: longer random patterns/values incl. regex metacharacters; random rulesets (0-8 rules over all five kinds, enabled flags, all condition kinds with thresholds around the context's values), events with nested JSON, keys containing '.' and '\\\\', mentions, self-sent events; \
         oracle = reference flattening + condition evaluation + first-enabled-match in override, content, room, sender, underride order. Non-trivial: wildcard pattern or boundary-sensitive literal; rulesets where rules of two kinds match, a disabled rule exists next to a match, or the event is self-sent.",
    );
    ck.assume("word-boundary mode: a match needs, at each end, that not both neighbouring characters are word characters [A-Za-z0-9_]; empty patterns in word mode, display names that are empty or contain * or ?, and notification keys other than `room` are not asserted");
    ck.assume("room and sender rule ids are generated without glob metacharacters and in lower case (the spec defines those rules as equality)");
    let (pl, vl) = if ck.thorough() { (4, 5) } else { (3, 4) };
    let pats = std::sync::Arc::new(strings_over(&PAT_ALPHA, pl));
    let vals = std::sync::Arc::new(strings_over(&VAL_ALPHA, vl));
    ck.extra("glob_patterns", json!(pats.len()));
    ck.extra("glob_values", json!(vals.len()));
    {
        let (pats, vals) = (pats.clone(), vals.clone());
        ck.exhaustive(
            "glob_small_alphabet_exhaustive",
            true,
            move |s, n| {
                let vals = vals.clone();
                (0..vals.len()).skip(s as usize).step_by(n as usize).map(move |i| GlobCase { value: vals[i].clone(), patterns: vec![] })
            },
            move |c, cx| glob_oracle_with(&pats, c, cx),
        );
    }
    ck.floor("glob_small_alphabet_exhaustive", "adjacent_wildcards", 100);
    ck.floor("glob_small_alphabet_exhaustive", "newline_in_value", 100);
    let n = ck.n(60_000, 3_000_000);
    ck.prop("glob_random", n, || (body(), prop::collection::vec(pattern(), 1..4)).prop_map(|(value, patterns)| GlobCase { value, patterns }), |c, cx| glob_oracle_with(&[], c, cx));
    let n = ck.n(60_000, 3_000_000);
    ck.prop("ruleset_evaluation", n, || {
            (event(), ctx()).prop_flat_map(|(event, ctx)| {
                let paths = std::sync::Arc::new(ref_flatten(&event).into_iter().collect::<Vec<_>>());
                (prop::collection::vec(rule(paths), 0..8), Just(event), Just(ctx)).prop_map(|(rules, event, ctx)| EvalCase { rules, event, ctx })
            })
        }, eval_oracle);
    for cls in [
        "cond_event_match", "cond_contains_display_name", "cond_room_member_count", "cond_sender_notification_permission", "cond_event_property_is", "cond_event_property_contains",
        "condition_true", "self_sent_event", "some_rule_matches", "has_disabled_rule", "has_mentions", "escaped_key", "rules_of_two_kinds_match",
    ] {
        ck.floor("ruleset_evaluation", cls, 500);
    }
}
