//! Checks whose dependency cone is ruma-common + ruma-signatures: C01-C05, C10-C13.
use vf_engine::Check;

mod c01;
mod c02;
mod c03;
mod c04;
mod c05;
mod c10;
mod c11;
mod c12;
mod keys;
mod c13;

fn main() {
    let args: Vec<String> = std::env::args().skip(1).collect();
    let id = args.first().cloned().unwrap_or_default();
    let mut ck = Check::from_env(&id, &args[1.min(args.len())..]);
    match id.as_str() {
        "C01" => c01::run(&mut ck),
        "C02" => c02::run(&mut ck),
        "C03" => c03::run(&mut ck),
        "C04" => c04::run(&mut ck),
        "C05" => c05::run(&mut ck),
        "C10" => c10::run(&mut ck),
        "C11" => c11::run(&mut ck),
        "C12" => c12::run(&mut ck),
        "C13" => c13::run(&mut ck),
        _ => {
            eprintln!("vf-core: unknown property {id}");
            std::process::exit(2);
        }
    }
    ck.finish()
}
