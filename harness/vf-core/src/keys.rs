//! Ed25519 helpers on top of `ring` (independent of ruma's ed25519-dalek), and PKCS#8 documents.

use ring::signature::{Ed25519KeyPair as RingPair, KeyPair as _, UnparsedPublicKey, ED25519};

pub fn public_key(seed: &[u8; 32]) -> [u8; 32] {
    let kp = RingPair::from_seed_unchecked(seed).expect("32-byte seed");
    kp.public_key().as_ref().try_into().expect("32-byte public key")
}

pub fn ring_sign(seed: &[u8; 32], msg: &[u8]) -> Vec<u8> {
    RingPair::from_seed_unchecked(seed).expect("32-byte seed").sign(msg).as_ref().to_vec()
}

pub fn ring_verify(public: &[u8], msg: &[u8], sig: &[u8]) -> bool {
    UnparsedPublicKey::new(&ED25519, public).verify(msg, sig).is_ok()
}

/// PKCS#8 v1 (RFC 5208) PrivateKeyInfo for Ed25519: no public key.
pub fn der_v1(seed: &[u8; 32]) -> Vec<u8> {
    let mut d = vec![0x30, 0x2e, 0x02, 0x01, 0x00, 0x30, 0x05, 0x06, 0x03, 0x2b, 0x65, 0x70, 0x04, 0x22, 0x04, 0x20];
    d.extend_from_slice(seed);
    d
}

/// PKCS#8 v2 (RFC 5958) OneAsymmetricKey with the public key as [1] IMPLICIT BIT STRING.
pub fn der_v2(seed: &[u8; 32]) -> Vec<u8> {
    let mut d = vec![0x30, 0x51, 0x02, 0x01, 0x01, 0x30, 0x05, 0x06, 0x03, 0x2b, 0x65, 0x70, 0x04, 0x22, 0x04, 0x20];
    d.extend_from_slice(seed);
    d.extend_from_slice(&[0x81, 0x21, 0x00]);
    d.extend_from_slice(&public_key(seed));
    d
}

/// The document template `ring` 0.16 emitted (public key wrapped in an explicit context tag).
pub fn der_ring(seed: &[u8; 32]) -> Vec<u8> {
    let mut d = vec![0x30, 0x53, 0x02, 0x01, 0x01, 0x30, 0x05, 0x06, 0x03, 0x2b, 0x65, 0x70, 0x04, 0x22, 0x04, 0x20];
    d.extend_from_slice(seed);
    d.extend_from_slice(&[0xa1, 0x23, 0x03, 0x21, 0x00]);
    d.extend_from_slice(&public_key(seed));
    d
}

pub fn der(seed: &[u8; 32], form: u8) -> Vec<u8> {
    match form % 3 {
        0 => der_v1(seed),
        1 => der_v2(seed),
        _ => der_ring(seed),
    }
}

/// Start-up self-test of the hand-written SHA-256 / base64 against ring (and of ring's
/// sign/verify pair), so that a transcription error in the reference cannot pose as a finding.
/// Ed25519 seeds: uniformly random, and a share with byte sequences planted that mean something
/// to DER / PKCS#8 readers (ring's template marker, tags and lengths of the documents' own
/// fields) - a key is arbitrary bytes and must never be interpreted as structure.
pub fn seed32() -> impl proptest::strategy::Strategy<Value = [u8; 32]> {
    use proptest::prelude::*;
    const MAGIC: [&[u8]; 8] = [&[0xA1, 0x23, 0x03, 0x21], &[0xA1, 0x23, 0x03, 0x21, 0x00], &[0x81, 0x21, 0x00], &[0x30, 0x2e, 0x02, 0x01, 0x00], &[0x30, 0x53, 0x02, 0x01, 0x01], &[0x04, 0x22, 0x04, 0x20], &[0x06, 0x03, 0x2b, 0x65, 0x70], &[0xA0, 0x00]];
    prop_oneof![
        6 => any::<[u8; 32]>(),
        1 => (any::<[u8; 32]>(), 0usize..8, 0usize..32).prop_map(|(mut s, m, at)| {
            let m = MAGIC[m];
            let at = at.min(32 - m.len());
            s[at..at + m.len()].copy_from_slice(m);
            s
        }),
    ]
}

pub fn self_test() -> Result<(), String> {
    let mut data = vec![];
    for i in 0..300usize {
        data.push((i * 7 + 3) as u8);
        let mine = vf_ref::hash::sha256(&data);
        let theirs = ring::digest::digest(&ring::digest::SHA256, &data);
        if mine.as_slice() != theirs.as_ref() {
            return Err(format!("reference sha256 disagrees with ring at length {}", data.len()));
        }
        for url in [false, true] {
            let enc = vf_ref::hash::b64(&data, url);
            if vf_ref::hash::b64_decode(&enc, url).as_deref() != Some(&data[..]) || enc.contains('=') {
                return Err("reference base64 does not round-trip".into());
            }
        }
    }
    if vf_ref::hash::b64(&[0xfb, 0xff], false) != "+/8" || vf_ref::hash::b64(&[0xfb, 0xff], true) != "-_8" {
        return Err("reference base64 alphabets wrong".into());
    }
    let seed = [7u8; 32];
    let sig = ring_sign(&seed, b"msg");
    if !ring_verify(&public_key(&seed), b"msg", &sig) || ring_verify(&public_key(&seed), b"msh", &sig) {
        return Err("ring sign/verify self-test failed".into());
    }
    Ok(())
}
