//! C03 Event signatures survive redaction; required signers and hash status enforced.

use std::collections::{BTreeMap, BTreeSet};

use proptest::prelude::*;
use ruma_common::{canonical_json::redact, serde::Base64, CanonicalJsonValue};
use ruma_signatures::{hash_and_sign_event, verify_event, Ed25519KeyPair, PublicKeyMap, Verified};
use serde::{Deserialize, Serialize};
use vf_engine::{pick_idx, CaseCtx, Check};
use vf_ref::{
    cjson::{self, V},
    hash::{b64, b64_decode},
    pdu::{self, Pdu, SERVERS},
    redact as rref,
};

use crate::{
    c01::to_ref,
    c04::rules_for,
    c05::{apply_mutation, content_hash_form, to_obj, Mutation},
    keys::{der, public_key, ring_verify},
};

#[derive(Serialize, Deserialize, Debug, Clone)]
pub enum Post {
    None,
    /// a c05-style field mutation (covered / uncovered portions decide the expectation)
    Field(Mutation),
    DropRequiredSignature(u16),
    CorruptRequiredSignature(u16, u16),
    DropRequiredKey(u16),
    WrongKeyForRequired(u16),
    /// verify the redacted copy (0: reference redaction, 1: ruma's redact)
    Redact(u8),
}

#[derive(Serialize, Deserialize, Debug, Clone)]
pub struct EventCase {
    pub pdu: Pdu,
    pub seeds: [[u8; 32]; 3],
    pub der_form: u8,
    pub key_version: String,
    /// additionally sign with a server that is not required (when one is left)
    pub extra_signer: bool,
    /// whether the verifier knows the extra signer's key
    pub extra_key_known: bool,
    pub post: Post,
    /// what the event carries before hash_and_sign_event: 0 nothing; 1 a stale `hashes.sha256`
    /// string; 2 the hash of different content plus another algorithm's entry; 3 `hashes: {}`;
    /// 4 hashes and signatures left over from hashing+signing an earlier version of the event
    #[serde(default)]
    pub prior: u8,
    /// 0: one key per server; 1 / 2: every server signs with a second key as well whose id sorts
    /// before / after the first (key rotation); the verifier knows both keys
    #[serde(default)]
    pub two_keys: u8,
}

fn server_of_user(u: &str) -> Option<&str> {
    u.strip_prefix('@')?.split_once(':').map(|x| x.1)
}

/// Brings a generated PDU into the domain the property speaks about; returns false if a
/// correction was necessary (counted).
fn sanitize(e: &mut BTreeMap<String, V>) -> bool {
    let ty = e.get("type").and_then(|t| t.as_str()).unwrap_or("").to_owned();
    let mut clean = true;
    if let Some(V::Obj(content)) = e.get_mut("content") {
        let membership = content.get("membership").and_then(|m| m.as_str()).map(str::to_owned);
        let join = ty == "m.room.member" && membership.as_deref() == Some("join");
        let valid_auth = content.get("join_authorised_via_users_server").and_then(|a| a.as_str()).and_then(server_of_user).is_some();
        if content.contains_key("join_authorised_via_users_server") && !(join && valid_auth) {
            content.remove("join_authorised_via_users_server");
            clean = false;
        }
        if ty == "m.room.member" {
            if !matches!(content.get("membership"), Some(V::Str(_))) {
                content.insert("membership".into(), V::Str("join".into()));
                clean = false;
            }
            if !matches!(content.get("third_party_invite"), None | Some(V::Obj(_))) {
                content.remove("third_party_invite");
                clean = false;
            }
        }
    }
    clean
}

fn required_signers(v: u8, e: &BTreeMap<String, V>) -> Option<BTreeSet<String>> {
    let ty = e.get("type")?.as_str()?;
    let content = e.get("content")?.obj()?;
    let membership = content.get("membership").and_then(|m| m.as_str());
    let third_party_invite = ty == "m.room.member" && membership == Some("invite") && matches!(content.get("third_party_invite"), Some(V::Obj(_)));
    let mut out = BTreeSet::new();
    if !third_party_invite {
        out.insert(server_of_user(e.get("sender")?.as_str()?)?.to_owned());
    }
    if v <= 2 {
        let id = e.get("event_id")?.as_str()?;
        out.insert(id.split_once(':')?.1.to_owned());
    }
    if v >= 8 && ty == "m.room.member" && membership == Some("join") {
        if let Some(a) = content.get("join_authorised_via_users_server") {
            out.insert(server_of_user(a.as_str()?)?.to_owned());
        }
    }
    Some(out)
}

fn verdict(r: &Result<Verified, ruma_signatures::Error>) -> String {
    match r {
        Ok(Verified::All) => "Ok(All)".into(),
        Ok(Verified::Signatures) => "Ok(Signatures)".into(),
        Err(e) => format!("Err({e})"),
    }
}

pub fn oracle(c: &EventCase, cx: &mut CaseCtx) -> Result<(), String> {
    let v = c.pdu.version;
    let rules = rules_for(v);
    let mut e = c.pdu.event.clone();
    e.remove("signatures");
    e.remove("hashes");
    if !sanitize(&mut e) {
        cx.class("brought_into_domain");
    }
    let required = required_signers(v, &e).ok_or("harness: generated PDU lacks sender/event_id")?;
    let idx = |s: &str| SERVERS.iter().position(|x| *x == s).ok_or_else(|| format!("harness: unknown server {s}"));
    let mut signers: Vec<String> = required.iter().cloned().collect();
    let spare: Vec<&str> = SERVERS.iter().copied().filter(|s| !required.contains(*s)).collect();
    let mut extra: Option<String> = None;
    if (c.extra_signer || required.is_empty()) && !spare.is_empty() {
        extra = Some(spare[0].to_owned());
        signers.push(spare[0].to_owned());
    }
    if signers.is_empty() {
        return Ok(());
    }
    // sign
    let mut obj = to_obj(&e);
    let kid = format!("ed25519:{}", c.key_version);
    match c.prior % 5 {
        0 => {}
        1 => {
            obj.insert("hashes".into(), to_obj(&[("sha256".to_owned(), V::Str("c3RhbGUgaGFzaA".into()))].into_iter().collect()).into());
        }
        2 => {
            let other = b64(&vf_ref::hash::sha256(b"{}"), false);
            obj.insert("hashes".into(), to_obj(&[("sha256".to_owned(), V::Str(other)), ("md5".to_owned(), V::Str("AAAA".into()))].into_iter().collect()).into());
        }
        3 => {
            obj.insert("hashes".into(), to_obj(&BTreeMap::new()).into());
        }
        _ => {
            // hash + sign an earlier version (one more hashed top-level key), then edit
            let mut pre = e.clone();
            pre.insert("zz_earlier_version".into(), V::Int(1));
            let mut pre_obj = to_obj(&pre);
            for s in &signers {
                let kp = Ed25519KeyPair::from_der(&der(&c.seeds[idx(s)?], c.der_form), c.key_version.clone()).map_err(|e| format!("from_der: {e}"))?;
                hash_and_sign_event(s, &kp, &mut pre_obj, &rules.redaction).map_err(|e2| format!("hash_and_sign_event failed on a well-formed event (v{v}): {e2}"))?;
            }
            for k in ["hashes", "signatures"] {
                if let Some(x) = pre_obj.remove(k) {
                    obj.insert(k.into(), x);
                }
            }
        }
    }
    cx.class_if(c.prior % 5 != 0, "event_carried_hashes_before_signing");
    cx.class_if(c.prior % 5 == 4, "rehash_and_resign_after_edit");
    let mut map = PublicKeyMap::new();
    for s in &signers {
        let seed = &c.seeds[idx(s)?];
        let kp = Ed25519KeyPair::from_der(&der(seed, c.der_form), c.key_version.clone()).map_err(|e| format!("from_der: {e}"))?;
        hash_and_sign_event(s, &kp, &mut obj, &rules.redaction).map_err(|e2| format!("hash_and_sign_event failed on a well-formed event (v{v}): {e2}"))?;
        let known = Some(s) != extra.as_ref() || c.extra_key_known || required.is_empty();
        if known {
            map.entry(s.clone()).or_default().insert(kid.clone(), Base64::new(public_key(seed).to_vec()));
        }
        if c.two_keys % 3 != 0 {
            let mut seed2 = *seed;
            seed2.reverse();
            seed2[0] ^= 0x77;
            let v2 = if c.two_keys % 3 == 1 { format!("0{}", c.key_version) } else { format!("{}z", c.key_version) };
            let kp2 = Ed25519KeyPair::from_der(&der(&seed2, c.der_form), v2.clone()).map_err(|e| format!("from_der: {e}"))?;
            hash_and_sign_event(s, &kp2, &mut obj, &rules.redaction).map_err(|e2| format!("second hash_and_sign_event by {s} failed (v{v}): {e2}"))?;
            if known {
                map.entry(s.clone()).or_default().insert(format!("ed25519:{v2}"), Base64::new(public_key(&seed2).to_vec()));
            }
            let kid2 = format!("ed25519:{v2}");
            cx.class(if kid2 < kid { "second_key_id_sorts_first" } else { "second_key_id_sorts_last" });
        }
    }
    let signed = match to_ref(&CanonicalJsonValue::Object(obj.clone())) {
        V::Obj(m) => m,
        _ => unreachable!(),
    };
    // everything but hashes/signatures is as before
    {
        let mut s2 = signed.clone();
        s2.remove("hashes");
        s2.remove("signatures");
        if s2 != e {
            return Err("hash_and_sign_event changed fields other than hashes/signatures".into());
        }
    }
    // stored hash is the spec's content hash
    let want_hash = b64(&vf_ref::hash::sha256(&content_hash_form(&e)), false);
    let stored_hash = signed.get("hashes").and_then(|h| h.get("sha256")).and_then(|h| h.as_str()).unwrap_or("");
    if stored_hash != want_hash {
        return Err(format!("hashes.sha256 = {stored_hash:?}, the specification gives {want_hash:?}"));
    }
    // stored signatures verify under ring over the reference canonical JSON of the reference-redacted event
    let red = rref::redact(v, &signed).map_err(|_| "harness: signed event not redactable")?;
    let corner = red.tpi_without_signed || red.tpi_not_object;
    if corner {
        cx.class("v11_tpi_corner_unasserted");
    } else {
        let msg = cjson::canon_without(&red.event, &["signatures", "unsigned"]);
        for s in &signers {
            let sig = signed.get("signatures").and_then(|x| x.get(s)).and_then(|x| x.get(&kid)).and_then(|x| x.as_str()).ok_or_else(|| format!("signature of {s} not stored under signatures[{s}][{kid}]"))?;
            let raw = b64_decode(sig, false).ok_or("stored signature not base64")?;
            if !ring_verify(&public_key(&c.seeds[idx(s)?]), &msg, &raw) {
                return Err(format!("event signature of {s} (v{v}) is not a valid Ed25519 signature over the canonical JSON of the redacted event"));
            }
        }
    }
    let base = verify_event(&map, &obj, &rules);
    if !matches!(base, Ok(Verified::All)) {
        return Err(format!("verify_event right after hash_and_sign_event by every required server {required:?} (v{v}) = {}, expected Ok(All)", verdict(&base)));
    }
    let ty = e.get("type").and_then(|t| t.as_str()).unwrap_or("");
    cx.class(match v {
        1..=2 => "v1-2",
        3..=7 => "v3-7",
        8..=10 => "v8-10",
        _ => "v11",
    });
    cx.class_if(required.len() >= 2, "multi_signer_requirement");
    cx.class_if(required.is_empty(), "third_party_invite_no_sender_signature");
    cx.class_if(v >= 8 && e.get("content").and_then(|c| c.get("join_authorised_via_users_server")).is_some(), "restricted_join_authoriser");
    cx.class_if(extra.is_some() && !c.extra_key_known && !required.is_empty(), "extra_signature_without_key");
    let mut nontrivial = rref::SPECIAL_TYPES.contains(&ty) || required.len() >= 2;

    let req: Vec<&String> = required.iter().collect();
    let (mut_obj, mut_map, expect): (BTreeMap<String, V>, PublicKeyMap, Option<&str>) = match &c.post {
        Post::None => (signed.clone(), map.clone(), None),
        Post::Field(m) => match apply_mutation(v, &signed, m) {
            Some((e2, ccov, rcov)) if e2 != signed && !corner => {
                // mutations must not change who has to sign
                if required_signers(v, &e2).as_ref() != Some(&required) {
                    (signed.clone(), map.clone(), None)
                } else if rcov && required.is_empty() {
                    // third-party invite in v3+: the room version demands no server's signature,
                    // so nothing ties the kept fields to a key; outcome not asserted
                    cx.class("kept_field_mutation_without_required_signer_unasserted");
                    (signed.clone(), map.clone(), None)
                } else if rcov {
                    cx.class("mut_kept_field");
                    (e2, map.clone(), Some("Err"))
                } else if ccov {
                    cx.class("mut_stripped_hashed_field");
                    (e2, map.clone(), Some("Signatures"))
                } else {
                    cx.class("mut_unsigned_only");
                    (e2, map.clone(), Some("All"))
                }
            }
            _ => (signed.clone(), map.clone(), None),
        },
        Post::DropRequiredSignature(sel) if !req.is_empty() => {
            let s = req[pick_idx(*sel, req.len())];
            let mut e2 = signed.clone();
            if let Some(V::Obj(sigs)) = e2.get_mut("signatures") {
                sigs.remove(s);
            }
            cx.class("required_signature_missing");
            (e2, map.clone(), Some("Err"))
        }
        Post::CorruptRequiredSignature(sel, bit) if !req.is_empty() => {
            let s = req[pick_idx(*sel, req.len())];
            let mut e2 = signed.clone();
            if let Some(V::Obj(sigs)) = e2.get_mut("signatures") {
                if let Some(V::Obj(set)) = sigs.get_mut(s) {
                    if let Some(V::Str(sig)) = set.get(&kid).cloned() {
                        let mut raw = b64_decode(&sig, false).ok_or("b64")?;
                        let b = pick_idx(*bit, raw.len() * 8);
                        raw[b / 8] ^= 1 << (b % 8);
                        set.insert(kid.clone(), V::Str(b64(&raw, false)));
                    }
                }
            }
            cx.class("required_signature_corrupt");
            (e2, map.clone(), Some("Err"))
        }
        Post::DropRequiredKey(sel) if !req.is_empty() => {
            let s = req[pick_idx(*sel, req.len())];
            let mut m2 = map.clone();
            m2.remove(s);
            cx.class("required_key_missing");
            (signed.clone(), m2, Some("Err"))
        }
        Post::WrongKeyForRequired(sel) if !req.is_empty() => {
            let s = req[pick_idx(*sel, req.len())];
            let mut m2 = map.clone();
            m2.entry(s.clone()).or_default().insert(kid.clone(), Base64::new(public_key(&[0x5a; 32]).to_vec()));
            cx.class("required_key_wrong");
            (signed.clone(), m2, Some("Err"))
        }
        Post::Redact(which) if !corner => {
            let redacted = if *which % 2 == 0 {
                red.event.clone()
            } else {
                match to_ref(&CanonicalJsonValue::Object(redact(obj.clone(), &rules.redaction, None).map_err(|e2| format!("redact failed: {e2}"))?)) {
                    V::Obj(m) => m,
                    _ => unreachable!(),
                }
            };
            // Before v11 redaction strips `third_party_invite`, so the redacted copy of a
            // third-party invite no longer exempts the sender's server: the protocol itself then
            // demands a signature the original did not need. Not asserted.
            if required_signers(v, &redacted).as_ref() != Some(&required) {
                cx.class("redaction_changes_required_signers_unasserted");
                cx.nontrivial_if(nontrivial);
                return Ok(());
            }
            // `All` iff the redaction stripped nothing that the content hash covers
            let same_hash_form = content_hash_form(&redacted) == content_hash_form(&signed);
            cx.class(if same_hash_form { "redacted_copy_hash_still_valid" } else { "redacted_copy_hash_invalid" });
            (redacted, map.clone(), Some(if same_hash_form { "All" } else { "Signatures" }))
        }
        // the v11 corner (third_party_invite without `signed`): whether redaction leaves `{}` or
        // nothing is not spelled out, but whichever ruma does, its own redacted copy of the event it
        // signed must still carry valid signatures
        Post::Redact(_) => {
            let redacted = match to_ref(&CanonicalJsonValue::Object(redact(obj.clone(), &rules.redaction, None).map_err(|e2| format!("redact failed: {e2}"))?)) {
                V::Obj(m) => m,
                _ => unreachable!(),
            };
            if required_signers(v, &redacted).as_ref() != Some(&required) {
                cx.class("redaction_changes_required_signers_unasserted");
                cx.nontrivial_if(nontrivial);
                return Ok(());
            }
            cx.class("v11_tpi_corner_redacted_copy");
            (redacted, map.clone(), Some("NotErr"))
        }
        _ => (signed.clone(), map.clone(), None),
    };
    if let Some(exp) = expect {
        nontrivial = true;
        cx.more_evals(1);
        let r = verify_event(&mut_map, &to_obj(&mut_obj), &rules);
        let ok = match (exp, &r) {
            ("Err", Err(_)) => true,
            ("All", Ok(Verified::All)) => true,
            ("Signatures", Ok(Verified::Signatures)) => true,
            ("NotErr", Ok(_)) => true,
            _ => false,
        };
        if !ok {
            return Err(format!("verify_event after {:?} on a v{v} {ty} event (required signers {required:?}) = {}, expected {exp}", c.post, verdict(&r)));
        }
    }
    cx.nontrivial_if(nontrivial);
    Ok(())
}

pub fn run(ck: &mut Check) {
    if let Err(e) = crate::keys::self_test() {
        ck.infra_error(format!("reference self-test failed: {e}"));
        return;
    }
    ck.rule(
        "G1: well-formed PDUs of room versions 1-11 (rules through RoomVersionId::rules()), event types with version-specific redaction, arbitrary extra keys; signed with hash_and_sign_event by every server the version demands \
         (sender's, event-ID's in v1-2, authorising user's for restricted joins in v8+, none for third-party invites) plus optionally an unrelated server; then one post-signing change: field mutation in the kept / stripped-but-hashed / unsigned portion, \
         required signature dropped or corrupted, key dropped or replaced, or verification of the redacted copy (reference redaction and ruma's). Oracle: reference redaction + canonical JSON + SHA-256, ring as verifier. \
         Non-trivial = event type with version-dependent redaction, multi-signer requirement, or any post-signing change.",
    );
    ck.assume("join_authorised_via_users_server is generated only inside member-join contents with a valid user id (the spec's domain); other occurrences are removed and counted as brought_into_domain");
    let n = ck.n(100_000, 1_000_000);
    let post = || {
        let m = prop_oneof![
            3 => any::<u16>().prop_map(Mutation::ModifyTop),
            3 => any::<u16>().prop_map(Mutation::ModifyContent),
            1 => Just(Mutation::AddTop),
            1 => Just(Mutation::AddContent),
            2 => Just(Mutation::SetUnsigned),
            1 => Just(Mutation::SetSignatures),
            1 => Just(Mutation::SetHashes),
            1 => Just(Mutation::ModifyTpiSigned),
        ];
        prop_oneof![
            1 => Just(Post::None),
            8 => m.prop_map(Post::Field),
            1 => any::<u16>().prop_map(Post::DropRequiredSignature),
            1 => (any::<u16>(), any::<u16>()).prop_map(|(a, b)| Post::CorruptRequiredSignature(a, b)),
            1 => any::<u16>().prop_map(Post::DropRequiredKey),
            1 => any::<u16>().prop_map(Post::WrongKeyForRequired),
            4 => (0u8..2).prop_map(Post::Redact),
        ]
    };
    ck.prop(
        "sign_verify_events",
        n,
        move || {
            (pdu::pdu(), [crate::keys::seed32(), crate::keys::seed32(), crate::keys::seed32()], 0u8..3, "[A-Za-z0-9_]{1,6}", any::<bool>(), any::<bool>(), post(), prop_oneof![3 => Just(0u8), 1 => 1u8..5], prop_oneof![2 => Just(0u8), 1 => 1u8..3]).prop_map(|(pdu, seeds, der_form, key_version, extra_signer, extra_key_known, post, prior, two_keys)| EventCase {
                pdu,
                seeds,
                der_form,
                key_version,
                extra_signer,
                extra_key_known,
                post,
                prior,
                two_keys,
            })
        },
        oracle,
    );
    // the multi-signer situations get a generator of their own (they are < 1% of G1): restricted
    // joins authorised by a user of another server (v8-11), events whose id names another server
    // (v1-2), third-party invites - each with every attack on every required signer
    let n2 = ck.n(40_000, 400_000);
    ck.prop(
        "multi_signer_attacks",
        n2,
        move || {
            let attack = prop_oneof![
                1 => Just(Post::None),
                3 => any::<u16>().prop_map(Post::DropRequiredSignature),
                3 => (any::<u16>(), any::<u16>()).prop_map(|(a, b)| Post::CorruptRequiredSignature(a, b)),
                2 => any::<u16>().prop_map(Post::DropRequiredKey),
                2 => any::<u16>().prop_map(Post::WrongKeyForRequired),
                2 => (0u8..2).prop_map(Post::Redact),
            ];
            (pdu::pdu(), [crate::keys::seed32(), crate::keys::seed32(), crate::keys::seed32()], 0u8..3, "[A-Za-z0-9_]{1,6}", attack, 0u8..3, (1u8..=11, 0usize..3, 1usize..3, 0u8..4, any::<bool>())).prop_map(|(mut pdu, seeds, der_form, key_version, post, two_keys, (version, sender_srv, other_off, shape, flag))| {
                let e = &mut pdu.event;
                let sender = pdu::user(sender_srv, 1);
                let other = pdu::user(sender_srv + other_off, 2);
                e.insert("type".into(), V::Str("m.room.member".into()));
                e.insert("sender".into(), V::Str(sender.clone()));
                let mut content = BTreeMap::new();
                match shape {
                    // restricted join authorised via a user of another server
                    0 => {
                        pdu.version = 8 + version % 4;
                        content.insert("membership".to_owned(), V::Str("join".into()));
                        content.insert("join_authorised_via_users_server".to_owned(), V::Str(other.clone()));
                        e.insert("state_key".into(), V::Str(sender.clone()));
                    }
                    // invite created from a third-party invite
                    1 => {
                        pdu.version = version;
                        content.insert("membership".to_owned(), V::Str("invite".into()));
                        let mut t = BTreeMap::new();
                        t.insert("display_name".to_owned(), V::Str("d".into()));
                        t.insert("signed".to_owned(), V::Obj([("mxid".to_owned(), V::Str(other.clone())), ("token".to_owned(), V::Str("tok".into())), ("signatures".to_owned(), V::Obj(BTreeMap::new()))].into_iter().collect()));
                        content.insert("third_party_invite".to_owned(), V::Obj(t));
                        e.insert("state_key".into(), V::Str(other.clone()));
                    }
                    // member event carrying a third_party_invite without `signed` (kept as far as
                    // `signed` goes from v11 on: nothing of it is left), under every membership
                    3 => {
                        pdu.version = 9 + version % 3;
                        let membership = ["join", "leave", "ban", "invite", "knock"][(version as usize + other_off) % 5];
                        content.insert("membership".to_owned(), V::Str(membership.into()));
                        let mut t = BTreeMap::new();
                        if flag {
                            t.insert("display_name".to_owned(), V::Str("d".into()));
                        }
                        if sender_srv == 0 {
                            t.insert("x_extra".to_owned(), V::Int(1));
                        }
                        content.insert("third_party_invite".to_owned(), V::Obj(t));
                        e.insert("state_key".into(), V::Str(if membership == "join" || membership == "knock" { sender.clone() } else { other.clone() }));
                    }
                    // v1-2: event id on another server than the sender's
                    _ => {
                        pdu.version = 1 + version % 2;
                        content.insert("membership".to_owned(), V::Str(if flag { "join" } else { "leave" }.into()));
                        e.insert("state_key".into(), V::Str(sender.clone()));
                        e.insert("event_id".into(), V::Str(format!("$abc:{}", pdu::SERVERS[(sender_srv + other_off) % 3])));
                    }
                }
                if pdu.version >= 3 {
                    e.remove("event_id");
                } else if shape < 2 {
                    e.insert("event_id".into(), V::Str(format!("$own:{}", pdu::SERVERS[sender_srv % 3])));
                }
                e.insert("content".into(), V::Obj(content));
                EventCase { pdu, seeds, der_form, key_version, extra_signer: flag, extra_key_known: !flag, post, prior: 0, two_keys }
            })
        },
        oracle,
    );
    for cls in ["restricted_join_authoriser", "third_party_invite_no_sender_signature", "multi_signer_requirement", "required_signature_missing", "required_signature_corrupt", "required_key_missing", "required_key_wrong", "v1-2", "v8-10", "v11"] {
        ck.floor("multi_signer_attacks", cls, 300);
    }
    for cls in ["v1-2", "v3-7", "v8-10", "v11", "multi_signer_requirement", "third_party_invite_no_sender_signature", "restricted_join_authoriser", "mut_kept_field", "mut_stripped_hashed_field", "mut_unsigned_only", "required_signature_missing", "redacted_copy_hash_invalid", "redacted_copy_hash_still_valid", "extra_signature_without_key", "event_carried_hashes_before_signing", "rehash_and_resign_after_edit", "second_key_id_sorts_first", "second_key_id_sorts_last", "required_signature_corrupt"] {
        ck.floor("sign_verify_events", cls, 50);
    }
}
