//! C10 Identifier parsing is total, lossless and accepts only the spec's grammar.

use std::{rc::Rc, str::FromStr, sync::Arc};

use proptest::prelude::*;
use ruma_common::{
    AnyKeyName, Base64PublicKey, ClientSecret, CrossSigningKeyId, DeviceId, DeviceKeyAlgorithm, DeviceKeyId, EventId, MxcUri, OneTimeKeyAlgorithm, OneTimeKeyId,
    OneTimeKeyName, OwnedBase64PublicKey, OwnedClientSecret, OwnedCrossSigningKeyId, OwnedDeviceKeyId, OwnedEventId, OwnedOneTimeKeyId, OwnedRoomAliasId, OwnedRoomId,
    OwnedRoomOrAliasId, OwnedServerName, OwnedServerSigningKeyId, OwnedServerSigningKeyVersion, OwnedSessionId, OwnedSigningKeyId, OwnedUserId, RoomAliasId, RoomId,
    RoomOrAliasId, RoomVersionId, ServerName, ServerSigningKeyId, ServerSigningKeyVersion, SessionId, SigningKeyAlgorithm, SigningKeyId, TransactionId, UserId,
};
use serde::{Deserialize, Serialize};
use serde_json::{json, Value};
use vf_engine::{pick_idx, CaseCtx, Check};
use vf_ref::idgen::{self, Verdict};

#[derive(Serialize, Deserialize, Debug, Clone)]
pub struct IdCase {
    pub ty: String,
    pub s: String,
    /// how the string was produced (valid / mutant / boundary / random); informational
    pub origin: String,
}

pub const TYPES: &[&str] = &[
    "user", "room", "alias", "room_or_alias", "event", "server", "mxc", "signing_key_any", "server_signing_key", "device_key", "cross_signing_key", "one_time_key",
    "room_version", "client_secret", "session", "key_version", "b64pk", "device", "txn",
];

const EDIT_CHARS: &[char] = &['@', '!', '#', '$', ':', '[', ']', '.', '-', '+', '%', '\0', ' ', 'é', '0', '9', 'a', 'Z', '/', '_', '=', '\u{1F600}', '\n'];

fn key_name_for(ty: &str) -> BoxedStrategy<String> {
    match ty {
        "server_signing_key" => "[A-Za-z0-9_]{1,8}".boxed(),
        "cross_signing_key" => "[A-Za-z0-9+/]{43}".boxed(),
        _ => prop_oneof!["[A-Z]{10}", "[a-zA-Z0-9_:. é-]{0,10}"].boxed(),
    }
}

fn algorithm_for(ty: &str) -> BoxedStrategy<String> {
    match ty {
        "device_key" => prop_oneof![Just("ed25519".to_owned()), Just("curve25519".to_owned()), "[a-z0-9_.]{1,8}"].boxed(),
        "one_time_key" => prop_oneof![Just("signed_curve25519".to_owned()), "[a-z0-9_.]{1,8}"].boxed(),
        _ => prop_oneof![Just("ed25519".to_owned()), "[a-z0-9_.]{1,8}"].boxed(),
    }
}

fn valid_for(ty: &'static str) -> BoxedStrategy<String> {
    match ty {
        "user" => idgen::user_id().boxed(),
        "room" => idgen::room_id().boxed(),
        "alias" => idgen::room_alias_id().boxed(),
        "room_or_alias" => prop_oneof![idgen::room_id(), idgen::room_alias_id()].boxed(),
        "event" => idgen::event_id().boxed(),
        "server" => idgen::server_name().boxed(),
        "mxc" => idgen::mxc_uri().boxed(),
        "signing_key_any" | "server_signing_key" | "device_key" | "cross_signing_key" | "one_time_key" => {
            (algorithm_for(ty), key_name_for(ty)).prop_map(|(a, k)| format!("{a}:{k}")).boxed()
        }
        "room_version" => prop_oneof!["[1-9]", Just("10".to_owned()), Just("11".to_owned()), "[a-zA-Z0-9.-]{1,32}"].boxed(),
        "client_secret" | "session" => "[a-zA-Z0-9.=_-]{1,40}".boxed(),
        "key_version" => "[A-Za-z0-9_]{1,12}".boxed(),
        "b64pk" => "[A-Za-z0-9+/]{43}".boxed(),
        _ => "[ -~é]{0,16}".boxed(),
    }
}

#[derive(Debug, Clone)]
enum Edit {
    Insert(char),
    Delete,
    Replace(char),
    Duplicate,
}

fn edit() -> impl Strategy<Value = Edit> {
    // the hand-picked separators and hostile characters, or any ASCII byte at all (a character
    // class written as a byte range can be off by one character anywhere in the table)
    let ch = prop_oneof![any::<u16>().prop_map(|s| EDIT_CHARS[pick_idx(s, EDIT_CHARS.len())]), (0u8..128).prop_map(|b| b as char)];
    prop_oneof![ch.clone().prop_map(Edit::Insert), Just(Edit::Delete), ch.prop_map(Edit::Replace), Just(Edit::Duplicate)]
}

fn apply_edit(s: &str, pos: u16, e: &Edit) -> String {
    let chars: Vec<char> = s.chars().collect();
    let mut out: Vec<char> = chars.clone();
    match e {
        Edit::Insert(c) => out.insert(pick_idx(pos, chars.len() + 1), *c),
        Edit::Delete => {
            if !chars.is_empty() {
                out.remove(pick_idx(pos, chars.len()));
            }
        }
        Edit::Replace(c) => {
            if !chars.is_empty() {
                out[pick_idx(pos, chars.len())] = *c;
            }
        }
        Edit::Duplicate => {
            if !chars.is_empty() {
                let i = pick_idx(pos, chars.len());
                out.insert(i, chars[i]);
            }
        }
    }
    out.into_iter().collect()
}

/// Boundary constructions: total length and separator index around 255/256 and 511/512, with
/// optional multi-byte characters near the start (so that a truncated index lands inside one).
fn boundary_for(ty: &'static str) -> BoxedStrategy<String> {
    let target = prop_oneof![249usize..=260, 505usize..=516, 761usize..=772];
    let lead = prop_oneof![3 => Just(""), 1 => Just("é"), 1 => Just("aé"), 1 => Just("\u{1F600}"), 1 => Just("a\u{20AC}")];
    match ty {
        "user" | "room" | "alias" | "room_or_alias" | "event" => {
            let sigil = match ty {
                "user" => "@",
                "room" => "!",
                "alias" => "#",
                "event" => "$",
                _ => "!",
            };
            (target, lead, idgen::server_name(), any::<bool>(), any::<bool>())
                .prop_map(move |(total, lead, server, pad_in_server, alt_sigil)| {
                    let sigil = if ty == "room_or_alias" && alt_sigil { "#" } else { sigil };
                    // total = sigil + lead + pad + ':' + server
                    let fixed = 1 + lead.len() + 1 + server.len();
                    let pad = total.saturating_sub(fixed);
                    if pad_in_server {
                        // the long part is the (dns) server name
                        format!("{sigil}{lead}x:{}{server}", "a".repeat(pad.saturating_sub(1)))
                    } else {
                        format!("{sigil}{lead}{}:{server}", "a".repeat(pad))
                    }
                })
                .boxed()
        }
        "server" => (target, prop::option::of(idgen::port_text())).prop_map(|(t, p)| match p {
            Some(p) => format!("{}:{p}", "a".repeat(t)),
            None => "a".repeat(t),
        }).boxed(),
        "mxc" => (target, lead, "[A-Za-z0-9_-]{1,8}", any::<bool>())
            .prop_map(|(t, lead, media, bad_lead)| {
                // "mxc://" + host + "/" + media with the slash at index t
                let lead = if bad_lead { lead } else { "" };
                let host_len = t.saturating_sub(6 + lead.len());
                format!("mxc://{lead}{}/{media}", "a".repeat(host_len))
            })
            .boxed(),
        "signing_key_any" | "server_signing_key" | "device_key" | "cross_signing_key" | "one_time_key" => (target, lead, key_name_for(ty))
            .prop_map(|(t, lead, name)| {
                // algorithm of t bytes, colon at index t
                let pad = t.saturating_sub(lead.len());
                format!("{lead}{}:{name}", "a".repeat(pad))
            })
            .boxed(),
        "room_version" => (28usize..=36, any::<bool>()).prop_map(|(n, multi)| if multi { "é".repeat(n) } else { "1".repeat(n) }).boxed(),
        _ => (target, lead).prop_map(|(t, lead)| format!("{lead}{}", "a".repeat(t.saturating_sub(lead.len())))).boxed(),
    }
}

fn random_string() -> BoxedStrategy<String> {
    prop_oneof![
        prop::collection::vec(any::<u16>().prop_map(|s| EDIT_CHARS[pick_idx(s, EDIT_CHARS.len())]), 0..14).prop_map(|v| v.into_iter().collect::<String>()),
        "\\PC{0,12}",
        any::<String>(),
    ]
    .boxed()
}

/// Hosts that are almost one of the three permitted forms: brackets around something that is
/// not an IPv6 literal, unbalanced / doubled / empty brackets, zone ids, junk after the bracket,
/// malformed ports.
fn near_host() -> BoxedStrategy<String> {
    let v6 = || idgen::ipv6_bracketed().prop_map(|b| b.trim_start_matches('[').trim_end_matches(']').to_owned());
    prop_oneof![
        idgen::ipv4().prop_map(|a| format!("[{a}]")),
        idgen::ipv4().prop_map(|a| format!("[{a}]:8448")),
        v6().prop_map(|a| format!("[{a}")),
        v6().prop_map(|a| format!("{a}]")),
        v6().prop_map(|a| format!("[{a}]]")),
        v6().prop_map(|a| format!("[[{a}]]")),
        v6().prop_map(|a| format!("[{a}%eth0]")),
        v6().prop_map(|a| format!("[{a}]x")),
        v6().prop_map(|a| format!("[{a}]:")),
        v6().prop_map(|a| format!("[{a}]:+80")),
        v6().prop_map(|a| format!("[{a}]:65536")),
        v6().prop_map(|a| format!("[ {a}]")),
        Just("[]".to_owned()),
        Just("[g::1]".to_owned()),
        Just("[1::2::3]".to_owned()),
        Just("[0:0:0:0:0:0:0:0:0]".to_owned()),
        Just("[example.org]".to_owned()),
        idgen::ipv4().prop_map(|a| format!("{a}:80:80")),
        idgen::ipv4().prop_map(|a| format!("{a}:")),
    ]
    .boxed()
}

/// `valid` with its server part replaced by `host` (types without a server part: unchanged).
fn swap_server(ty: &str, valid: &str, host: &str) -> String {
    match ty {
        "server" => host.to_owned(),
        "mxc" => format!("mxc://{host}/{}", valid.rsplit('/').next().unwrap_or("m")),
        "user" | "room" | "alias" | "room_or_alias" | "event" => match valid.find(':') {
            Some(c) => format!("{}:{host}", &valid[..c]),
            None => format!("{valid}:{host}"),
        },
        _ => valid.to_owned(),
    }
}

fn case_for(ty: &'static str) -> BoxedStrategy<IdCase> {
    let v = valid_for(ty);
    prop_oneof![
        1 => (v.clone(), near_host()).prop_map(move |(s, h)| (swap_server(ty, &s, &h), "mutant_host")),
        3 => v.clone().prop_map(|s| (s, "valid")),
        4 => (v.clone(), any::<u16>(), edit()).prop_map(|(s, p, e)| (apply_edit(&s, p, &e), "mutant")),
        1 => (v, any::<u16>(), edit(), any::<u16>(), edit()).prop_map(|(s, p, e, p2, e2)| (apply_edit(&apply_edit(&s, p, &e), p2, &e2), "mutant2")),
        2 => boundary_for(ty).prop_map(|s| (s, "boundary")),
        1 => (boundary_for(ty), any::<u16>(), edit()).prop_map(|(s, p, e)| (apply_edit(&s, p, &e), "boundary_mutant")),
        1 => random_string().prop_map(|s| (s, "random")),
    ]
    .prop_map(move |(s, origin)| IdCase { ty: ty.to_owned(), s, origin: origin.to_owned() })
    .boxed()
}

/// Fixed valid identifiers per type (one plain, one using the rarer parts of the grammar), each
/// with every ASCII byte replacing or inserted before every character.
fn ascii_edit_space() -> impl Iterator<Item = IdCase> {
    const BASES: &[(&str, &[&str])] = &[
        ("user", &["@alice:example.org", "@a.b_c=d-e/f+1:[::1]:8448"]),
        ("room", &["!abcDEF:example.org", "!opaque"]),
        ("alias", &["#room:example.org", "#a b:1.2.3.4:80"]),
        ("room_or_alias", &["!abc:example.org", "#abc:example.org"]),
        ("event", &["$ev1:example.org", "$Rqnc-F-dvnEYJTyHq_iKxU2bZ1CI92-kuZq3a5lr5Zg", "$acR1l0raoZnm60CBwAVgqbZqoO/mYU81xysh1u7XcJk"]),
        ("server", &["example.org", "a-b.c:8448", "[2001:db8::1]:80", "1.2.3.4"]),
        ("mxc", &["mxc://example.org/Ab_9-z", "mxc://[::1]:8448/a"]),
        ("server_signing_key", &["ed25519:Ab_9"]),
        ("signing_key_any", &["ed25519:Ab_9"]),
        ("device_key", &["curve25519:DEVICEID", "ed25519:dev_1"]),
        ("cross_signing_key", &["ed25519:Yp2oZ+pYFmQ0Ya/3kNxSuE8DX1UfL8R0gNtsyFmAolc"]),
        ("one_time_key", &["signed_curve25519:AAAAHQ"]),
        ("room_version", &["1", "11", "org.example.v1"]),
        ("client_secret", &["abc.DEF=_-1"]),
        ("session", &["abc.DEF=_-1"]),
        ("key_version", &["Ab_9"]),
        ("b64pk", &["Yp2oZ+pYFmQ0Ya/3kNxSuE8DX1UfL8R0gNtsyFmAolc"]),
    ];
    BASES.iter().filter(|(ty, _)| TYPES.contains(ty)).flat_map(|(ty, bases)| {
        bases.iter().flat_map(move |base| {
            let chars: Vec<char> = base.chars().collect();
            (0..=chars.len()).flat_map(move |pos| {
                let chars = chars.clone();
                (0u8..128).flat_map(move |b| {
                    let mut out = vec![];
                    let mut ins = chars.clone();
                    ins.insert(pos, b as char);
                    out.push(IdCase { ty: (*ty).to_owned(), s: ins.into_iter().collect(), origin: "ascii_insert".to_owned() });
                    if pos < chars.len() {
                        let mut rep = chars.clone();
                        rep[pos] = b as char;
                        out.push(IdCase { ty: (*ty).to_owned(), s: rep.into_iter().collect(), origin: "ascii_replace".to_owned() });
                    }
                    out
                })
            })
        })
    })
}

pub fn id_case() -> BoxedStrategy<IdCase> {
    let weights: Vec<(u32, BoxedStrategy<IdCase>)> = TYPES
        .iter()
        .map(|t| {
            let w = match *t {
                "user" | "server" | "event" | "mxc" | "server_signing_key" => 4,
                "room" | "alias" | "room_or_alias" | "device_key" | "signing_key_any" => 3,
                _ => 1,
            };
            (w, case_for(t))
        })
        .collect();
    proptest::strategy::Union::new_weighted(weights).boxed()
}

/// All parsing forms must agree; returns the accepted owned value, if any.
macro_rules! parse_all {
    ($T:ty, $O:ty, $s:expr) => {{
        let s: &str = $s;
        let r_ref = <&$T>::try_from(s).map(|v| v.as_str().to_owned()).ok();
        let r_parse = <$T>::parse(s).map(|v| v.as_str().to_owned()).ok();
        let r_box = <$T>::parse_box(s).map(|v| v.as_str().to_owned()).ok();
        let r_rc: Option<String> = <$T>::parse_rc(Rc::<str>::from(s)).map(|v: Rc<$T>| v.as_str().to_owned()).ok();
        let r_arc: Option<String> = <$T>::parse_arc(Arc::<str>::from(s)).map(|v: Arc<$T>| v.as_str().to_owned()).ok();
        let r_fromstr = <$O>::from_str(s).map(|v| v.as_str().to_owned()).ok();
        let r_string = <$O>::try_from(s.to_owned()).map(|v| v.as_str().to_owned()).ok();
        let r_boxfromstr = Box::<$T>::from_str(s).map(|v| v.as_str().to_owned()).ok();
        let r_serde = serde_json::from_value::<$O>(Value::String(s.to_owned())).map(|v| v.as_str().to_owned()).ok();
        let r_serde_box = serde_json::from_str::<Box<$T>>(&serde_json::to_string(s).unwrap()).map(|v| v.as_str().to_owned()).ok();
        let all = [&r_ref, &r_parse, &r_box, &r_rc, &r_arc, &r_fromstr, &r_string, &r_boxfromstr, &r_serde, &r_serde_box];
        for (i, r) in all.iter().enumerate() {
            if **r != r_ref {
                return Err(format!("parsing forms disagree on {:?}: form#{i} gives {:?}, <&T>::try_from gives {:?}", s, r, r_ref));
            }
        }
        if let Some(stored) = &r_ref {
            if stored != s {
                return Err(format!("accepted id not stored byte-for-byte: {:?} -> {:?}", s, stored));
            }
        }
        match <$T>::parse(s) {
            Ok(o) => {
                let o: $O = o;
                if o.to_string() != s || AsRef::<str>::as_ref(&o) != s {
                    return Err(format!("Display/AsRef differ from input for {:?}", s));
                }
                if serde_json::to_value(&o).ok() != Some(Value::String(s.to_owned())) {
                    return Err(format!("serialisation of {:?} is not its JSON string", s));
                }
                Some(o)
            }
            Err(_) => None,
        }
    }};
}

fn verdict_check(ty: &str, s: &str, accepted: bool, v: Verdict, cx: &mut CaseCtx) -> Result<(), String> {
    match (v, accepted) {
        (Verdict::MustReject, true) => Err(format!("{ty}: accepted {s:?} which lacks the structure the spec requires")),
        (Verdict::MustAccept, false) => Err(format!("{ty}: rejected {s:?} which is in the spec's grammar")),
        (Verdict::Unasserted, _) => {
            cx.class("unasserted_grammar_gap");
            Ok(())
        }
        _ => Ok(()),
    }
}

fn check_server_accessors(full: &str, sn: &ServerName) -> Result<(), String> {
    let s = sn.as_str();
    let host = sn.host();
    let port = sn.port();
    let _ = sn.is_ip_literal();
    let Some((h, p)) = idgen::server_name_parts(s) else { return Err(format!("accepted server name {s:?} (in {full:?}) has no host/port structure")) };
    if host != h {
        return Err(format!("host() of {s:?} = {host:?}, expected {h:?}"));
    }
    if port.map(u32::from) != p {
        return Err(format!("port() of {s:?} = {port:?}, expected {p:?}"));
    }
    // recomposition: host + optional ":" + port text == s
    let rest = &s[host.len()..];
    if !(rest.is_empty() || rest.starts_with(':')) || host.len() + rest.len() != s.len() {
        return Err(format!("server name {s:?} does not recompose from host {host:?}"));
    }
    Ok(())
}

fn key_name_ok(ty: &str, name: &str) -> Verdict {
    match ty {
        "server_signing_key" => {
            if !name.is_empty() && name.bytes().all(|b| b.is_ascii_alphanumeric() || b == b'_') {
                Verdict::MustAccept
            } else if name.is_empty() || !name.chars().all(|c| c.is_alphanumeric() || c == '_') {
                Verdict::MustReject
            } else {
                Verdict::Unasserted
            }
        }
        "cross_signing_key" => {
            if name.len() == 43 && name.bytes().all(|b| b.is_ascii_alphanumeric() || b == b'+' || b == b'/') {
                Verdict::MustAccept
            } else if name.is_empty() || !name.chars().all(|c| c.is_alphanumeric() || matches!(c, '+' | '/' | '=')) {
                Verdict::MustReject
            } else {
                Verdict::Unasserted
            }
        }
        _ => Verdict::MustAccept,
    }
}

/// algorithm ":" name. Necessary: a colon exists and the part after the FIRST colon is a valid
/// key name for the type. An empty algorithm or an algorithm longer than 255 bytes is unasserted.
fn key_id_verdict(ty: &str, s: &str) -> Verdict {
    let Some(c) = s.find(':') else { return Verdict::MustReject };
    let v = key_name_ok(ty, &s[c + 1..]);
    if c == 0 || c > 255 {
        match v {
            Verdict::MustReject => Verdict::MustReject,
            _ => Verdict::Unasserted,
        }
    } else {
        v
    }
}

macro_rules! key_id_case {
    ($ty:expr, $T:ty, $O:ty, $s:expr, $cx:expr) => {{
        let s: &str = $s;
        let acc = parse_all!($T, $O, s);
        verdict_check($ty, s, acc.is_some(), key_id_verdict($ty, s), $cx)?;
        if let Some(k) = &acc {
            let c = s.find(':').ok_or_else(|| format!("accepted key id {s:?} without colon"))?;
            let alg = k.algorithm();
            let name = k.key_name();
            let (a, n): (&str, &str) = (alg.as_ref(), name.as_ref());
            if a != &s[..c] || n != &s[c + 1..] || format!("{a}:{n}") != s {
                return Err(format!("key id {s:?} decomposes into {a:?} / {n:?}"));
            }
        }
        acc.is_some()
    }};
}

pub fn oracle(c: &IdCase, cx: &mut CaseCtx) -> Result<(), String> {
    let s = c.s.as_str();
    let accepted: bool = match c.ty.as_str() {
        "user" => {
            let acc = parse_all!(UserId, OwnedUserId, s);
            verdict_check("user", s, acc.is_some(), idgen::user_id_verdict(s), cx)?;
            if let Some(u) = &acc {
                let (l, sn) = (u.localpart(), u.server_name());
                if format!("@{l}:{sn}") != s || l.contains(':') {
                    return Err(format!("user id {s:?} decomposes into {l:?} / {:?}", sn.as_str()));
                }
                check_server_accessors(s, sn)?;
                let _ = (u.validate_strict(), u.validate_historical(), u.is_historical());
            }
            acc.is_some()
        }
        "room" => {
            let acc = parse_all!(RoomId, OwnedRoomId, s);
            verdict_check("room", s, acc.is_some(), idgen::room_id_verdict(s), cx)?;
            if let Some(r) = &acc {
                if let Some(sn) = r.server_name() {
                    if !s.ends_with(sn.as_str()) || !s[..s.len() - sn.as_str().len()].ends_with(':') {
                        return Err(format!("room id {s:?} server_name() = {:?}", sn.as_str()));
                    }
                    // ruma documents server_name() as the part after the first colon if it is a
                    // valid server name; check it is one by the reference grammar
                    if idgen::server_name_verdict(sn.as_str()) == Verdict::MustReject {
                        return Err(format!("room id {s:?} exposes invalid server name {:?}", sn.as_str()));
                    }
                    check_server_accessors(s, sn)?;
                }
                let ra: &RoomOrAliasId = (&**r).into();
                if ra.as_str() != s || <&RoomOrAliasId>::try_from(ra.as_str()).is_err() {
                    return Err(format!("RoomOrAliasId built from room id {s:?} is not accepted by the parser"));
                }
            }
            acc.is_some()
        }
        "alias" => {
            let acc = parse_all!(RoomAliasId, OwnedRoomAliasId, s);
            verdict_check("alias", s, acc.is_some(), idgen::room_alias_id_verdict(s), cx)?;
            if let Some(a) = &acc {
                let (l, sn) = (a.alias(), a.server_name());
                if format!("#{l}:{sn}") != s || l.contains(':') {
                    return Err(format!("alias {s:?} decomposes into {l:?} / {:?}", sn.as_str()));
                }
                check_server_accessors(s, sn)?;
                let ra: &RoomOrAliasId = (&**a).into();
                if ra.as_str() != s || <&RoomOrAliasId>::try_from(ra.as_str()).is_err() {
                    return Err(format!("RoomOrAliasId built from alias {s:?} is not accepted by the parser"));
                }
            }
            acc.is_some()
        }
        "room_or_alias" => {
            let acc = parse_all!(RoomOrAliasId, OwnedRoomOrAliasId, s);
            verdict_check("room_or_alias", s, acc.is_some(), idgen::room_or_alias_id_verdict(s), cx)?;
            if let Some(r) = &acc {
                if r.is_room_id() == r.is_room_alias_id() || r.is_room_id() != s.starts_with('!') {
                    return Err(format!("room-or-alias {s:?} variant flags inconsistent"));
                }
                if let Some(sn) = r.server_name() {
                    check_server_accessors(s, sn)?;
                }
                // conversions to the specific types agree with the specific parsers
                let as_room = <&RoomId>::try_from(&**r).is_ok();
                let as_alias = <&RoomAliasId>::try_from(&**r).is_ok();
                if as_room != <&RoomId>::try_from(s).is_ok() || as_alias != <&RoomAliasId>::try_from(s).is_ok() || as_room == as_alias {
                    return Err(format!("room-or-alias {s:?}: conversions disagree with RoomId/RoomAliasId parsers"));
                }
            }
            acc.is_some()
        }
        "event" => {
            let acc = parse_all!(EventId, OwnedEventId, s);
            verdict_check("event", s, acc.is_some(), idgen::event_id_verdict(s), cx)?;
            if let Some(e) = &acc {
                let l = e.localpart();
                match e.server_name() {
                    Some(sn) => {
                        if format!("${l}:{sn}") != s {
                            return Err(format!("event id {s:?} decomposes into {l:?} / {:?}", sn.as_str()));
                        }
                        check_server_accessors(s, sn)?;
                    }
                    None => {
                        if format!("${l}") != s {
                            return Err(format!("event id {s:?} localpart() = {l:?}"));
                        }
                    }
                }
            }
            acc.is_some()
        }
        "server" => {
            let acc = parse_all!(ServerName, OwnedServerName, s);
            verdict_check("server", s, acc.is_some(), idgen::server_name_verdict(s), cx)?;
            if let Some(sn) = &acc {
                check_server_accessors(s, sn)?;
            }
            acc.is_some()
        }
        "mxc" => {
            let m: &MxcUri = s.into();
            if m.as_str() != s {
                return Err("MxcUri does not store the string".into());
            }
            let valid = m.validate().is_ok();
            if m.is_valid() != valid || m.parts().is_ok() != valid || m.server_name().is_ok() != valid || m.media_id().is_ok() != valid {
                return Err(format!("mxc accessors disagree on validity of {s:?}"));
            }
            verdict_check("mxc", s, valid, idgen::mxc_verdict(s), cx)?;
            if let Ok((sn, media)) = m.parts() {
                if format!("mxc://{sn}/{media}") != s || media.contains('/') {
                    return Err(format!("mxc {s:?} decomposes into {:?} / {media:?}", sn.as_str()));
                }
                check_server_accessors(s, sn)?;
            }
            let o: ruma_common::OwnedMxcUri = serde_json::from_value(Value::String(s.to_owned())).map_err(|e| e.to_string())?;
            if o.as_str() != s {
                return Err("OwnedMxcUri serde not lossless".into());
            }
            valid
        }
        "signing_key_any" => key_id_case!("signing_key_any", SigningKeyId<AnyKeyName>, OwnedSigningKeyId<AnyKeyName>, s, cx),
        "server_signing_key" => key_id_case!("server_signing_key", ServerSigningKeyId, OwnedServerSigningKeyId, s, cx),
        "device_key" => key_id_case!("device_key", DeviceKeyId, OwnedDeviceKeyId, s, cx),
        "cross_signing_key" => key_id_case!("cross_signing_key", CrossSigningKeyId, OwnedCrossSigningKeyId, s, cx),
        "one_time_key" => key_id_case!("one_time_key", OneTimeKeyId, OwnedOneTimeKeyId, s, cx),
        "room_version" => {
            let a = RoomVersionId::try_from(s).ok();
            let b = RoomVersionId::try_from(s.to_owned()).ok();
            let d = serde_json::from_value::<RoomVersionId>(Value::String(s.to_owned())).ok();
            if a != b || a != d {
                return Err(format!("room version forms disagree on {s:?}"));
            }
            if let Some(v) = &a {
                if v.as_str() != s || v.to_string() != s || serde_json::to_value(v).ok() != Some(json!(s)) {
                    return Err(format!("room version {s:?} not lossless"));
                }
                if s.is_empty() || s.chars().count() > 32 {
                    return Err(format!("room version {s:?} accepted outside 1..=32 code points"));
                }
            } else if !s.is_empty() && s.len() <= 32 && s.bytes().all(|b| b.is_ascii_alphanumeric() || b == b'.' || b == b'-') {
                return Err(format!("room version {s:?} in the spec grammar rejected"));
            }
            a.is_some()
        }
        "client_secret" => {
            let acc = parse_all!(ClientSecret, OwnedClientSecret, s);
            let simple = !s.is_empty() && s.len() <= 255 && s.bytes().all(|b| b.is_ascii_alphanumeric() || b".=_-".contains(&b));
            if simple != acc.is_some() && (simple || s.is_empty() || s.len() > 255) {
                return Err(format!("client secret {s:?}: accepted={} but grammar says {}", acc.is_some(), simple));
            }
            acc.is_some()
        }
        "session" => {
            let acc = parse_all!(SessionId, OwnedSessionId, s);
            let simple = !s.is_empty() && s.len() <= 255 && s.bytes().all(|b| b.is_ascii_alphanumeric() || b".=_-".contains(&b));
            if simple != acc.is_some() {
                return Err(format!("session id {s:?}: accepted={} but grammar says {}", acc.is_some(), simple));
            }
            acc.is_some()
        }
        "key_version" => {
            let acc = parse_all!(ServerSigningKeyVersion, OwnedServerSigningKeyVersion, s);
            verdict_check("key_version", s, acc.is_some(), key_name_ok("server_signing_key", s), cx)?;
            acc.is_some()
        }
        "b64pk" => {
            let acc = parse_all!(Base64PublicKey, OwnedBase64PublicKey, s);
            verdict_check("b64pk", s, acc.is_some(), key_name_ok("cross_signing_key", s), cx)?;
            acc.is_some()
        }
        "device" => {
            let d: &DeviceId = s.into();
            let o: ruma_common::OwnedDeviceId = serde_json::from_value(Value::String(s.to_owned())).map_err(|e| e.to_string())?;
            if d.as_str() != s || o.as_str() != s || serde_json::to_value(&o).ok() != Some(json!(s)) {
                return Err("DeviceId not lossless".into());
            }
            true
        }
        "txn" => {
            let d: &TransactionId = s.into();
            let o: ruma_common::OwnedTransactionId = serde_json::from_value(Value::String(s.to_owned())).map_err(|e| e.to_string())?;
            if d.as_str() != s || o.as_str() != s || serde_json::to_value(&o).ok() != Some(json!(s)) {
                return Err("TransactionId not lossless".into());
            }
            true
        }
        other => return Err(format!("harness: unknown type tag {other}")),
    };
    // classification
    let has_nontrivial_server = s.contains('[') || s.rsplit(':').next().map(|p| !p.is_empty() && p.bytes().all(|b| b.is_ascii_digit())).unwrap_or(false);
    cx.class_if(accepted, "accepted");
    cx.class_if(!accepted, "rejected");
    cx.class_if(accepted && s.contains('['), "ipv6");
    cx.class_if(accepted && has_nontrivial_server, "port_or_ip_forms");
    cx.class_if((249..=260).contains(&s.len()) || (505..=516).contains(&s.len()), "boundary_len");
    cx.class_if(s.find([':', '/']).map(|i| i >= 256).unwrap_or(false) || s.strip_prefix("mxc://").and_then(|r| r.find('/')).map(|i| i + 6 >= 256).unwrap_or(false), "sep_index_ge_256");
    cx.class_if(!s.is_ascii(), "non_ascii");
    cx.class_if(c.origin.starts_with("mutant") && !accepted, "rejected_mutant");
    cx.class_if(c.origin.starts_with("mutant") && accepted, "accepted_mutant");
    cx.nontrivial_if((accepted && (has_nontrivial_server || s.len() >= 250)) || (!accepted && c.origin.starts_with("mutant")) || c.origin.starts_with("boundary"));
    Ok(())
}

// ---------------------------------------------------------------------------------------------
// Constructors: every identifier built by a constructor is accepted by the parser.

#[derive(Serialize, Deserialize, Debug, Clone)]
pub struct CtorCase {
    pub ctor: String,
    pub a: String,
    pub b: String,
}

pub fn ctor_case() -> BoxedStrategy<CtorCase> {
    let long_server = (prop_oneof![1usize..40, 230usize..260], prop::option::of(idgen::port_text())).prop_map(|(n, p)| match p {
        Some(p) => format!("{}:{p}", "s".repeat(n)),
        None => "s".repeat(n),
    });
    let server = prop_oneof![3 => idgen::server_name().boxed(), 1 => long_server.boxed()];
    let local = prop_oneof![
        2 => idgen::user_localpart_strict().boxed(),
        2 => idgen::user_localpart_historical().boxed(),
        1 => "[a-z@:\\x00 é]{0,6}".boxed(),
        1 => idgen::user_id().boxed(),
        1 => (1usize..6, prop_oneof![Just(200usize), 240usize..260]).prop_map(|(_, n)| "l".repeat(n)).boxed(),
    ];
    prop_oneof![
        4 => (local, server.clone()).prop_map(|(a, b)| CtorCase { ctor: "UserId::parse_with_server_name".into(), a, b }),
        1 => server.clone().prop_map(|b| CtorCase { ctor: "UserId::new".into(), a: String::new(), b }),
        1 => server.clone().prop_map(|b| CtorCase { ctor: "RoomId::new".into(), a: String::new(), b }),
        1 => server.prop_map(|b| CtorCase { ctor: "EventId::new".into(), a: String::new(), b }),
        2 => (algorithm_for("device_key"), key_name_for("device_key")).prop_map(|(a, b)| CtorCase { ctor: "DeviceKeyId::from_parts".into(), a, b }),
        2 => (algorithm_for("server_signing_key"), key_name_for("server_signing_key")).prop_map(|(a, b)| CtorCase { ctor: "ServerSigningKeyId::from_parts".into(), a, b }),
        1 => (algorithm_for("one_time_key"), key_name_for("one_time_key")).prop_map(|(a, b)| CtorCase { ctor: "OneTimeKeyId::from_parts".into(), a, b }),
        1 => Just(CtorCase { ctor: "random_ctors".into(), a: String::new(), b: String::new() }),
    ]
    .boxed()
}

pub fn ctor_oracle(c: &CtorCase, cx: &mut CaseCtx) -> Result<(), String> {
    match c.ctor.as_str() {
        "UserId::parse_with_server_name" => {
            let Ok(server) = <&ServerName>::try_from(c.b.as_str()) else {
                cx.class("ctor_arg_rejected");
                return Ok(());
            };
            let r = UserId::parse_with_server_name(c.a.as_str(), server);
            let r_rc = UserId::parse_with_server_name_rc(c.a.as_str(), server);
            let r_arc = UserId::parse_with_server_name_arc(c.a.as_str(), server);
            let strs = [r.as_ref().ok().map(|u| u.as_str().to_owned()), r_rc.as_ref().ok().map(|u| u.as_str().to_owned()), r_arc.as_ref().ok().map(|u| u.as_str().to_owned())];
            if strs[0] != strs[1] || strs[0] != strs[2] {
                return Err(format!("parse_with_server_name variants disagree: {strs:?}"));
            }
            if let Some(built) = &strs[0] {
                cx.class("ctor_ok");
                cx.nontrivial_if(!c.a.starts_with('@'));
                cx.class_if(built.len() > 250, "ctor_long");
                if <&UserId>::try_from(built.as_str()).is_err() {
                    return Err(format!("UserId::parse_with_server_name({:?}, {:?}) built {:?} ({} bytes) which UserId::parse rejects", c.a, c.b, built, built.len()));
                }
            } else {
                cx.class("ctor_err");
            }
        }
        "UserId::new" | "RoomId::new" | "EventId::new" => {
            let Ok(server) = <&ServerName>::try_from(c.b.as_str()) else {
                cx.class("ctor_arg_rejected");
                return Ok(());
            };
            let (built, ok) = match c.ctor.as_str() {
                "UserId::new" => {
                    let u = UserId::new(server);
                    let ok = <&UserId>::try_from(u.as_str()).is_ok() && u.validate_strict().is_ok();
                    (u.as_str().to_owned(), ok)
                }
                "RoomId::new" => {
                    let u = RoomId::new(server);
                    (u.as_str().to_owned(), <&RoomId>::try_from(u.as_str()).is_ok())
                }
                _ => {
                    let u = EventId::new(server);
                    (u.as_str().to_owned(), <&EventId>::try_from(u.as_str()).is_ok())
                }
            };
            cx.class("ctor_ok");
            cx.nontrivial();
            if !ok {
                if built.len() > 255 && cx.known_finding("ctor_new_overlong", json!({"ctor": c.ctor, "server_name_len": c.b.len(), "built_len": built.len()})) {
                    return Ok(());
                }
                return Err(format!("{}({:?}) built {:?} ({} bytes) which its parser rejects", c.ctor, c.b, built, built.len()));
            }
        }
        "DeviceKeyId::from_parts" => {
            let k = DeviceKeyId::from_parts(DeviceKeyAlgorithm::from(c.a.as_str()), c.b.as_str().into());
            cx.class("ctor_ok");
            cx.nontrivial();
            let p = DeviceKeyId::parse(k.as_str()).map_err(|e| format!("DeviceKeyId::from_parts({:?},{:?}) = {:?} rejected by parser: {e}", c.a, c.b, k.as_str()))?;
            if !c.a.contains(':') && (p.algorithm().as_ref() != c.a || p.key_name().as_str() != c.b) {
                return Err(format!("DeviceKeyId::from_parts({:?},{:?}) does not decompose back", c.a, c.b));
            }
        }
        "ServerSigningKeyId::from_parts" => {
            let Ok(ver) = <&ServerSigningKeyVersion>::try_from(c.b.as_str()) else {
                cx.class("ctor_arg_rejected");
                return Ok(());
            };
            let k = ServerSigningKeyId::from_parts(SigningKeyAlgorithm::from(c.a.as_str()), ver);
            cx.class("ctor_ok");
            cx.nontrivial();
            let p = ServerSigningKeyId::parse(k.as_str()).map_err(|e| format!("ServerSigningKeyId::from_parts({:?},{:?}) = {:?} rejected by parser: {e}", c.a, c.b, k.as_str()))?;
            if p.algorithm().as_ref() != c.a || p.key_name().as_str() != c.b {
                return Err(format!("ServerSigningKeyId::from_parts({:?},{:?}) does not decompose back", c.a, c.b));
            }
        }
        "OneTimeKeyId::from_parts" => {
            let name: &OneTimeKeyName = c.b.as_str().into();
            let k = OneTimeKeyId::from_parts(OneTimeKeyAlgorithm::from(c.a.as_str()), name);
            cx.class("ctor_ok");
            cx.nontrivial();
            OneTimeKeyId::parse(k.as_str()).map_err(|e| format!("OneTimeKeyId::from_parts({:?},{:?}) = {:?} rejected by parser: {e}", c.a, c.b, k.as_str()))?;
        }
        "random_ctors" => {
            // OS-random constructors: the asserted predicate (output parses) does not depend on
            // the drawn value.
            let cs = ClientSecret::new();
            <&ClientSecret>::try_from(cs.as_str()).map_err(|e| format!("ClientSecret::new() = {:?} rejected: {e}", cs.as_str()))?;
            let _ = (DeviceId::new(), TransactionId::new());
            cx.class("ctor_ok");
        }
        other => return Err(format!("harness: unknown ctor {other}")),
    }
    Ok(())
}

pub fn run(ck: &mut Check) {
    ck.rule(
        "G1: per identifier type, strings from (a) the spec grammar, (b) 1-2 single-character edits of those over a sigil/colon/bracket/NUL/non-ASCII alphabet, \
         (c) boundary constructions with total length / separator index around 255, 511 and 767 bytes incl. multi-byte lead characters, (d) unstructured strings; \
         constructors with generated arguments. Non-trivial = accepted id with port/IP-literal server part or >= 250 bytes, or a rejected mutant, or a boundary construction; \
         distinct by (type, string).",
    );
    ck.assume("std's Ipv6Addr parser decides IPv6 literal validity in the reference grammar");
    ck.assume("ports 65536-99999, server-less room ids, empty localparts, empty/over-255-byte key algorithms and standalone server-name length are not asserted (spec silent)");
    let n = ck.n(1_600_000, 40_000_000);
    ck.prop("ids", n, id_case, oracle);
    ck.floor("ids", "boundary_len", 1000);
    ck.floor("ids", "sep_index_ge_256", 300);
    ck.floor("ids", "ipv6", 300);
    ck.floor("ids", "port_or_ip_forms", 1000);
    ck.floor("ids", "non_ascii", 1000);
    ck.floor("ids", "rejected_mutant", 1000);
    ck.floor("ids", "accepted_mutant", 1000);
    // every single-byte ASCII replacement and insertion at every position of fixed valid ids
    ck.exhaustive("ascii_single_edits", true, |s, n| ascii_edit_space().skip(s as usize).step_by(n as usize), oracle);
    let n = ck.n(100_000, 2_000_000);
    ck.prop("constructors", n, ctor_case, ctor_oracle);
    ck.floor("constructors", "ctor_ok", 1000);
    ck.floor("constructors", "ctor_long", 50);
}
