//! C02 JSON signing is interoperable Ed25519 and verification is sound.

use std::collections::BTreeMap;

use proptest::prelude::*;
use ruma_common::{serde::Base64, CanonicalJsonObject, SigningKeyAlgorithm};
use ruma_signatures::{sign_json, verify_canonical_json_bytes, verify_json, Ed25519KeyPair, PublicKeyMap};
use serde::{Deserialize, Serialize};
use vf_engine::{pick_idx, CaseCtx, Check};
use vf_ref::{
    cjson::{self, V},
    hash::{b64, b64_decode},
    idgen,
};

use crate::{
    c01::to_ref,
    c05::to_obj,
    keys::{der, public_key, ring_sign, ring_verify},
};

#[derive(Serialize, Deserialize, Debug, Clone)]
pub struct Signer {
    pub entity: String,
    pub version: String,
    pub seed: [u8; 32],
    /// 0 PKCS#8 v1, 1 v2 with public key, 2 ring template
    pub der_form: u8,
}

#[derive(Serialize, Deserialize, Debug, Clone)]
pub enum Tamper {
    None,
    FlipSigBit { which: u16, bit: u16 },
    FlipKeyBit { which: u16, bit: u8 },
    /// change / insert / delete / rename a leaf in the signed part
    ChangeLeaf { sel: u16, kind: u8 },
    SwapValues { a: u16, b: u16 },
    AddEntityWithCopiedSig { from: u16 },
    ReplaceSigWithOtherEntitys { a: u16, b: u16 },
    RemoveKeyFromMap { which: u16 },
    WrongKeyForEntity { a: u16, b: u16 },
    /// the entity keeps only a signature of an unknown algorithm / with an unparseable key id
    OnlyUnsupportedSig { which: u16, unparseable: bool },
    /// bytes appended to a stored signature (re-encoded) / to the verifier's copy of a public key
    ExtendSig { which: u16, extra: u8 },
    ExtendKey { which: u16, extra: u8 },
    /// the verifier has no key entry at all for one of the signing entities
    RemoveEntityFromMap { which: u16 },
    /// an entity the verifier has no keys for is added to `signatures`
    AddEntityWithoutKeys { from: u16, garbage: bool },
    // neutral
    ChangeUnsigned,
    AddUnknownAlgorithmSig { which: u16 },
}

#[derive(Serialize, Deserialize, Debug, Clone)]
pub struct SignCase {
    pub object: BTreeMap<String, V>,
    pub unsigned: Option<V>,
    pub signers: Vec<Signer>,
    /// indices into `signers` (monotone mapping), one sign_json call each
    pub history: Vec<u16>,
    pub tamper: Tamper,
    /// 0: object as generated; 1..=6: padded so that the signed canonical JSON is 65535 + (pad - 3)
    /// bytes long (the event size limit, which does not apply to sign_json / verify_json);
    /// 7, 8: padded to roughly 100 kB / 250 kB
    #[serde(default)]
    pub pad: u8,
}

fn keypair(s: &Signer) -> Result<Ed25519KeyPair, String> {
    let kp = Ed25519KeyPair::from_der(&der(&s.seed, s.der_form), s.version.clone()).map_err(|e| format!("from_der rejected a valid PKCS#8 document (form {}): {e}", s.der_form % 3))?;
    if kp.public_key() != public_key(&s.seed) {
        return Err(format!("public key derived by ruma differs from ring's for the same seed (document form {})", s.der_form % 3));
    }
    if kp.version() != s.version {
        return Err("key pair version not preserved".into());
    }
    Ok(kp)
}

fn signed_part(o: &BTreeMap<String, V>) -> Vec<u8> {
    cjson::canon_without(o, &["signatures", "unsigned"])
}

fn key_map(signers: &[&Signer]) -> PublicKeyMap {
    let mut m = PublicKeyMap::new();
    for s in signers {
        // later signers with the same (entity, key id) replace earlier ones, as in the object
        m.entry(s.entity.clone()).or_default().insert(format!("ed25519:{}", s.version), Base64::new(public_key(&s.seed).to_vec()));
    }
    m
}

fn obj_ref(o: &CanonicalJsonObject) -> BTreeMap<String, V> {
    match to_ref(&ruma_common::CanonicalJsonValue::Object(o.clone())) {
        V::Obj(m) => m,
        _ => unreachable!(),
    }
}

/// (entity, key id) pairs currently stored with an ed25519 signature, in order.
fn stored_sigs(o: &BTreeMap<String, V>) -> Vec<(String, String, String)> {
    let mut out = vec![];
    if let Some(V::Obj(sigs)) = o.get("signatures") {
        for (ent, set) in sigs {
            if let V::Obj(set) = set {
                for (kid, sig) in set {
                    if let (true, V::Str(sig)) = (kid.starts_with("ed25519:"), sig) {
                        out.push((ent.clone(), kid.clone(), sig.clone()));
                    }
                }
            }
        }
    }
    out
}

fn set_sig(o: &mut BTreeMap<String, V>, ent: &str, kid: &str, val: V) {
    if let Some(V::Obj(sigs)) = o.get_mut("signatures") {
        let set = sigs.entry(ent.to_owned()).or_insert_with(|| V::Obj(BTreeMap::new()));
        if let V::Obj(set) = set {
            set.insert(kid.to_owned(), val);
        }
    }
}

/// Paths of leaves (and containers) in the signed part.
fn leaf_paths(v: &BTreeMap<String, V>) -> Vec<Vec<String>> {
    fn rec(v: &V, cur: &mut Vec<String>, out: &mut Vec<Vec<String>>) {
        out.push(cur.clone());
        match v {
            V::Obj(m) => {
                for (k, x) in m {
                    cur.push(k.clone());
                    rec(x, cur, out);
                    cur.pop();
                }
            }
            V::Arr(a) => {
                for (i, x) in a.iter().enumerate() {
                    cur.push(i.to_string());
                    rec(x, cur, out);
                    cur.pop();
                }
            }
            _ => {}
        }
    }
    let mut out = vec![];
    for (k, x) in v {
        if k == "signatures" || k == "unsigned" {
            continue;
        }
        rec(x, &mut vec![k.clone()], &mut out);
    }
    out
}

fn get_mut<'a>(root: &'a mut BTreeMap<String, V>, path: &[String]) -> Option<&'a mut V> {
    let mut cur = root.get_mut(&path[0])?;
    for p in &path[1..] {
        cur = match cur {
            V::Obj(m) => m.get_mut(p)?,
            V::Arr(a) => a.get_mut(p.parse::<usize>().ok()?)?,
            _ => return None,
        };
    }
    Some(cur)
}

fn bump(v: &V) -> V {
    match v {
        V::Int(i) => V::Int(if *i > 0 { i - 1 } else { i + 1 }),
        V::Str(s) => V::Str(format!("{s}x")),
        V::Bool(b) => V::Bool(!b),
        V::Null => V::Bool(false),
        V::Arr(a) => {
            let mut a = a.clone();
            a.push(V::Null);
            V::Arr(a)
        }
        V::Obj(m) => {
            let mut m = m.clone();
            m.insert("zz_tampered".into(), V::Null);
            V::Obj(m)
        }
    }
}

pub fn oracle(c: &SignCase, cx: &mut CaseCtx) -> Result<(), String> {
    if c.signers.is_empty() {
        return Ok(());
    }
    let mut model = c.object.clone();
    model.remove("signatures");
    model.remove("unsigned");
    if let Some(u) = &c.unsigned {
        model.insert("unsigned".into(), u.clone());
    }
    if c.pad != 0 {
        model.remove("zz_pad");
        let base = {
            let mut m = model.clone();
            m.insert("zz_pad".into(), V::Str(String::new()));
            signed_part(&m).len()
        };
        let target = match c.pad {
            1..=6 => 65535 + c.pad as usize - 3,
            7 => 100_000,
            _ => 250_000,
        };
        model.insert("zz_pad".into(), V::Str("p".repeat(target.saturating_sub(base))));
        let len = signed_part(&model).len();
        cx.class_if(len > 65535, "signed_json_larger_than_65535_bytes");
        cx.class_if(len == 65535 || len == 65536, "signed_json_at_event_size_limit");
    }
    let mut obj = to_obj(&model);
    let mut used: Vec<&Signer> = vec![];
    for sel in &c.history {
        let s = &c.signers[pick_idx(*sel, c.signers.len())];
        let kp = keypair(s)?;
        let msg = signed_part(&model);
        let sig = ring_sign(&s.seed, &msg);
        // model update
        {
            let sigs = model.entry("signatures".into()).or_insert_with(|| V::Obj(BTreeMap::new()));
            let V::Obj(sigs) = sigs else { unreachable!() };
            let set = sigs.entry(s.entity.clone()).or_insert_with(|| V::Obj(BTreeMap::new()));
            let V::Obj(set) = set else { unreachable!() };
            set.insert(format!("ed25519:{}", s.version), V::Str(b64(&sig, false)));
        }
        sign_json(&s.entity, &kp, &mut obj).map_err(|e| format!("sign_json failed on a well-formed object: {e}"))?;
        let got = obj_ref(&obj);
        if got != model {
            return Err(format!(
                "after sign_json by {:?}/{:?} the object is not (object before) + signatures[entity][\"ed25519:<version>\"] = unpadded base64 of the RFC 8032 signature over the canonical JSON without signatures/unsigned: got signatures {:?}, expected {:?}; unsigned {:?} vs {:?}",
                s.entity,
                s.version,
                got.get("signatures"),
                model.get("signatures"),
                got.get("unsigned"),
                model.get("unsigned")
            ));
        }
        used.retain(|u| !(u.entity == s.entity && u.version == s.version));
        used.push(s);
    }
    if used.is_empty() {
        return Ok(());
    }
    // interop: ring verifies every stored signature over the reference canonical bytes
    let msg = signed_part(&model);
    for (ent, kid, sig) in stored_sigs(&model) {
        let signer = used.iter().find(|s| s.entity == ent && format!("ed25519:{}", s.version) == kid).ok_or("harness: signer not found")?;
        let raw = b64_decode(&sig, false).ok_or("stored signature is not standard base64")?;
        if sig.contains('=') || !ring_verify(&public_key(&signer.seed), &msg, &raw) {
            return Err(format!("stored signature of {ent}/{kid} is not a valid unpadded-base64 Ed25519 signature of the canonical JSON under ring"));
        }
        // low-level verification agrees with ring, also on a wrong message
        let ok = verify_canonical_json_bytes(&SigningKeyAlgorithm::Ed25519, &public_key(&signer.seed), &raw, &msg).is_ok();
        let mut wrong = msg.clone();
        wrong.push(b' ');
        let bad = verify_canonical_json_bytes(&SigningKeyAlgorithm::Ed25519, &public_key(&signer.seed), &raw, &wrong).is_ok();
        if !ok || bad {
            return Err(format!("verify_canonical_json_bytes disagrees with ring: valid triple -> {ok}, altered message -> {bad}"));
        }
    }
    let map = key_map(&used);
    verify_json(&map, &obj).map_err(|e| format!("verify_json with the matching keys failed after signing: {e}"))?;
    let nsig = stored_sigs(&model).len();
    let nested = model.values().any(|v| matches!(v, V::Obj(_) | V::Arr(_)));
    cx.class_if(nsig >= 2, "multi_signature");
    cx.class_if(used.iter().any(|s| s.der_form % 3 == 2), "ring_template_key");
    cx.class_if(used.iter().any(|s| s.der_form % 3 == 1), "pkcs8_v2_key");
    cx.class_if(c.unsigned.is_some(), "with_unsigned");
    cx.class_if(used.iter().any(|s| !s.version.chars().all(|ch| ch.is_ascii_alphanumeric() || ch == '_')), "key_version_with_other_characters");
    let mut nontrivial = nsig >= 2 && nested;

    // tampering
    let sigs = stored_sigs(&model);
    let mut t = model.clone();
    let mut tmap = map.clone();
    let expect_ok: Option<bool> = match &c.tamper {
        Tamper::None => None,
        Tamper::FlipSigBit { which, bit } => {
            let (ent, kid, sig) = &sigs[pick_idx(*which, sigs.len())];
            let mut raw = b64_decode(sig, false).ok_or("b64")?;
            let b = pick_idx(*bit, raw.len() * 8);
            raw[b / 8] ^= 1 << (b % 8);
            set_sig(&mut t, ent, kid, V::Str(b64(&raw, false)));
            cx.class("tamper_signature_bit");
            Some(false)
        }
        Tamper::FlipKeyBit { which, bit } => {
            let (ent, kid, _) = &sigs[pick_idx(*which, sigs.len())];
            let old = tmap[ent][kid].as_bytes().to_vec();
            let mut k = old.clone();
            k[(*bit as usize / 8) % 32] ^= 1 << (bit % 8);
            tmap.get_mut(ent).unwrap().insert(kid.clone(), Base64::new(k));
            cx.class("tamper_key_bit");
            Some(false)
        }
        Tamper::ChangeLeaf { sel, kind } => {
            let paths = leaf_paths(&t);
            match kind % 4 {
                0 if !paths.is_empty() => {
                    let p = &paths[pick_idx(*sel, paths.len())];
                    let slot = get_mut(&mut t, p).ok_or("path")?;
                    *slot = bump(slot);
                }
                1 => {
                    // insert a new top-level key
                    t.insert("zz_inserted".into(), V::Int(1));
                }
                2 => {
                    // delete a top-level key of the signed part
                    let keys: Vec<String> = t.keys().filter(|k| *k != "signatures" && *k != "unsigned").cloned().collect();
                    if keys.is_empty() {
                        t.insert("zz_inserted".into(), V::Int(1));
                    } else {
                        t.remove(&keys[pick_idx(*sel, keys.len())]);
                    }
                }
                _ => {
                    // rename a top-level key
                    let keys: Vec<String> = t.keys().filter(|k| *k != "signatures" && *k != "unsigned").cloned().collect();
                    if keys.is_empty() {
                        t.insert("zz_inserted".into(), V::Int(1));
                    } else {
                        let k = &keys[pick_idx(*sel, keys.len())];
                        let v = t.remove(k).unwrap();
                        t.insert(format!("{k}_renamed"), v);
                    }
                }
            }
            cx.class("tamper_signed_content");
            if signed_part(&t) == msg {
                None
            } else {
                Some(false)
            }
        }
        Tamper::SwapValues { a, b } => {
            let keys: Vec<String> = t.keys().filter(|k| *k != "signatures" && *k != "unsigned").cloned().collect();
            if keys.len() < 2 {
                None
            } else {
                let (ka, kb) = (keys[pick_idx(*a, keys.len())].clone(), keys[pick_idx(*b, keys.len())].clone());
                let (va, vb) = (t[&ka].clone(), t[&kb].clone());
                t.insert(ka, vb);
                t.insert(kb, va);
                cx.class("tamper_signed_content");
                if signed_part(&t) == msg {
                    None
                } else {
                    Some(false)
                }
            }
        }
        Tamper::AddEntityWithCopiedSig { from } => {
            let (_, kid, sig) = &sigs[pick_idx(*from, sigs.len())];
            set_sig(&mut t, "evil.example", kid, V::Str(sig.clone()));
            // the verifier knows a (different) key for the new entity
            tmap.entry("evil.example".into()).or_default().insert(kid.clone(), Base64::new(public_key(&[0x42; 32]).to_vec()));
            cx.class("tamper_entity_added");
            Some(false)
        }
        Tamper::ReplaceSigWithOtherEntitys { a, b } => {
            let (ea, ka, sa) = &sigs[pick_idx(*a, sigs.len())];
            let (_, _, sb) = &sigs[pick_idx(*b, sigs.len())];
            if sa == sb {
                None
            } else {
                set_sig(&mut t, ea, ka, V::Str(sb.clone()));
                cx.class("tamper_signature_swapped");
                Some(false)
            }
        }
        Tamper::RemoveKeyFromMap { which } => {
            let (ent, kid, _) = &sigs[pick_idx(*which, sigs.len())];
            tmap.get_mut(ent).unwrap().remove(kid);
            cx.class("tamper_key_missing");
            Some(false)
        }
        Tamper::ExtendSig { which, extra } => {
            let (ent, kid, sig) = &sigs[pick_idx(*which, sigs.len())];
            let mut raw = b64_decode(sig, false).ok_or("b64")?;
            raw.extend(std::iter::repeat(*extra).take(1 + (*extra as usize) % 9));
            set_sig(&mut t, ent, kid, V::Str(b64(&raw, false)));
            cx.class("tamper_length_extension");
            Some(false)
        }
        Tamper::ExtendKey { which, extra } => {
            let (ent, kid, _) = &sigs[pick_idx(*which, sigs.len())];
            let mut k = tmap[ent][kid].as_bytes().to_vec();
            k.extend(std::iter::repeat(*extra).take(1 + (*extra as usize) % 9));
            tmap.get_mut(ent).unwrap().insert(kid.clone(), Base64::new(k));
            cx.class("tamper_length_extension");
            Some(false)
        }
        Tamper::RemoveEntityFromMap { which } => {
            let (ent, _, _) = &sigs[pick_idx(*which, sigs.len())];
            tmap.remove(ent);
            cx.class("tamper_entity_without_keys");
            cx.class_if(!tmap.is_empty(), "tamper_partial_key_map");
            Some(false)
        }
        Tamper::AddEntityWithoutKeys { from, garbage } => {
            let (_, kid, sig) = &sigs[pick_idx(*from, sigs.len())];
            set_sig(&mut t, "evil.example", kid, V::Str(if *garbage { "AAAA".into() } else { sig.clone() }));
            tmap.remove("evil.example");
            cx.class("tamper_entity_without_keys");
            cx.class("tamper_partial_key_map");
            Some(false)
        }
        Tamper::WrongKeyForEntity { a, b } => {
            let (ea, ka, _) = &sigs[pick_idx(*a, sigs.len())];
            let (eb, kb, _) = &sigs[pick_idx(*b, sigs.len())];
            let other = tmap[eb][kb].clone();
            if other.as_bytes() == tmap[ea][ka].as_bytes() {
                None
            } else {
                tmap.get_mut(ea).unwrap().insert(ka.clone(), other);
                cx.class("tamper_key_wrong");
                Some(false)
            }
        }
        Tamper::OnlyUnsupportedSig { which, unparseable } => {
            let (ent, _, sig) = &sigs[pick_idx(*which, sigs.len())];
            if let Some(V::Obj(all)) = t.get_mut("signatures") {
                let kid = if *unparseable { "nocolon" } else { "dilithium:1" };
                all.insert(ent.clone(), V::Obj([(kid.to_owned(), V::Str(sig.clone()))].into_iter().collect()));
            }
            cx.class("tamper_only_unsupported_signature");
            Some(false)
        }
        Tamper::ChangeUnsigned => {
            let nv = match t.get("unsigned") {
                Some(u) => bump(u),
                None => V::Obj([("age".to_owned(), V::Int(3))].into_iter().collect()),
            };
            t.insert("unsigned".into(), nv);
            cx.class("neutral_unsigned_changed");
            Some(true)
        }
        Tamper::AddUnknownAlgorithmSig { which } => {
            let (ent, _, _) = &sigs[pick_idx(*which, sigs.len())];
            set_sig(&mut t, ent, "dilithium:1", V::Str("AAAA".into()));
            cx.class("neutral_unknown_algorithm");
            Some(true)
        }
    };
    if let Some(expect) = expect_ok {
        nontrivial = true;
        cx.more_evals(1);
        let r = verify_json(&tmap, &to_obj(&t));
        match (expect, r) {
            (true, Err(e)) => return Err(format!("verify_json failed after a change that does not touch signed content ({:?}): {e}", c.tamper)),
            (false, Ok(())) => return Err(format!("verify_json succeeded after tampering ({:?})", c.tamper)),
            _ => {}
        }
    }
    cx.nontrivial_if(nontrivial);
    Ok(())
}

/// Malformed `signatures` shapes: a signing call that reports an error leaves the object as it was.
#[derive(Serialize, Deserialize, Debug, Clone)]
pub struct MalformedCase {
    pub object: BTreeMap<String, V>,
    pub unsigned: Option<V>,
    pub signatures: V,
    pub signer: Signer,
}

pub fn malformed_oracle(c: &MalformedCase, cx: &mut CaseCtx) -> Result<(), String> {
    let mut o = c.object.clone();
    o.insert("signatures".into(), c.signatures.clone());
    match &c.unsigned {
        Some(u) => {
            o.insert("unsigned".into(), u.clone());
        }
        None => {
            o.remove("unsigned");
        }
    }
    let kp = keypair(&c.signer)?;
    let mut obj = to_obj(&o);
    let before = obj.clone();
    match sign_json(&c.signer.entity, &kp, &mut obj) {
        Ok(()) => {
            cx.class("accepted_shape");
            // then it must verify
            let map = key_map(&[&c.signer]);
            let mut only_ours = obj.clone();
            if let Some(ruma_common::CanonicalJsonValue::Object(s)) = only_ours.get_mut("signatures") {
                s.retain(|k, _| *k == c.signer.entity);
                if let Some(ruma_common::CanonicalJsonValue::Object(set)) = s.get_mut(&c.signer.entity) {
                    let kid = format!("ed25519:{}", c.signer.version);
                    set.retain(|k, _| *k == kid);
                }
            }
            verify_json(&map, &only_ours).map_err(|e| format!("object signed despite unusual signatures shape does not verify: {e}"))?;
        }
        Err(_) => {
            cx.class("sign_error");
            cx.nontrivial();
            if obj != before {
                let lost: Vec<&String> = before.keys().filter(|k| !obj.contains_key(*k)).collect();
                return Err(format!("sign_json returned an error but modified the object: keys lost {lost:?}"));
            }
        }
    }
    Ok(())
}

/// Differential: verify_canonical_json_bytes vs ring on (key, signature, message) triples.
#[derive(Serialize, Deserialize, Debug, Clone)]
pub struct TripleCase {
    pub seed: [u8; 32],
    pub msg: Vec<u8>,
    /// 0 none, 1 flip sig bit, 2 flip key bit, 3 flip msg bit, 4 truncate sig, 5 truncate key, 6 zero signature
    pub mutate: u8,
    pub bit: u16,
}

pub fn triple_oracle(c: &TripleCase, cx: &mut CaseCtx) -> Result<(), String> {
    let mut pk = public_key(&c.seed).to_vec();
    let mut sig = ring_sign(&c.seed, &c.msg);
    let mut msg = c.msg.clone();
    match c.mutate % 10 {
        7 => sig.extend(std::iter::repeat((c.bit & 0xff) as u8).take(1 + (c.bit as usize >> 8) % 9)),
        8 => pk.extend(std::iter::repeat((c.bit & 0xff) as u8).take(1 + (c.bit as usize >> 8) % 9)),
        9 => {
            // a valid signature followed by a second valid signature
            let again = sig.clone();
            sig.extend(again);
        }
        1 => {
            let b = pick_idx(c.bit, 512);
            sig[b / 8] ^= 1 << (b % 8);
        }
        2 => {
            let b = pick_idx(c.bit, 256);
            pk[b / 8] ^= 1 << (b % 8);
        }
        3 if !msg.is_empty() => {
            let b = pick_idx(c.bit, msg.len() * 8);
            msg[b / 8] ^= 1 << (b % 8);
        }
        4 => sig.truncate(pick_idx(c.bit, 64)),
        5 => pk.truncate(pick_idx(c.bit, 32)),
        6 => sig = vec![0; 64],
        _ => {}
    }
    let ring_ok = ring_verify(&pk, &msg, &sig);
    let ruma_ok = no_panic_verify(&pk, &sig, &msg)?;
    cx.class(if ring_ok { "triple_valid" } else { "triple_invalid" });
    cx.nontrivial_if(c.mutate % 10 != 0);
    cx.class_if(matches!(c.mutate % 10, 7 | 8 | 9), "triple_length_extended");
    if ring_ok != ruma_ok {
        return Err(format!("verify_canonical_json_bytes = {ruma_ok} but ring = {ring_ok} (mutation {})", c.mutate % 10));
    }
    let unsupported = verify_canonical_json_bytes(&SigningKeyAlgorithm::from("foo"), &pk, &sig, &msg);
    if unsupported.is_ok() {
        return Err("verify_canonical_json_bytes accepted an unsupported algorithm".into());
    }
    Ok(())
}

fn no_panic_verify(pk: &[u8], sig: &[u8], msg: &[u8]) -> Result<bool, String> {
    vf_engine::no_panic(|| verify_canonical_json_bytes(&SigningKeyAlgorithm::Ed25519, pk, sig, msg).is_ok())
}

pub fn signer() -> impl Strategy<Value = Signer> {
    (prop_oneof![3 => idgen::server_name().boxed(), 1 => "[a-zA-Z0-9@:._ é-]{1,12}".boxed()], prop_oneof![3 => "[A-Za-z0-9_]{1,8}".boxed(), 1 => "[A-Za-z0-9_.:+ /=é-]{1,8}".boxed()], crate::keys::seed32(), 0u8..3).prop_map(|(entity, version, seed, der_form)| Signer { entity, version, seed, der_form })
}

fn object() -> impl Strategy<Value = BTreeMap<String, V>> {
    prop::collection::btree_map(prop_oneof![3 => "[a-z_]{1,8}", 1 => cjson::schars(5).prop_map(|cs| cs.into_iter().map(|c| c.0).collect::<String>())], cjson::value(3), 0..6)
}

fn tamper() -> impl Strategy<Value = Tamper> {
    prop_oneof![
        1 => Just(Tamper::None),
        2 => (any::<u16>(), any::<u16>()).prop_map(|(which, bit)| Tamper::FlipSigBit { which, bit }),
        2 => (any::<u16>(), any::<u8>()).prop_map(|(which, bit)| Tamper::FlipKeyBit { which, bit }),
        4 => (any::<u16>(), any::<u8>()).prop_map(|(sel, kind)| Tamper::ChangeLeaf { sel, kind }),
        1 => (any::<u16>(), any::<u16>()).prop_map(|(a, b)| Tamper::SwapValues { a, b }),
        1 => any::<u16>().prop_map(|from| Tamper::AddEntityWithCopiedSig { from }),
        1 => (any::<u16>(), any::<u16>()).prop_map(|(a, b)| Tamper::ReplaceSigWithOtherEntitys { a, b }),
        1 => any::<u16>().prop_map(|which| Tamper::RemoveKeyFromMap { which }),
        1 => (any::<u16>(), any::<u16>()).prop_map(|(a, b)| Tamper::WrongKeyForEntity { a, b }),
        1 => any::<u16>().prop_map(|which| Tamper::RemoveEntityFromMap { which }),
        1 => (any::<u16>(), any::<u8>()).prop_map(|(which, extra)| Tamper::ExtendSig { which, extra }),
        1 => (any::<u16>(), any::<u8>()).prop_map(|(which, extra)| Tamper::ExtendKey { which, extra }),
        1 => (any::<u16>(), any::<bool>()).prop_map(|(from, garbage)| Tamper::AddEntityWithoutKeys { from, garbage }),
        1 => (any::<u16>(), any::<bool>()).prop_map(|(which, unparseable)| Tamper::OnlyUnsupportedSig { which, unparseable }),
        2 => Just(Tamper::ChangeUnsigned),
        1 => any::<u16>().prop_map(|which| Tamper::AddUnknownAlgorithmSig { which }),
    ]
}

pub fn run(ck: &mut Check) {
    if let Err(e) = crate::keys::self_test() {
        ck.infra_error(format!("reference self-test failed: {e}"));
        return;
    }
    ck.rule(
        "G1: random JSON objects (nested, hostile key characters) with optional unsigned; 1-3 signers (server-name and arbitrary entity names, key versions, 32-byte seeds, three PKCS#8 document forms); \
         a history of 1-5 sign_json calls (repeats, same entity with several versions); then one tampering (signature bit, key bit, signed leaf change/insert/delete/rename, swap, copied/replaced signature, missing/wrong key) \
         or neutral change (unsigned, unknown-algorithm signature). Oracle: model object with signatures produced by ring over the reference canonical JSON, ring as verifier. \
         Non-trivial = >= 2 stored signatures over an object with a nested container, or any tampering case; plus malformed `signatures` shapes (atomicity) and a ring-vs-ruma differential on mutated (key, signature, message) triples.",
    );
    ck.assume("Ed25519 as implemented by ring 0.17 is the RFC 8032 reference (signing is deterministic, so signatures are compared byte for byte)");
    let n = ck.n(80_000, 600_000);
    ck.prop(
        "sign_verify_histories",
        n,
        || {
            (object(), prop::option::of(cjson::value(2)), prop::collection::vec(signer(), 1..4), prop::collection::vec(any::<u16>(), 1..6), tamper(), any::<bool>(), prop_oneof![30 => Just(0u8), 1 => 1u8..=8]).prop_map(|(object, unsigned, mut signers, history, tamper, share_entity, pad)| {
                if share_entity && signers.len() > 1 {
                    // same entity with two key versions
                    signers[1].entity = signers[0].entity.clone();
                }
                SignCase { object, unsigned, signers, history, tamper, pad }
            })
        },
        oracle,
    );
    for cls in ["multi_signature", "ring_template_key", "pkcs8_v2_key", "with_unsigned", "tamper_signature_bit", "tamper_key_bit", "tamper_signed_content", "neutral_unsigned_changed", "tamper_key_missing", "key_version_with_other_characters", "tamper_entity_without_keys", "tamper_partial_key_map", "tamper_length_extension", "tamper_only_unsupported_signature", "signed_json_larger_than_65535_bytes", "signed_json_at_event_size_limit"] {
        ck.floor("sign_verify_histories", cls, 100);
    }
    let n = ck.n(4_000, 100_000);
    ck.prop(
        "malformed_signatures_atomicity",
        n,
        || {
            let bad_sigs = prop_oneof![
                Just(V::Str("x".into())),
                Just(V::Null),
                Just(V::Arr(vec![])),
                Just(V::Int(1)),
                // entity entry not an object (for the signing entity, injected below)
                Just(V::Obj(BTreeMap::new())),
                cjson::value(2),
            ];
            (object(), prop::option::of(cjson::value(2)), bad_sigs, signer(), any::<bool>()).prop_map(|(object, unsigned, mut signatures, signer, entity_entry_bad)| {
                if entity_entry_bad {
                    let mut m = match signatures {
                        V::Obj(m) => m,
                        _ => BTreeMap::new(),
                    };
                    m.insert(signer.entity.clone(), V::Str("not an object".into()));
                    signatures = V::Obj(m);
                }
                MalformedCase { object, unsigned, signatures, signer }
            })
        },
        malformed_oracle,
    );
    ck.floor("malformed_signatures_atomicity", "sign_error", 500);
    let n = ck.n(80_000, 600_000);
    ck.prop("ring_differential_triples", n, || (crate::keys::seed32(), prop::collection::vec(any::<u8>(), 0..200), 0u8..10, any::<u16>()).prop_map(|(seed, msg, mutate, bit)| TripleCase { seed, msg, mutate, bit }), triple_oracle);
    ck.floor("ring_differential_triples", "triple_valid", 500);
    ck.floor("ring_differential_triples", "triple_invalid", 2000);
    ck.floor("ring_differential_triples", "triple_length_extended", 2000);
}
