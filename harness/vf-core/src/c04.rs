//! C04 Redaction keeps exactly the spec's keys per room version and is idempotent.

use std::collections::BTreeMap;

use proptest::prelude::*;
use ruma_common::{
    canonical_json::{redact, redact_content_in_place, redact_in_place, RedactedBecause},
    room_version_rules::RoomVersionRules,
    CanonicalJsonValue, RoomVersionId,
};
use serde::{Deserialize, Serialize};
use vf_engine::{CaseCtx, Check};
use vf_ref::{
    cjson::V,
    pdu::{self, Pdu},
    redact as rref,
};

use crate::c01::{from_ref, to_ref};

/// Rules for room version "1".."11", obtained through the public id -> rules mapping.
pub fn rules_for(version: u8) -> RoomVersionRules {
    RoomVersionId::try_from(version.to_string().as_str()).expect("version id").rules().expect("known version has rules")
}

#[derive(Serialize, Deserialize, Debug, Clone)]
pub struct RedactCase {
    pub pdu: Pdu,
    pub because: bool,
}

fn because_obj() -> BTreeMap<String, V> {
    [("type".to_owned(), V::Str("m.room.redaction".into())), ("content".to_owned(), V::Obj([("reason".to_owned(), V::Str("r".into()))].into_iter().collect()))].into_iter().collect()
}

fn strip_empty_tpi(e: &BTreeMap<String, V>) -> BTreeMap<String, V> {
    let mut e = e.clone();
    if let Some(V::Obj(c)) = e.get_mut("content") {
        if matches!(c.get("third_party_invite"), Some(V::Obj(t)) if t.is_empty()) {
            c.remove("third_party_invite");
        }
    }
    e
}

pub fn oracle(c: &RedactCase, cx: &mut CaseCtx) -> Result<(), String> {
    let v = c.pdu.version;
    let rules = rules_for(v).redaction;
    let input = &c.pdu.event;
    let obj = match from_ref(&V::Obj(input.clone())) {
        CanonicalJsonValue::Object(m) => m,
        _ => unreachable!(),
    };
    let rb = || c.because.then(|| RedactedBecause::from_json(match from_ref(&V::Obj(because_obj())) {
        CanonicalJsonValue::Object(m) => m,
        _ => unreachable!(),
    }));
    let r_copy = redact(obj.clone(), &rules, rb());
    let mut in_place = obj.clone();
    let r_inplace = redact_in_place(&mut in_place, &rules, rb());
    if r_copy.is_ok() != r_inplace.is_ok() {
        return Err(format!("redact and redact_in_place disagree on success (v{v}): {:?} vs {:?}", r_copy.is_ok(), r_inplace.is_ok()));
    }
    let expected = rref::redact(v, input);
    let ty = input.get("type").and_then(|t| t.as_str()).unwrap_or("").to_owned();
    cx.class(match v {
        1..=5 => "v1-5",
        6..=7 => "v6-7",
        8 => "v8",
        9..=10 => "v9-10",
        _ => "v11",
    });
    match (&r_copy, &expected) {
        (Err(_), Err(_)) => {
            cx.class("malformed_rejected");
            cx.nontrivial();
            return Ok(());
        }
        (Ok(_), Err(_)) => return Err(format!("v{v}: malformed event (type missing/not a string or content not an object) was redacted instead of refused")),
        (Err(e), Ok(exp)) => {
            if exp.tpi_not_object {
                cx.class("v11_tpi_not_object_unasserted");
                return Ok(());
            }
            return Err(format!("v{v} type {ty:?}: redact refused a well-formed event: {e}"));
        }
        (Ok(got), Ok(exp)) => {
            let got_ref = match to_ref(&CanonicalJsonValue::Object(got.clone())) {
                V::Obj(m) => m,
                _ => unreachable!(),
            };
            if to_ref(&CanonicalJsonValue::Object(in_place.clone())) != V::Obj(got_ref.clone()) {
                return Err(format!("v{v}: redact and redact_in_place produce different objects"));
            }
            let mut want = exp.event.clone();
            if c.because {
                want.insert("unsigned".into(), V::Obj([("redacted_because".to_owned(), V::Obj(because_obj()))].into_iter().collect()));
            }
            let same = if exp.tpi_without_signed || exp.tpi_not_object {
                cx.class("v11_tpi_without_signed_unasserted");
                strip_empty_tpi(&got_ref) == strip_empty_tpi(&want)
            } else {
                got_ref == want
            };
            if !same {
                let diff = describe_diff(&got_ref, &want);
                return Err(format!("v{v} type {ty:?}: redacted event differs from the specification's: {diff}"));
            }
            // idempotence with the same arguments
            let again = redact(got.clone(), &rules, rb()).map_err(|e| format!("v{v}: redacting a redacted event failed: {e}"))?;
            if again != *got {
                return Err(format!("v{v} type {ty:?}: redaction is not idempotent: {}", describe_diff(&obj_ref(&again), &got_ref)));
            }
            // content-only entry point
            if let Some(CanonicalJsonValue::Object(content)) = obj.get("content") {
                let mut cc = content.clone();
                let r = redact_content_in_place(&mut cc, &rules, &ty);
                let V::Obj(content_ref) = to_ref(&CanonicalJsonValue::Object(content.clone())) else { unreachable!() };
                let (want_c, without_signed, not_obj) = rref::redact_content(v, &ty, &content_ref);
                match r {
                    Ok(()) => {
                        let got_c = obj_ref(&cc);
                        let ok = if without_signed || not_obj {
                            let strip = |m: &BTreeMap<String, V>| {
                                let mut m = m.clone();
                                if matches!(m.get("third_party_invite"), Some(V::Obj(t)) if t.is_empty()) {
                                    m.remove("third_party_invite");
                                }
                                m
                            };
                            strip(&got_c) == strip(&want_c)
                        } else {
                            got_c == want_c
                        };
                        if !ok {
                            return Err(format!("v{v} type {ty:?}: redact_content_in_place differs from the specification: {}", describe_diff(&got_c, &want_c)));
                        }
                        // and agrees with the full redaction's content
                        if got.get("content").map(|x| to_ref(x)) != Some(V::Obj(got_c)) {
                            return Err(format!("v{v} type {ty:?}: redact_content_in_place disagrees with redact on the content"));
                        }
                    }
                    Err(e) if !not_obj => return Err(format!("v{v}: redact_content_in_place failed on content the full redaction accepted: {e}")),
                    Err(_) => {}
                }
            }
            let removed = input.len() > exp.event.len() || input.get("content").and_then(|c| c.obj()).map(|c| c.len()).unwrap_or(0) > exp.event.get("content").and_then(|c| c.obj()).map(|c| c.len()).unwrap_or(0);
            let kept_content = exp.event.get("content").and_then(|c| c.obj()).map(|c| !c.is_empty()).unwrap_or(false);
            cx.class_if(kept_content, "content_key_retained");
            cx.class_if(rref::SPECIAL_TYPES.contains(&ty.as_str()), "special_type");
            cx.nontrivial_if(removed && exp.event.len() > 1);
        }
    }
    Ok(())
}

fn obj_ref(o: &ruma_common::CanonicalJsonObject) -> BTreeMap<String, V> {
    match to_ref(&CanonicalJsonValue::Object(o.clone())) {
        V::Obj(m) => m,
        _ => unreachable!(),
    }
}

fn describe_diff(got: &BTreeMap<String, V>, want: &BTreeMap<String, V>) -> String {
    let mut out = vec![];
    for k in got.keys() {
        if !want.contains_key(k) {
            out.push(format!("top-level key {k:?} kept but must be removed"));
        }
    }
    for (k, w) in want {
        match got.get(k) {
            None => out.push(format!("top-level key {k:?} removed but must be kept")),
            Some(g) if g != w => {
                if let (V::Obj(gc), V::Obj(wc)) = (g, w) {
                    for ck in gc.keys() {
                        if !wc.contains_key(ck) {
                            out.push(format!("{k}.{ck} kept but must be removed"));
                        }
                    }
                    for (ck, wv) in wc {
                        match gc.get(ck) {
                            None => out.push(format!("{k}.{ck} removed but must be kept")),
                            Some(gv) if gv != wv => out.push(format!("{k}.{ck} value changed: {gv:?} instead of {wv:?}")),
                            _ => {}
                        }
                    }
                } else {
                    out.push(format!("value of {k:?} changed: {g:?} instead of {w:?}"));
                }
            }
            _ => {}
        }
    }
    out.join("; ").chars().take(700).collect()
}

pub fn run(ck: &mut Check) {
    ck.rule(
        "G2: for each room version 1-11 x each event type with special redaction rules (plus m.room.message, m.room.server_acl, unknown) one object containing EVERY key the specification mentions for any version \
         at top level and in content plus unspecified keys (every (version, type, key) cell of the table), with and without redacted_because; \
         G1: random subsets of those keys with arbitrary nested values, third_party_invite with/without signed, malformed shapes. \
         Non-trivial (G1) = at least one key removed and at least one besides `type` retained; every G2 cell counts.",
    );
    ck.assume("v11 member events whose third_party_invite lacks `signed` (or is not an object): absent, `{}` (or an error) are all accepted - the spec only lists `signed` as retained");
    let table: Vec<RedactCase> = pdu::full_table().into_iter().flat_map(|p| [RedactCase { pdu: p.clone(), because: false }, RedactCase { pdu: p, because: true }]).collect();
    ck.extra("table_cells", serde_json::json!(table.len()));
    let t = std::sync::Arc::new(table);
    ck.exhaustive(
        "table_all_versions_types_keys",
        true,
        move |s, n| {
            let t = t.clone();
            (0..t.len()).skip(s as usize).step_by(n as usize).map(move |i| t[i].clone())
        },
        |c, cx| {
            cx.nontrivial();
            oracle(c, cx)
        },
    );
    let n = ck.n(150_000, 2_000_000);
    ck.prop("random_events", n, || (pdu::loose_event(), any::<bool>()).prop_map(|(pdu, because)| RedactCase { pdu, because }), oracle);
    let n = ck.n(50_000, 500_000);
    ck.prop("wellformed_pdus", n, || (pdu::pdu(), any::<bool>()).prop_map(|(pdu, because)| RedactCase { pdu, because }), oracle);
    for cls in ["v1-5", "v6-7", "v8", "v9-10", "v11"] {
        ck.floor("random_events", cls, 2000);
    }
    ck.floor("random_events", "malformed_rejected", 500);
    ck.floor("random_events", "content_key_retained", 5000);
    ck.floor("random_events", "nontrivial", 10000);
}
