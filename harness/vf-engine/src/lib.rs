//! Common engine for the ruma property checks (DESIGN.md section 3).
//!
//! A check binary builds one [`Check`], registers sub-checks through [`Check::prop`] (random
//! structured generation with proptest, sharded over threads with derived fixed seeds) and
//! [`Check::exhaustive`] (bounded-exhaustive enumeration of a stated finite space), and calls
//! [`Check::finish`], which writes `/verif/evidence/<id>.json` and exits with
//! 0 (held) / 1 (VIOLATION printed) / 2 (inconclusive: generator health, infrastructure).
//!
//! The same registration code serves `--replay <file>`: the sub-check whose name is stored in the
//! replay file deserialises the stored input and calls the oracle once, without proptest.

use std::{
    cell::RefCell,
    collections::{BTreeMap, HashSet},
    fmt::Debug,
    panic::{self, AssertUnwindSafe},
    path::{Path, PathBuf},
    sync::{
        atomic::{AtomicBool, Ordering},
        Mutex,
    },
    time::Instant,
};

pub use proptest;
use proptest::{
    strategy::Strategy,
    test_runner::{Config, RngSeed, TestCaseError, TestError, TestRunner},
};
use serde::{de::DeserializeOwned, Deserialize, Serialize};
pub use serde_json;
use serde_json::{json, Value};

pub mod worker;

pub const VERIF_ROOT: &str = "/verif";
/// Fixed shard count: results are a pure function of (seed, tier), not of the machine.
pub const SHARDS: u64 = 16;

#[derive(Clone, Copy, Debug, PartialEq, Eq)]
pub enum Tier {
    Quick,
    Thorough,
}

impl Tier {
    pub fn as_str(self) -> &'static str {
        match self {
            Tier::Quick => "quick",
            Tier::Thorough => "thorough",
        }
    }
}

#[derive(Clone, Debug, Deserialize)]
pub struct KnownEntry {
    pub property: String,
    pub key: String,
    pub what: String,
    pub status: String,
    #[serde(default)]
    pub commit: Option<String>,
}

#[derive(Serialize, Deserialize)]
struct ReplayFile {
    property: String,
    check: String,
    message: String,
    input: Value,
    #[serde(default)]
    ruma_rev: String,
}

/// FNV-1a, used for distinct-case accounting and seed derivation (stable across runs).
pub fn fnv(bytes: &[u8]) -> u64 {
    let mut h: u64 = 0xcbf29ce484222325;
    for b in bytes {
        h ^= *b as u64;
        h = h.wrapping_mul(0x100000001b3);
    }
    h
}

pub fn derive_seed(seed: u64, name: &str, shard: u64) -> u64 {
    let mut v = Vec::with_capacity(name.len() + 16);
    v.extend_from_slice(&seed.to_le_bytes());
    v.extend_from_slice(name.as_bytes());
    v.extend_from_slice(&shard.to_le_bytes());
    // splitmix finaliser on top of fnv for better bit diffusion
    let mut z = fnv(&v).wrapping_add(0x9e3779b97f4a7c15);
    z = (z ^ (z >> 30)).wrapping_mul(0xbf58476d1ce4e5b9);
    z = (z ^ (z >> 27)).wrapping_mul(0x94d049bb133111eb);
    z ^ (z >> 31)
}

/// Monotone index selection (`i*(len)>>16` style) so that shrinking a u16 shrinks the choice.
pub fn pick_idx(sel: u16, len: usize) -> usize {
    if len == 0 {
        0
    } else {
        ((sel as usize) * len) >> 16
    }
}

/// Per-evaluation context handed to an oracle.
#[derive(Default)]
pub struct CaseCtx {
    classes: Vec<&'static str>,
    nontrivial: bool,
    nt_key: Option<u64>,
    known: Vec<(String, Value)>,
    unknown_known_keys: Vec<String>,
    sample: Option<Value>,
    open_keys: std::sync::Arc<Vec<String>>,
    evals: u64,
}

impl CaseCtx {
    /// Tag the case with a named class (histogram in the evidence).
    pub fn class(&mut self, name: &'static str) {
        if !self.classes.contains(&name) {
            self.classes.push(name);
        }
    }
    pub fn class_if(&mut self, cond: bool, name: &'static str) {
        if cond {
            self.class(name)
        }
    }
    /// Mark the case as non-trivial by the property's stated rule. Distinctness is decided by
    /// the hash of the serialised input unless `nontrivial_key` is supplied.
    pub fn nontrivial(&mut self) {
        self.nontrivial = true;
    }
    pub fn nontrivial_if(&mut self, c: bool) {
        if c {
            self.nontrivial = true;
        }
    }
    pub fn nontrivial_key(&mut self, k: u64) {
        self.nontrivial = true;
        self.nt_key = Some(k);
    }
    /// Additional oracle evaluations performed inside this case (beyond the first).
    pub fn more_evals(&mut self, n: u64) {
        self.evals += n;
    }
    /// Report that the case fails in a way that matches known finding `key`. Returns true when
    /// that finding is listed as *open* in known_findings.json: the caller then treats the case as
    /// excluded (returns Ok) and the engine counts it. Returns false otherwise (fixed or
    /// unlisted): the caller must report the failure as a violation.
    pub fn known_finding(&mut self, key: &str, witness: Value) -> bool {
        if self.open_keys.iter().any(|k| k == key) {
            if !self.known.iter().any(|(k, _)| k == key) {
                self.known.push((key.to_owned(), witness));
            }
            true
        } else {
            self.unknown_known_keys.push(key.to_owned());
            false
        }
    }
    /// Replace the evidence sample for this case (default: the serialised input).
    pub fn sample(&mut self, v: Value) {
        self.sample = Some(v);
    }
}

#[derive(Default, Clone)]
struct Stats {
    evaluations: u64,
    cases: u64,
    nt_set: HashSet<u64>,
    classes: BTreeMap<String, u64>,
    samples_nt: Vec<Value>,
    samples_any: Vec<Value>,
    known: BTreeMap<String, (u64, Value)>,
}

const MAX_SAMPLES: usize = 4;

impl Stats {
    fn absorb<T: Serialize>(&mut self, input: &T, cx: CaseCtx) {
        self.cases += 1;
        self.evaluations += 1 + cx.evals;
        for c in &cx.classes {
            *self.classes.entry((*c).to_owned()).or_insert(0) += 1;
        }
        for (k, w) in cx.known {
            let e = self.known.entry(k).or_insert((0, w));
            e.0 += 1;
        }
        let mut ser: Option<Vec<u8>> = None;
        if cx.nontrivial {
            let key = match cx.nt_key {
                Some(k) => k,
                None => {
                    let b = serde_json::to_vec(input).unwrap_or_default();
                    let k = fnv(&b);
                    ser = Some(b);
                    k
                }
            };
            let fresh = self.nt_set.insert(key);
            if fresh && self.samples_nt.len() < MAX_SAMPLES {
                let v = cx.sample.clone().unwrap_or_else(|| match &ser {
                    Some(b) => serde_json::from_slice(b).unwrap_or(Value::Null),
                    None => serde_json::to_value(input).unwrap_or(Value::Null),
                });
                self.samples_nt.push(v);
            }
        } else if self.samples_any.len() < 1 {
            let v = cx.sample.unwrap_or_else(|| serde_json::to_value(input).unwrap_or(Value::Null));
            self.samples_any.push(v);
        }
    }
    fn merge(&mut self, o: Stats) {
        self.evaluations += o.evaluations;
        self.cases += o.cases;
        self.nt_set.extend(o.nt_set);
        for (k, v) in o.classes {
            *self.classes.entry(k).or_insert(0) += v;
        }
        for (k, (n, w)) in o.known {
            let e = self.known.entry(k).or_insert((0, w));
            e.0 += n;
        }
        for s in o.samples_nt {
            if self.samples_nt.len() < MAX_SAMPLES {
                self.samples_nt.push(s);
            }
        }
        for s in o.samples_any {
            if self.samples_any.len() < 1 {
                self.samples_any.push(s);
            }
        }
    }
}

struct SubReport {
    name: String,
    style: &'static str,
    exhaustive: bool,
    stats: Stats,
    violation: Option<String>,
    note: Option<String>,
}

enum Mode {
    Explore,
    Replay { check: String, input: Value, path: String, hit: bool },
}

pub struct Check {
    pub id: String,
    pub tier: Tier,
    pub seed: u64,
    mode: Mode,
    start: Instant,
    subs: Vec<SubReport>,
    known: Vec<KnownEntry>,
    open_keys: std::sync::Arc<Vec<String>>,
    violations: Vec<String>,
    health: Vec<String>,
    rule: String,
    assumptions: Vec<String>,
    extra: BTreeMap<String, Value>,
    only: Option<String>,
    infra_errors: Vec<String>,
    regressions: Vec<(String, ReplayFile)>,
    regressions_run: u64,
    /// upper bound on proptest shrink iterations per shard (lower it where one evaluation of a
    /// failing case is expensive, e.g. a watchdog wait)
    pub max_shrink_iters: u32,
}

thread_local! {
    static LAST_PANIC: RefCell<Option<String>> = const { RefCell::new(None) };
}

/// Install a panic hook that records message+location per thread and prints nothing.
pub fn install_quiet_panic_hook() {
    panic::set_hook(Box::new(|info| {
        let msg = if let Some(s) = info.payload().downcast_ref::<&str>() {
            (*s).to_owned()
        } else if let Some(s) = info.payload().downcast_ref::<String>() {
            s.clone()
        } else {
            "<non-string panic payload>".to_owned()
        };
        let loc = info.location().map(|l| format!("{}:{}", l.file(), l.line())).unwrap_or_default();
        LAST_PANIC.with(|p| *p.borrow_mut() = Some(format!("panic at {loc}: {msg}")));
    }));
}

/// Run `f`, turning a panic into `Err(description)`.
pub fn no_panic<R>(f: impl FnOnce() -> R) -> Result<R, String> {
    LAST_PANIC.with(|p| *p.borrow_mut() = None);
    match panic::catch_unwind(AssertUnwindSafe(f)) {
        Ok(r) => Ok(r),
        Err(_) => Err(LAST_PANIC.with(|p| p.borrow_mut().take()).unwrap_or_else(|| "panic".into())),
    }
}

fn ruma_rev() -> String {
    std::process::Command::new("git")
        .args(["-C", "/repo", "rev-parse", "--short", "HEAD"])
        .output()
        .ok()
        .and_then(|o| String::from_utf8(o.stdout).ok())
        .map(|s| s.trim().to_owned())
        .unwrap_or_default()
}

impl Check {
    /// Parse `<bin> <Cnn> [--tier quick|thorough] [--replay file] [--only subcheck]` and the
    /// VERIF_SEED / VERIF_TIER environment.
    pub fn from_env(id: &str, args: &[String]) -> Check {
        install_quiet_panic_hook();
        let mut tier = match std::env::var("VERIF_TIER").ok().as_deref() {
            Some("thorough") => Tier::Thorough,
            _ => Tier::Quick,
        };
        let seed = std::env::var("VERIF_SEED").ok().and_then(|s| s.trim().parse::<i128>().ok()).map(|v| v as u64).unwrap_or(0);
        let mut mode = Mode::Explore;
        let mut only = None;
        let mut infra_errors = vec![];
        let mut i = 0;
        while i < args.len() {
            match args[i].as_str() {
                "--tier" if i + 1 < args.len() => {
                    tier = if args[i + 1] == "thorough" { Tier::Thorough } else { Tier::Quick };
                    i += 1;
                }
                "--only" if i + 1 < args.len() => {
                    only = Some(args[i + 1].clone());
                    i += 1;
                }
                "--replay" if i + 1 < args.len() => {
                    let path = args[i + 1].clone();
                    match std::fs::read(&path).map_err(|e| e.to_string()).and_then(|b| serde_json::from_slice::<ReplayFile>(&b).map_err(|e| e.to_string())) {
                        Ok(r) => mode = Mode::Replay { check: r.check, input: r.input, path, hit: false },
                        Err(e) => infra_errors.push(format!("cannot read replay file {path}: {e}")),
                    }
                    i += 1;
                }
                _ => {}
            }
            i += 1;
        }
        let known: Vec<KnownEntry> = std::fs::read(Path::new(VERIF_ROOT).join("known_findings.json"))
            .ok()
            .and_then(|b| serde_json::from_slice::<Value>(&b).ok())
            .and_then(|v| v.get("findings").cloned())
            .and_then(|v| serde_json::from_value(v).ok())
            .unwrap_or_default();
        let open_keys = known.iter().filter(|k| k.property == id && k.status == "open").map(|k| k.key.clone()).collect::<Vec<_>>();
        // committed regression cases (shrunk witnesses of fixed findings and of seeded changes)
        let mut regressions = vec![];
        if let Ok(rd) = std::fs::read_dir(Path::new(VERIF_ROOT).join("replays").join(id)) {
            let mut paths: Vec<_> = rd.filter_map(|e| e.ok()).map(|e| e.path()).filter(|p| p.extension().map(|x| x == "json").unwrap_or(false)).collect();
            paths.sort();
            for p in paths {
                match std::fs::read(&p).map_err(|e| e.to_string()).and_then(|b| serde_json::from_slice::<ReplayFile>(&b).map_err(|e| e.to_string())) {
                    Ok(r) => regressions.push((p.to_string_lossy().into_owned(), r)),
                    Err(e) => infra_errors.push(format!("unreadable regression file {p:?}: {e}")),
                }
            }
        }
        Check {
            id: id.to_owned(),
            tier,
            seed,
            mode,
            start: Instant::now(),
            subs: vec![],
            known,
            open_keys: std::sync::Arc::new(open_keys),
            violations: vec![],
            health: vec![],
            rule: String::new(),
            assumptions: vec![],
            extra: BTreeMap::new(),
            only,
            infra_errors,
            regressions,
            regressions_run: 0,
            max_shrink_iters: 20_000,
        }
    }

    pub fn is_replay(&self) -> bool {
        matches!(self.mode, Mode::Replay { .. })
    }
    pub fn thorough(&self) -> bool {
        self.tier == Tier::Thorough
    }
    /// Fixed work per tier. The thorough figure is multiplied by a per-property depth factor
    /// (chosen so that a thorough run takes roughly ten minutes on 16 cores; VERIF_THOROUGH_SCALE
    /// overrides it) - still a fixed amount of work, never a time budget.
    pub fn n(&self, quick: u64, thorough: u64) -> u64 {
        if self.thorough() {
            thorough.saturating_mul(self.thorough_scale())
        } else {
            quick
        }
    }
    pub fn thorough_scale(&self) -> u64 {
        if let Some(x) = std::env::var("VERIF_THOROUGH_SCALE").ok().and_then(|s| s.parse::<u64>().ok()) {
            return x.max(1);
        }
        match self.id.as_str() {
            "C08" | "C09" => 12,
            "C20" => 10,
            "C05" => 6,
            "C03" | "C14" => 5,
            "C01" | "C02" | "C13" | "C16" | "C18" | "C19" => 4,
            "C04" | "C07" | "C10" | "C11" => 3,
            "C15" => 2,
            _ => 1,
        }
    }
    pub fn rule(&mut self, s: &str) {
        self.rule = s.to_owned();
    }
    pub fn assume(&mut self, s: &str) {
        self.assumptions.push(s.to_owned());
    }
    pub fn extra(&mut self, k: &str, v: Value) {
        self.extra.insert(k.to_owned(), v);
    }
    pub fn infra_error(&mut self, s: String) {
        self.infra_errors.push(s);
    }
    pub fn open_keys(&self) -> std::sync::Arc<Vec<String>> {
        self.open_keys.clone()
    }

    /// True when `--only <name>` selected exactly this sub-check.
    pub fn selected(&self, name: &str) -> bool {
        matches!(&self.only, Some(o) if o == name)
    }

    fn skip(&self, name: &str) -> bool {
        matches!(&self.only, Some(o) if o != name)
    }

    fn new_ctx(&self) -> CaseCtx {
        CaseCtx { open_keys: self.open_keys.clone(), ..Default::default() }
    }

    fn record_violation<T: Serialize>(&mut self, name: &str, input: &T, message: &str) -> String {
        let input = serde_json::to_value(input).unwrap_or(Value::Null);
        let rf = ReplayFile { property: self.id.clone(), check: name.to_owned(), message: message.to_owned(), input, ruma_rev: ruma_rev() };
        let body = serde_json::to_vec_pretty(&rf).unwrap_or_default();
        let dir = Path::new(VERIF_ROOT).join("replays").join(&self.id).join("new");
        let _ = std::fs::create_dir_all(&dir);
        let path: PathBuf = dir.join(format!("{}-{:016x}.json", name, fnv(&body)));
        let _ = std::fs::write(&path, &body);
        let p = path.to_string_lossy().into_owned();
        println!("VIOLATION property={} replay={}", self.id, p);
        println!("  check={name} message={}", message.chars().take(600).collect::<String>());
        self.violations.push(p.clone());
        p
    }

    /// In replay mode: if the stored check name is `name`, run the oracle once on the stored
    /// input. Returns true when in replay mode (the caller must not explore).
    fn try_replay<T, F>(&mut self, name: &str, f: &F) -> bool
    where
        T: Serialize + DeserializeOwned,
        F: Fn(&T, &mut CaseCtx) -> Result<(), String>,
    {
        let (input, path) = match &mut self.mode {
            Mode::Explore => {
                self.run_regressions::<T, F>(name, f);
                return false;
            }
            Mode::Replay { check, input, path, hit } => {
                if check != name {
                    return true;
                }
                *hit = true;
                (input.clone(), path.clone())
            }
        };
        match serde_json::from_value::<T>(input) {
            Err(e) => self.infra_errors.push(format!("replay input does not deserialise for {name}: {e}")),
            Ok(v) => {
                let mut cx = self.new_ctx();
                let r = no_panic(|| f(&v, &mut cx)).and_then(|r| r);
                let mut st = Stats::default();
                let known_hit = cx.known.first().map(|k| k.0.clone());
                st.absorb(&v, cx);
                match r {
                    Ok(()) => {
                        if let Some(k) = known_hit {
                            println!("replay {path}: matches open known finding {k}");
                        } else {
                            println!("replay {path}: property holds on this input");
                        }
                    }
                    Err(m) => {
                        println!("VIOLATION property={} replay={}", self.id, path);
                        println!("  check={name} message={}", m.chars().take(2000).collect::<String>());
                        self.violations.push(path);
                    }
                }
                self.subs.push(SubReport { name: name.to_owned(), style: "replay", exhaustive: false, stats: st, violation: None, note: None });
            }
        }
        true
    }

    /// Replay tier: committed witnesses under /verif/replays/<id>/*.json for this sub-check are
    /// re-evaluated before exploring. A fixed finding that returns is reported again.
    fn run_regressions<T, F>(&mut self, name: &str, f: &F)
    where
        T: Serialize + DeserializeOwned,
        F: Fn(&T, &mut CaseCtx) -> Result<(), String>,
    {
        let mine: Vec<(String, Value)> = self.regressions.iter().filter(|(_, r)| r.check == name && r.property == self.id).map(|(p, r)| (p.clone(), r.input.clone())).collect();
        for (path, input) in mine {
            match serde_json::from_value::<T>(input) {
                Err(e) => self.infra_errors.push(format!("regression {path} does not deserialise: {e}")),
                Ok(v) => {
                    let mut cx = self.new_ctx();
                    self.regressions_run += 1;
                    if let Err(m) = no_panic(|| f(&v, &mut cx)).and_then(|r| r) {
                        println!("VIOLATION property={} replay={}", self.id, path);
                        println!("  check={name} (committed regression case) message={}", m.chars().take(600).collect::<String>());
                        self.violations.push(path);
                    }
                }
            }
        }
    }

    /// Random structured generation (G1). `mk` builds the strategy (once per shard); `f` is the
    /// oracle. All randomness comes from proptest's runner seeded from VERIF_SEED.
    pub fn prop<S, F, M>(&mut self, name: &str, cases: u64, mk: M, f: F)
    where
        S: Strategy,
        S::Value: Serialize + DeserializeOwned + Debug + Clone + Send,
        M: Fn() -> S + Sync,
        F: Fn(&S::Value, &mut CaseCtx) -> Result<(), String> + Sync,
    {
        if self.skip(name) || self.try_replay::<S::Value, F>(name, &f) {
            return;
        }
        let shards = SHARDS.min(cases.max(1));
        let per = cases.div_ceil(shards);
        let abort = AtomicBool::new(false);
        let results: Mutex<Vec<(u64, Stats, Option<(String, S::Value)>, Option<String>)>> = Mutex::new(vec![]);
        let open = self.open_keys.clone();
        let seed = self.seed;
        let max_shrink_iters = self.max_shrink_iters;
        std::thread::scope(|sc| {
            for shard in 0..shards {
                let (abort, results, f, mk, open) = (&abort, &results, &f, &mk, open.clone());
                std::thread::Builder::new()
                    .stack_size(64 << 20)
                    .spawn_scoped(sc, move || {
                        let mut cfg = Config::default();
                        cfg.cases = per as u32;
                        cfg.rng_seed = RngSeed::Fixed(derive_seed(seed, name, shard));
                        cfg.failure_persistence = None;
                        cfg.verbose = 0;
                        cfg.max_shrink_iters = max_shrink_iters;
                        cfg.max_shrink_time = 0;
                        cfg.max_global_rejects = 1 << 20;
                        cfg.max_local_rejects = 1 << 16;
                        cfg.source_file = None;
                        let mut runner = TestRunner::new(cfg);
                        let stats = RefCell::new(Stats::default());
                        let failed = std::cell::Cell::new(false);
                        let strat = mk();
                        let res = runner.run(&strat, |v| {
                            if abort.load(Ordering::Relaxed) && !failed.get() {
                                return Ok(());
                            }
                            let mut cx = CaseCtx { open_keys: open.clone(), ..Default::default() };
                            let r = no_panic(|| f(&v, &mut cx)).and_then(|r| r);
                            match r {
                                Ok(()) => {
                                    if !failed.get() {
                                        stats.borrow_mut().absorb(&v, cx);
                                    }
                                    Ok(())
                                }
                                Err(m) => {
                                    failed.set(true);
                                    abort.store(true, Ordering::Relaxed);
                                    Err(TestCaseError::fail(m))
                                }
                            }
                        });
                        let (fail, infra) = match res {
                            Ok(()) => (None, None),
                            Err(TestError::Fail(reason, v)) => (Some((reason.message().to_owned(), v)), None),
                            Err(TestError::Abort(reason)) => (None, Some(format!("proptest aborted: {}", reason.message()))),
                        };
                        results.lock().unwrap().push((shard, stats.into_inner(), fail, infra));
                    })
                    .expect("spawn shard");
            }
        });
        let mut rs = results.into_inner().unwrap();
        rs.sort_by_key(|r| r.0);
        let mut stats = Stats::default();
        let mut violation = None;
        for (_, st, fail, infra) in rs {
            stats.merge(st);
            if let Some(e) = infra {
                self.infra_errors.push(format!("{name}: {e}"));
            }
            if let (None, Some((msg, v))) = (&violation, fail) {
                violation = Some((msg, v));
            }
        }
        let mut vio = None;
        if let Some((msg, v)) = violation {
            // Re-evaluate the shrunk case once to get its final message (the stored reason is
            // the one of the minimal case already; this is only for known-finding keys).
            vio = Some(self.record_violation(name, &v, &msg));
        }
        self.subs.push(SubReport { name: name.to_owned(), style: "random(proptest)", exhaustive: false, stats, violation: vio, note: None });
    }

    /// Bounded-exhaustive enumeration (G2) of a finite space, smallest first. `space(shard,
    /// nshards)` must yield the shard's slice of the space (e.g. `.skip(shard).step_by(n)`), so
    /// that the union over shards is the whole space. The first failure in enumeration order of
    /// the lowest shard is reported; no shrinking is needed for smallest-first spaces.
    pub fn exhaustive<T, I, G, F>(&mut self, name: &str, complete: bool, space: G, f: F)
    where
        T: Serialize + DeserializeOwned + Debug + Clone + Send,
        I: Iterator<Item = T>,
        G: Fn(u64, u64) -> I + Sync,
        F: Fn(&T, &mut CaseCtx) -> Result<(), String> + Sync,
    {
        if self.skip(name) || self.try_replay::<T, F>(name, &f) {
            return;
        }
        let shards = SHARDS;
        let abort = AtomicBool::new(false);
        let results: Mutex<Vec<(u64, Stats, Option<(String, T)>)>> = Mutex::new(vec![]);
        let open = self.open_keys.clone();
        std::thread::scope(|sc| {
            for shard in 0..shards {
                let (abort, results, f, space, open) = (&abort, &results, &f, &space, open.clone());
                std::thread::Builder::new()
                    .stack_size(64 << 20)
                    .spawn_scoped(sc, move || {
                        let mut stats = Stats::default();
                        let mut fail = None;
                        for v in space(shard, shards) {
                            if abort.load(Ordering::Relaxed) {
                                break;
                            }
                            let mut cx = CaseCtx { open_keys: open.clone(), ..Default::default() };
                            match no_panic(|| f(&v, &mut cx)).and_then(|r| r) {
                                Ok(()) => stats.absorb(&v, cx),
                                Err(m) => {
                                    abort.store(true, Ordering::Relaxed);
                                    fail = Some((m, v));
                                    break;
                                }
                            }
                        }
                        results.lock().unwrap().push((shard, stats, fail));
                    })
                    .expect("spawn shard");
            }
        });
        let mut rs = results.into_inner().unwrap();
        rs.sort_by_key(|r| r.0);
        let mut stats = Stats::default();
        let mut violation: Option<(String, T)> = None;
        for (_, st, fail) in rs {
            stats.merge(st);
            if let (None, Some(fv)) = (&violation, fail) {
                violation = Some(fv);
            }
        }
        let mut vio = None;
        let failed = violation.is_some();
        if let Some((msg, v)) = violation {
            vio = Some(self.record_violation(name, &v, &msg));
        }
        self.subs.push(SubReport { name: name.to_owned(), style: "bounded-exhaustive", exhaustive: complete && !failed, stats, violation: vio, note: None });
    }

    /// A sub-check whose exploration is driven by custom code (e.g. supervised workers, threads
    /// with OS-random hashers). `run` receives a collector; `replay` re-checks one stored input.
    pub fn custom<T, R, P>(&mut self, name: &str, style: &'static str, run: R, replay: P)
    where
        T: Serialize + DeserializeOwned + Debug + Clone,
        R: FnOnce(&mut Collector<T>),
        P: Fn(&T, &mut CaseCtx) -> Result<(), String>,
    {
        if self.skip(name) || self.try_replay::<T, P>(name, &replay) {
            return;
        }
        let mut col = Collector { stats: Stats::default(), open: self.open_keys.clone(), failure: None, infra: vec![], exhaustive: false };
        run(&mut col);
        let Collector { stats, failure, infra, exhaustive, .. } = col;
        for e in infra {
            self.infra_errors.push(format!("{name}: {e}"));
        }
        let mut vio = None;
        let failed = failure.is_some();
        if let Some((msg, v)) = failure {
            vio = Some(self.record_violation(name, &v, &msg));
        }
        self.subs.push(SubReport { name: name.to_owned(), style, exhaustive: exhaustive && !failed, stats, violation: vio, note: None });
    }

    /// Require that class `class` of sub-check `sub` was seen at least `min` times; otherwise the
    /// check fails *itself* (exit 2, generator health), never with a VIOLATION.
    pub fn floor(&mut self, sub: &str, class: &str, min: u64) {
        if self.is_replay() || self.skip(sub) {
            return;
        }
        if let Some(s) = self.subs.iter().find(|s| s.name == sub) {
            if s.violation.is_some() {
                return;
            }
            let n = if class == "nontrivial" { s.stats.nt_set.len() as u64 } else { s.stats.classes.get(class).copied().unwrap_or(0) };
            if n < min {
                self.health.push(format!("generator health: {sub}/{class} = {n} < floor {min}"));
            }
        }
    }

    pub fn class_count(&self, sub: &str, class: &str) -> u64 {
        self.subs.iter().find(|s| s.name == sub).and_then(|s| s.stats.classes.get(class).copied()).unwrap_or(0)
    }

    /// Write evidence, print KNOWN-FINDING lines, exit.
    pub fn finish(mut self) -> ! {
        if let Mode::Replay { hit, check, .. } = &self.mode {
            if !*hit {
                self.infra_errors.push(format!("replay file names unknown check '{check}' for {}", self.id));
            }
        }
        let mut total = Stats::default();
        let mut subs_json = vec![];
        let mut all_exhaustive = !self.subs.is_empty();
        for s in &self.subs {
            all_exhaustive &= s.exhaustive;
            subs_json.push(json!({
                "name": s.name,
                "style": s.style,
                "exhaustive": s.exhaustive,
                "cases": s.stats.cases,
                "evaluations": s.stats.evaluations,
                "distinct_nontrivial": s.stats.nt_set.len(),
                "classes": s.stats.classes,
                "excluded_by_known_finding": s.stats.known.iter().map(|(k,(n,_))| (k.clone(), *n)).collect::<BTreeMap<_,_>>(),
                "violation_replay": s.violation,
                "note": s.note,
            }));
        }
        // distinct non-trivial cases are distinct per sub-check (different input types), so the
        // total is the sum of the per-sub-check set sizes.
        let mut distinct = 0u64;
        let mut samples = vec![];
        for s in &self.subs {
            distinct += s.stats.nt_set.len() as u64;
            let mut st = s.stats.clone();
            st.nt_set.clear();
            for (i, v) in st.samples_nt.iter().chain(st.samples_any.iter()).enumerate() {
                if i < 2 {
                    samples.push(json!({"check": s.name, "case": v}));
                }
            }
            total.merge(st);
        }
        let mut known_lines = vec![];
        for (k, (n, w)) in &total.known {
            let what = self.known.iter().find(|e| e.property == self.id && &e.key == k).map(|e| e.what.clone()).unwrap_or_default();
            println!("KNOWN-FINDING: property={} {} [{}; {} generated cases excluded]", self.id, what, k, n);
            known_lines.push(json!({"key": k, "what": what, "excluded_cases": n, "first_witness": w}));
        }
        let wall = self.start.elapsed().as_secs_f64();
        if !self.is_replay() {
            let mut coverage = serde_json::Map::new();
            coverage.insert("evaluations".into(), json!(total.evaluations));
            coverage.insert("distinct_nontrivial".into(), json!(distinct));
            coverage.insert("rule".into(), json!(self.rule));
            coverage.insert("samples".into(), Value::Array(samples));
            coverage.insert("exhaustive".into(), json!(all_exhaustive));
            coverage.insert("classes".into(), json!(total.classes));
            coverage.insert("subchecks".into(), Value::Array(subs_json));
            coverage.insert("known_findings_hit".into(), Value::Array(known_lines));
            coverage.insert("regression_replays_run".into(), json!(self.regressions_run));
            coverage.insert("generator_health_failures".into(), json!(self.health));
            coverage.insert("infrastructure_errors".into(), json!(self.infra_errors));
            if self.thorough() {
                coverage.insert("thorough_depth_factor".into(), json!(self.thorough_scale()));
            }
            for (k, v) in &self.extra {
                coverage.insert(k.clone(), v.clone());
            }
            let ev = json!({
                "property_id": self.id,
                "tier": self.tier.as_str(),
                "seed": self.seed as i64,
                "level": "exploration",
                "coverage": Value::Object(coverage),
                "assumptions": self.assumptions,
                "wall_s": wall,
                "violations": self.violations.len(),
                "ruma_rev": ruma_rev(),
            });
            let dir = Path::new(VERIF_ROOT).join("evidence");
            let _ = std::fs::create_dir_all(&dir);
            let path = dir.join(format!("{}.json", self.id));
            if let Err(e) = std::fs::write(&path, serde_json::to_vec_pretty(&ev).unwrap_or_default()) {
                eprintln!("cannot write evidence {path:?}: {e}");
            }
        }
        println!(
            "{} tier={} seed={} evaluations={} distinct_nontrivial={} violations={} wall={:.1}s",
            self.id,
            self.tier.as_str(),
            self.seed,
            total.evaluations,
            distinct,
            self.violations.len(),
            wall
        );
        if !self.violations.is_empty() {
            std::process::exit(1);
        }
        if !self.infra_errors.is_empty() || !self.health.is_empty() {
            for e in self.infra_errors.iter().chain(self.health.iter()) {
                println!("INCONCLUSIVE: {e}");
            }
            std::process::exit(2);
        }
        std::process::exit(0);
    }
}

/// Collector for [`Check::custom`].
pub struct Collector<T> {
    stats: Stats,
    open: std::sync::Arc<Vec<String>>,
    failure: Option<(String, T)>,
    infra: Vec<String>,
    exhaustive: bool,
}

impl<T: Serialize + Clone> Collector<T> {
    pub fn ctx(&self) -> CaseCtx {
        CaseCtx { open_keys: self.open.clone(), ..Default::default() }
    }
    pub fn ok(&mut self, input: &T, cx: CaseCtx) {
        self.stats.absorb(input, cx);
    }
    pub fn fail(&mut self, input: &T, msg: String) {
        if self.failure.is_none() {
            self.failure = Some((msg, input.clone()));
        }
    }
    pub fn failed(&self) -> bool {
        self.failure.is_some()
    }
    pub fn infra(&mut self, msg: String) {
        self.infra.push(msg);
    }
    pub fn set_exhaustive(&mut self, e: bool) {
        self.exhaustive = e;
    }
}
