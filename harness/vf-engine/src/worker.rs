//! Supervised worker processes (DESIGN.md section 3): entry points that can abort the process
//! (stack overflow) or hang are driven in a child. Frames are length-prefixed on stdin/stdout.

use std::{
    io::{Read, Write},
    process::{Child, ChildStdin, Command, Stdio},
    sync::mpsc::{channel, Receiver, RecvTimeoutError},
    time::Duration,
};

pub fn write_frame(w: &mut impl Write, b: &[u8]) -> std::io::Result<()> {
    w.write_all(&(b.len() as u32).to_le_bytes())?;
    w.write_all(b)?;
    w.flush()
}

pub fn read_frame(r: &mut impl Read) -> std::io::Result<Vec<u8>> {
    let mut l = [0u8; 4];
    r.read_exact(&mut l)?;
    let mut b = vec![0u8; u32::from_le_bytes(l) as usize];
    r.read_exact(&mut b)?;
    Ok(b)
}

/// Child side: serve requests until stdin closes. `handle` is called on a thread with
/// `stack_bytes` of stack (the bound stated in DESIGN.md for C17).
pub fn serve(stack_bytes: usize, handle: impl Fn(&[u8]) -> Vec<u8> + Send + 'static) -> ! {
    let t = std::thread::Builder::new()
        .stack_size(stack_bytes)
        .spawn(move || {
            let stdin = std::io::stdin();
            let stdout = std::io::stdout();
            let mut i = stdin.lock();
            let mut o = stdout.lock();
            while let Ok(req) = read_frame(&mut i) {
                let resp = handle(&req);
                if write_frame(&mut o, &resp).is_err() {
                    break;
                }
            }
        })
        .expect("spawn worker thread");
    let _ = t.join();
    std::process::exit(0)
}

pub enum Reply {
    Ok(Vec<u8>),
    /// The child died (signal / abort / exit) while handling the request.
    Died(String),
    /// No answer within the watchdog.
    Timeout,
}

pub struct Worker {
    child: Child,
    stdin: Option<ChildStdin>,
    rx: Receiver<std::io::Result<Vec<u8>>>,
    args: Vec<String>,
    pub restarts: u64,
}

impl Worker {
    pub fn spawn(args: &[String]) -> std::io::Result<Worker> {
        let exe = std::env::current_exe()?;
        let mut child = Command::new(exe).args(args).stdin(Stdio::piped()).stdout(Stdio::piped()).stderr(Stdio::null()).spawn()?;
        let stdin = child.stdin.take();
        let mut stdout = child.stdout.take().expect("piped stdout");
        let (tx, rx) = channel();
        std::thread::spawn(move || loop {
            let f = read_frame(&mut stdout);
            let stop = f.is_err();
            if tx.send(f).is_err() || stop {
                break;
            }
        });
        Ok(Worker { child, stdin, rx, args: args.to_vec(), restarts: 0 })
    }

    fn restart(&mut self) {
        let _ = self.child.kill();
        let _ = self.child.wait();
        if let Ok(mut w) = Worker::spawn(&self.args) {
            w.restarts = self.restarts + 1;
            *self = w;
        }
    }

    pub fn call(&mut self, req: &[u8], watchdog: Duration) -> Reply {
        let sent = match self.stdin.as_mut() {
            Some(s) => write_frame(s, req).is_ok(),
            None => false,
        };
        if !sent {
            let st = self.child.wait().map(|s| s.to_string()).unwrap_or_default();
            self.restart();
            return Reply::Died(format!("worker not accepting input ({st})"));
        }
        match self.rx.recv_timeout(watchdog) {
            Ok(Ok(b)) => Reply::Ok(b),
            Ok(Err(_)) | Err(RecvTimeoutError::Disconnected) => {
                let st = self.child.wait().map(|s| s.to_string()).unwrap_or_default();
                self.restart();
                Reply::Died(st)
            }
            Err(RecvTimeoutError::Timeout) => {
                self.restart();
                Reply::Timeout
            }
        }
    }
}

impl Drop for Worker {
    fn drop(&mut self) {
        self.stdin.take();
        let _ = self.child.kill();
        let _ = self.child.wait();
    }
}
