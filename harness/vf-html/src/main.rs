//! C14 / C15: HTML sanitizer checks (ruma-html), with html5gum as an independent view of the output.
use html5gum::{Token, Tokenizer};
use proptest::prelude::*;
use ruma_html::{remove_html_reply_fallback, sanitize_html, Html, HtmlSanitizerMode, RemoveReplyFallback};
use serde::{Deserialize, Serialize};
use vf_engine::{CaseCtx, Check};

mod gen;
mod policy;

use gen::Node;
use policy::{Policy, RNode, B};

#[derive(Serialize, Deserialize, Debug, Clone)]
pub struct SanCase {
    pub doc: Vec<Node>,
    pub config: B,
}

fn count_elems(t: &[RNode]) -> usize {
    t.iter().map(|n| match n {
        RNode::Elem { children, .. } => 1 + count_elems(children),
        _ => 0,
    }).sum()
}

fn tree_depth(t: &[RNode]) -> usize {
    t.iter().map(|n| match n {
        RNode::Elem { children, .. } => 1 + tree_depth(children),
        _ => 0,
    }).max().unwrap_or(0)
}

fn first_diff(a: &[RNode], b: &[RNode], path: &str) -> Option<String> {
    for i in 0..a.len().max(b.len()) {
        match (a.get(i), b.get(i)) {
            (Some(x), Some(y)) if x == y => {}
            (Some(RNode::Elem { name: n1, attrs: a1, children: c1 }), Some(RNode::Elem { name: n2, attrs: a2, children: c2 })) => {
                if n1 != n2 {
                    return Some(format!("at {path}/{i}: sanitizer has <{n1}>, policy gives <{n2}>"));
                }
                if a1 != a2 {
                    return Some(format!("at {path}/{i} <{n1}>: sanitizer keeps attributes {a1:?}, policy gives {a2:?}"));
                }
                return first_diff(c1, c2, &format!("{path}/{i}:{n1}"));
            }
            (x, y) => return Some(format!("at {path}/{i}: sanitizer has {}, policy gives {}", brief(x), brief(y))),
        }
    }
    None
}

fn brief(n: Option<&RNode>) -> String {
    match n {
        None => "nothing".into(),
        Some(RNode::Text(t)) => format!("text {:?}", t.chars().take(40).collect::<String>()),
        Some(RNode::Elem { name, attrs, .. }) => format!("<{name} {attrs:?}>"),
    }
}

/// Predicates on a token-level view of the output (html5gum, independent of html5ever).
fn token_view(out: &str, p: &Policy, cx: &mut CaseCtx) -> Result<(), String> {
    const VOID: &[&str] = &["br", "hr", "img", "input", "link", "meta", "base", "area", "col", "embed", "param", "source", "track", "wbr"];
    let mut depth: usize = 0;
    let mut max_depth = 0;
    for tok in Tokenizer::new(out) {
        let Ok(tok) = tok;
        match tok {
            Token::StartTag(t) => {
                let name = String::from_utf8_lossy(&t.name).to_string();
                if p.element_removed(&name) {
                    return Err(format!("output contains removed element <{name}>: {}", clip(out)));
                }
                if p.element_ignored(&name) {
                    return Err(format!("output, as tokenised by an independent HTML tokenizer, contains <{name}> which is not allowed: {}", clip(out)));
                }
                for (k, v) in &t.attributes {
                    let (k, v) = (String::from_utf8_lossy(k).to_string(), String::from_utf8_lossy(v).to_string());
                    if !p.attr_kept(&name, &k) {
                        if k.contains(':') {
                            cx.class("foreign_prefixed_attribute_in_output");
                        }
                        return Err(format!("output <{name}> carries attribute {k:?} which is not allowed for it: {}", clip(out)));
                    }
                    if p.scheme_allowed(&name, &k, &v) == Some(false) {
                        return Err(format!("output <{name} {k}={v:?}> has a URI scheme that is not allowed: {}", clip(out)));
                    }
                    if k == "class" && p.filter_classes(&name, &v).as_deref() != Some(v.as_str()) {
                        return Err(format!("output <{name} class={v:?}> has a class that is not allowed: {}", clip(out)));
                    }
                }
                if !t.self_closing && !VOID.contains(&name.as_str()) {
                    depth += 1;
                    max_depth = max_depth.max(depth);
                } else {
                    max_depth = max_depth.max(depth + 1);
                }
            }
            Token::EndTag(_) => depth = depth.saturating_sub(1),
            Token::Comment(_) => return Err(format!("output contains a comment: {}", clip(out))),
            Token::Doctype(_) => return Err(format!("output contains a doctype: {}", clip(out))),
            _ => {}
        }
    }
    if let Some(m) = p.max_depth {
        if max_depth > m as usize {
            return Err(format!("output nests {max_depth} levels deep, limit {m}"));
        }
    }
    Ok(())
}

fn clip(s: &str) -> String {
    s.chars().take(300).collect()
}

/// Raw-text / foreign constructs make a token-level reading of the output ambiguous when they
/// are allowed (configs without a mode); the token view is only applied when none can survive.
fn token_view_applicable(p: &Policy) -> bool {
    ["script", "style", "xmp", "iframe", "noembed", "noframes", "plaintext", "textarea", "title", "noscript", "svg", "math", "template"].iter().all(|e| p.element_ignored(e) || p.element_removed(e))
}

fn run_case(html_in: &str, b: &B, cx: &mut CaseCtx) -> Result<String, String> {
    let p = Policy::of(b);
    let config = policy::to_config(b);
    let parsed = Html::parse(html_in);
    let expected = policy::reference_clean(&parsed, &p);
    // sanitize a fresh parse (the reference walked `parsed` read-only)
    let html = Html::parse(html_in);
    html.sanitize_with(&config);
    if policy::has_other_nodes(&html) {
        return Err(format!("sanitized document still contains a node that is neither element nor text (comment / processing instruction); input {}", clip(html_in)));
    }
    let got = policy::dom(&html);
    if got != expected {
        let d = first_diff(&got, &expected, "").unwrap_or_else(|| "trees differ".into());
        return Err(format!("sanitized tree differs from what the configuration prescribes: {d}; config {b:?}; input {}", clip(html_in)));
    }
    let out = html.to_string();
    // helper functions agree with the builder for the plain modes
    if b.is_plain_mode() {
        let mode = if b.mode == 1 { HtmlSanitizerMode::Strict } else { HtmlSanitizerMode::Compat };
        let rr = if b.remove_reply_fallback { RemoveReplyFallback::Yes } else { RemoveReplyFallback::No };
        let via_helper = sanitize_html(html_in, mode, rr);
        if via_helper != out {
            return Err(format!("sanitize_html differs from sanitize_with for the same mode: {} vs {}", clip(&via_helper), clip(&out)));
        }
    }
    if token_view_applicable(&p) {
        cx.class("token_view_applied");
        token_view(&out, &p, cx)?;
        // cross-view: what a parser sees when reading the output again
        let re = Html::parse(&out);
        // Elements the HTML parser creates by itself (`tbody`, `tr` around a stray `td`, ...) can
        // only be outside the allow-list when a builder configuration splits the table family;
        // that is the configuration's doing, so element names are checked in this view only when
        // the element lists are the mode's own.
        let check_elems = b.allow_elements.is_none() && b.ignore_elements.is_none() && b.remove_elements.is_none();
        fn walk(t: &[RNode], p: &Policy, out: &str, check_elems: bool) -> Result<(), String> {
            for n in t {
                if let RNode::Elem { name, attrs, children } = n {
                    if check_elems && (p.element_removed(name) || p.element_ignored(name)) {
                        return Err(format!("re-parsed output contains <{name}> which is not allowed: {}", clip(out)));
                    }
                    for (k, v) in attrs {
                        if !p.attr_kept(name, k) {
                            return Err(format!("re-parsed output <{name}> carries attribute {k:?} which is not allowed: {}", clip(out)));
                        }
                        if p.scheme_allowed(name, k, v) == Some(false) {
                            return Err(format!("re-parsed output <{name} {k}={v:?}> has a scheme that is not allowed: {}", clip(out)));
                        }
                    }
                    walk(children, p, out, check_elems)?;
                }
            }
            Ok(())
        }
        walk(&policy::dom(&re), &p, &out, check_elems)?;
    }
    // classification
    let before = policy::dom(&parsed);
    let (nb, na) = (count_elems(&before), count_elems(&got));
    cx.class_if(nb > na, "something_removed");
    cx.class_if(na > 0, "something_kept");
    cx.class_if(tree_depth(&before) > 100, "depth_gt_100");
    cx.class_if(html_in.contains("xlink:") || html_in.contains("<svg") || html_in.contains("<math"), "foreign_ns");
    cx.class_if(html_in.contains("<font") || html_in.contains("<strike"), "deprecated");
    cx.class_if(b.allow_elements.as_ref().is_some_and(|x| x.1) || b.allow_attrs.as_ref().is_some_and(|x| x.1), "builder_override");
    cx.class_if(b.allow_elements.as_ref().is_some_and(|x| !x.1) || b.allow_attrs.as_ref().is_some_and(|x| !x.1), "builder_add");
    cx.class_if(b.mode == 0, "no_mode");
    cx.class_if(html_in.contains("mx-reply") && b.remove_reply_fallback, "reply_fallback_removed");
    cx.nontrivial_if(nb > na && na > 0);
    Ok(out)
}

fn c14_oracle(c: &SanCase, cx: &mut CaseCtx) -> Result<(), String> {
    let html_in = gen::to_html(&c.doc);
    run_case(&html_in, &c.config, cx).map(|_| ())
}

/// Attribute-order sub-space: a URI attribute accompanied by every other attribute, so that names
/// sorting before and after `href` / `src` both occur.
#[derive(Serialize, Deserialize, Debug, Clone)]
pub struct AttrOrderCase {
    pub elem: String,
    pub uri_attr: String,
    pub uri: String,
    pub other: Vec<(String, String)>,
    pub strict: bool,
}

fn attr_order_oracle(c: &AttrOrderCase, cx: &mut CaseCtx) -> Result<(), String> {
    let mut attrs = c.other.clone();
    attrs.push((c.uri_attr.clone(), c.uri.clone()));
    // written in the given order and in reverse
    for rev in [false, true] {
        let mut a = attrs.clone();
        if rev {
            a.reverse();
        }
        let doc = vec![Node::Elem { name: c.elem.clone(), attrs: a, children: vec![Node::Text("x".into())], close: 0 }];
        let html_in = gen::to_html(&doc);
        cx.class("uri_attr_with_companions");
        cx.class_if(c.other.iter().any(|(k, _)| k.as_str() < c.uri_attr.as_str()), "uri_attr_not_first_in_sort_order");
        cx.nontrivial();
        run_case(&html_in, &B::helper(c.strict, true), cx)?;
        cx.more_evals(1);
    }
    Ok(())
}

fn attr_order_space(shard: u64, n: u64) -> impl Iterator<Item = AttrOrderCase> {
    let mut all = vec![];
    let companions: Vec<(String, String)> = ["alt", "class", "aaa", "target", "title", "width", "zzz", "id", "onclick"].iter().map(|k| ((*k).to_owned(), "v".to_owned())).collect();
    for (elem, uri_attr) in [("a", "href"), ("img", "src")] {
        for uri in gen::URI_VALUES {
            for strict in [true, false] {
                // no companion, each single companion, and each pair
                all.push(AttrOrderCase { elem: elem.into(), uri_attr: uri_attr.into(), uri: (*uri).into(), other: vec![], strict });
                for (i, c1) in companions.iter().enumerate() {
                    all.push(AttrOrderCase { elem: elem.into(), uri_attr: uri_attr.into(), uri: (*uri).into(), other: vec![c1.clone()], strict });
                    for c2 in companions.iter().skip(i + 1) {
                        all.push(AttrOrderCase { elem: elem.into(), uri_attr: uri_attr.into(), uri: (*uri).into(), other: vec![c1.clone(), c2.clone()], strict });
                    }
                }
            }
        }
    }
    all.into_iter().skip(shard as usize).step_by(n as usize)
}

// ---------------------------------------------------------------------------------------------
// C15

fn reserialize(s: &str) -> String {
    Html::parse(s).to_string()
}

fn sanitize_with_b(s: &str, b: &B) -> String {
    let html = Html::parse(s);
    html.sanitize_with(&policy::to_config(b));
    html.to_string()
}

fn c15_idempotence(c: &SanCase, cx: &mut CaseCtx) -> Result<(), String> {
    let html_in = gen::to_html(&c.doc);
    let b = &c.config;
    let config = policy::to_config(b);
    let html = Html::parse(&html_in);
    html.sanitize_with(&config);
    let out = html.to_string();
    // twice on the same document object equals once
    html.sanitize_with(&config);
    let out_twice_same_object = html.to_string();
    if out_twice_same_object != out {
        return Err(format!("sanitizing the same document object twice differs from once: {} vs {}; config {b:?}", clip(&out), clip(&out_twice_same_object)));
    }
    // sanitizing the output removes and rewrites nothing
    let again = sanitize_with_b(&out, b);
    let plain = reserialize(&out);
    if again != plain {
        return Err(format!("sanitizing already-sanitized output changes it: output {} -> re-sanitized {} (plain re-serialisation {}); config {b:?}; input {}", clip(&out), clip(&again), clip(&plain), clip(&html_in)));
    }
    // the string helpers: applied once and twice
    if b.is_plain_mode() {
        let mode = if b.mode == 1 { HtmlSanitizerMode::Strict } else { HtmlSanitizerMode::Compat };
        let rr = if b.remove_reply_fallback { RemoveReplyFallback::Yes } else { RemoveReplyFallback::No };
        let once = sanitize_html(&html_in, mode, rr);
        let twice = sanitize_html(&once, mode, rr);
        let plain = reserialize(&once);
        if twice != plain {
            return Err(format!("sanitize_html applied to its own output changes it: output {} -> again {} (plain re-serialisation {}); input {}", clip(&once), clip(&twice), clip(&plain), clip(&html_in)));
        }
        if once != out {
            return Err(format!("sanitize_html differs from Html::sanitize_with for the same mode: {} vs {}; input {}", clip(&once), clip(&out), clip(&html_in)));
        }
        cx.class_if(!html_in.contains('<') && !html_in.contains('&'), "input_without_markup_or_references");
        cx.class_if(!html_in.contains('<') && !html_in.contains('&') && reserialize(&html_in) != html_in, "markup_free_input_rewritten_by_serializer");
    }
    let changed = out != reserialize(&html_in);
    cx.class_if(changed, "first_pass_changed_something");
    cx.nontrivial_if(changed);
    Ok(())
}

#[derive(Serialize, Deserialize, Debug, Clone)]
pub struct CleanCase {
    pub doc: String,
    pub strict: bool,
    pub remove_reply: bool,
}

fn c15_clean(c: &CleanCase, cx: &mut CaseCtx) -> Result<(), String> {
    let d = &c.doc;
    if reserialize(d) != *d {
        // the generator aims at parser-normal documents; a miss is a generator matter, counted
        cx.class("generator_not_parser_normal");
        return Ok(());
    }
    let mode = if c.strict { HtmlSanitizerMode::Strict } else { HtmlSanitizerMode::Compat };
    let rr = if c.remove_reply { RemoveReplyFallback::Yes } else { RemoveReplyFallback::No };
    let out = sanitize_html(d, mode, rr);
    cx.class("clean_document");
    let elems = d.matches('<').count() / 2;
    cx.class_if(d.contains("mx-reply"), "with_reply_fallback_kept");
    cx.class_if(d.contains("<table"), "with_table");
    cx.class_if(d.matches("<div>").count() > 30, "deep_but_within_limit");
    cx.nontrivial_if(elems >= 3 && d.contains("=\""));
    if out != *d {
        let i = out.bytes().zip(d.bytes()).position(|(a, b)| a != b).unwrap_or(out.len().min(d.len()));
        let from = i.saturating_sub(40);
        return Err(format!(
            "an already-clean document was changed by sanitization ({:?}, remove reply fallback {}): around byte {i}: input ...{} output ...{}",
            mode,
            c.remove_reply,
            d.get(from..).map(clip).unwrap_or_default(),
            out.get(from..).map(clip).unwrap_or_default()
        ));
    }
    if !c.remove_reply {
        // removing only the reply fallback from a document without one changes nothing either
        if !d.contains("mx-reply") && remove_html_reply_fallback(d) != *d {
            return Err("remove_html_reply_fallback changed a document without reply fallback".into());
        }
    }
    Ok(())
}

#[derive(Serialize, Deserialize, Debug, Clone)]
pub struct DeprecatedCase {
    pub input: String,
    pub expected: String,
    pub strict: bool,
}

fn c15_deprecated(c: &DeprecatedCase, cx: &mut CaseCtx) -> Result<(), String> {
    if reserialize(&c.expected) != c.expected {
        cx.class("generator_not_parser_normal");
        return Ok(());
    }
    let mode = if c.strict { HtmlSanitizerMode::Strict } else { HtmlSanitizerMode::Compat };
    let out = sanitize_html(&c.input, mode, RemoveReplyFallback::No);
    cx.class("deprecated_document");
    cx.nontrivial();
    if out != c.expected {
        return Err(format!("deprecated constructs not rewritten to their documented replacements: input {} gives {}, expected {}", clip(&c.input), clip(&out), clip(&c.expected)));
    }
    Ok(())
}

fn san_case(builder_share: u32) -> impl Strategy<Value = SanCase> {
    let helper = (any::<bool>(), any::<bool>()).prop_map(|(s, r)| B::helper(s, r));
    let config = prop_oneof![(10 - builder_share) => helper.boxed(), builder_share => policy::builder_config().boxed()];
    (prop_oneof![12 => gen::nodes(4).boxed(), 1 => gen::text_only().boxed()], config).prop_map(|(doc, config)| SanCase { doc, config })
}

fn main() {
    let args: Vec<String> = std::env::args().skip(1).collect();
    let id = args.first().cloned().unwrap_or_default();
    let mut ck = Check::from_env(&id, &args[1.min(args.len())..]);
    match id.as_str() {
        "C14" => {
            ck.rule(
                "G1: HTML generated from a grammar over allowed, deprecated, forbidden and foreign elements, attributes in arbitrary number and order (URI attributes with every scheme spelling, classes, event handlers, namespaced and upper-case names), comments / doctype / CDATA / PIs, mx-reply, malformed markup, nesting up to 320 levels; \
                 configurations: strict / compat x reply-fallback removal, and builder configurations (mode x allow/remove/ignore elements, allow/remove attributes, allow/deny schemes, allow/remove classes, max depth; add and override). \
                 G2: every URI value x {a/href, img/src} x every 0-2 companion attributes in both orders. \
                 Oracle: the sanitized DOM must equal a reference cleaner driven by a policy derived independently from the configuration data; the serialised output is tokenised with html5gum and re-parsed, and both views are checked against the policy. \
                 Non-trivial = input with something that must be removed and something that must stay.",
            );
            ck.assume("element depth is counted in the input tree (an ignored element's children count one level deeper), as the sanitizer documents");
            ck.assume("token-level view applied only when no raw-text or foreign-content element may survive (always in strict/compat mode without element additions)");
            ck.exhaustive("uri_attribute_companions", true, attr_order_space, attr_order_oracle);
            let n = ck.n(120_000, 2_000_000);
            ck.prop("modes", n, || san_case(0), c14_oracle);
            let n = ck.n(100_000, 1_500_000);
            ck.prop("builder_configs", n, || san_case(10), c14_oracle);
            for cls in ["something_removed", "something_kept", "depth_gt_100", "foreign_ns", "deprecated", "reply_fallback_removed", "token_view_applied"] {
                ck.floor("modes", cls, 300);
            }
            for cls in ["builder_override", "builder_add", "no_mode", "something_removed", "something_kept"] {
                ck.floor("builder_configs", cls, 300);
            }
            ck.floor("uri_attribute_companions", "uri_attr_not_first_in_sort_order", 500);
        }
        "C15" => {
            ck.rule(
                "G1 (idempotence): the C14 inputs and configurations; sanitize(out) must equal parse-and-reserialise(out), and sanitizing one document object twice must equal once. \
                 G1 (preservation): documents generated from the allow-list grammar (block/inline/list/table/details skeletons, allowed attributes written in serialisation order, allowed schemes and classes, depth <= 100, optional mx-reply when it is kept) must come back byte-identical in strict and compat mode, with and without reply-fallback removal; \
                 deprecated-construct documents (font with color and other attributes, strike) must equal the documented rewriting. Non-trivial = clean document with >= 3 elements and an attribute, or an idempotence case whose first pass changed something.",
            );
            ck.assume("a generated 'clean' document that is not parser-normal (parse + serialise changes it) is a generator miss: counted, not asserted");
            let n = ck.n(40_000, 2_000_000);
            ck.prop("idempotence_modes", n, || san_case(0), c15_idempotence);
            let n = ck.n(20_000, 1_000_000);
            ck.prop(
                "clean_documents_unchanged",
                n,
                || (any::<bool>(), any::<bool>()).prop_flat_map(|(strict, remove_reply)| gen::clean_document(!strict, !remove_reply).prop_map(move |doc| CleanCase { doc, strict, remove_reply })),
                c15_clean,
            );
            let n = ck.n(5_000, 200_000);
            ck.prop("deprecated_rewritten", n, || (gen::deprecated_document(), any::<bool>()).prop_map(|((input, expected), strict)| DeprecatedCase { input, expected, strict }), c15_deprecated);
            ck.floor("idempotence_modes", "first_pass_changed_something", 5000);
            ck.floor("idempotence_modes", "markup_free_input_rewritten_by_serializer", 100);
            ck.floor("clean_documents_unchanged", "clean_document", 10000);
            ck.floor("clean_documents_unchanged", "with_table", 300);
            ck.floor("clean_documents_unchanged", "with_reply_fallback_kept", 300);
            ck.floor("clean_documents_unchanged", "deep_but_within_limit", 100);
            ck.floor("deprecated_rewritten", "deprecated_document", 2000);
        }
        _ => {
            eprintln!("vf-html: unknown property {id}");
            std::process::exit(2);
        }
    }
    ck.finish()
}
