//! HTML input generators: a grammar over allowed, deprecated, forbidden and foreign elements,
//! attributes in every order, URI values with every scheme spelling, malformed markup and deep
//! nesting; and a generator of already-clean, parser-normal documents from the allow-list grammar.

use proptest::prelude::*;
use serde::{Deserialize, Serialize};
use vf_engine::pick_idx;

pub const ALLOWED: &[&str] = &[
    "del", "h1", "h2", "h3", "h4", "h5", "h6", "blockquote", "p", "a", "ul", "ol", "sup", "sub", "li", "b", "i", "u", "strong", "em", "s", "code", "hr", "br", "div", "table", "thead",
    "tbody", "tr", "th", "td", "caption", "pre", "span", "img", "details", "summary",
];
pub const DEPRECATED: &[&str] = &["font", "strike"];
pub const FORBIDDEN: &[&str] = &[
    "script", "style", "iframe", "object", "form", "input", "textarea", "title", "noscript", "template", "plaintext", "xmp", "select", "option", "button", "video", "audio", "marquee", "body",
    "html", "head", "link", "meta", "base", "center", "section", "x-custom",
];
pub const FOREIGN: &[&str] = &["svg", "math", "mtext", "mglyph", "foreignObject", "annotation-xml", "desc", "mi", "mo", "g", "use"];
pub const VOID: &[&str] = &["br", "hr", "img", "input", "link", "meta", "base"];

pub const ATTR_NAMES: &[&str] = &[
    "href", "src", "target", "width", "height", "alt", "title", "start", "class", "id", "style", "onclick", "onerror", "data-mx-color", "data-mx-bg-color", "data-mx-spoiler", "data-mx-maths",
    "color", "xlink:href", "HREF", "SRC", "aaa", "zzz", "name", "rel", "definitionurl", "encoding",
];

pub const URI_VALUES: &[&str] = &[
    "https://example.org/a?b=c", "http://example.org", "ftp://f", "mailto:a@b.c", "magnet:?xt=1", "matrix:u/a:b.c", "mxc://server/media", "javascript:alert(1)", "JavaScript:alert(1)",
    "data:text/html,x", "vbscript:x", " https://leading.space", "\thttps://tab", "\njavascript:x", "java\tscript:x", "https&#58;//entity.colon", "javascript&#58;x", "&#106;avascript:x", "//no.scheme",
    "/relative", "", "https", "https:", "HTTPS://UPPER", "mxc:", "MXC://UPPER/x", "httpsx://near", "http:/single", "matrix", "file:///etc/passwd", "blob:x",
];

pub const CLASS_TOKENS: &[&str] = &["language-rust", "language-", "language", "lang-rust", "x", "language-c++", "LANGUAGE-X", "language-a b", "hljs"];

#[derive(Serialize, Deserialize, Debug, Clone)]
pub enum Node {
    Text(String),
    Elem { name: String, attrs: Vec<(String, String)>, children: Vec<Node>, close: u8 },
    Comment(String),
    /// raw markup noise written verbatim
    Raw(String),
    MxReply(Vec<Node>),
    /// `levels` nested copies of `name` around `inner`
    Deep { name: String, levels: u16, inner: Vec<Node> },
}

fn esc_attr(v: &str) -> String {
    // keep `&` as is (entity-encoded colons are part of the test vocabulary), escape the quote
    v.replace('"', "&quot;")
}

pub fn render(nodes: &[Node], out: &mut String) {
    for n in nodes {
        match n {
            Node::Text(t) => out.push_str(t),
            Node::Comment(c) => {
                out.push_str("<!--");
                out.push_str(c);
                out.push_str("-->");
            }
            Node::Raw(r) => out.push_str(r),
            Node::MxReply(ch) => {
                out.push_str("<mx-reply>");
                render(ch, out);
                out.push_str("</mx-reply>");
            }
            Node::Deep { name, levels, inner } => {
                for _ in 0..*levels {
                    out.push('<');
                    out.push_str(name);
                    out.push('>');
                }
                render(inner, out);
                for _ in 0..*levels {
                    out.push_str("</");
                    out.push_str(name);
                    out.push('>');
                }
            }
            Node::Elem { name, attrs, children, close } => {
                out.push('<');
                out.push_str(name);
                for (i, (k, v)) in attrs.iter().enumerate() {
                    out.push(' ');
                    out.push_str(k);
                    match (close.wrapping_add(i as u8)) % 7 {
                        // mostly double-quoted; sometimes single-quoted, unquoted-safe or valueless
                        5 if !v.contains('\'') => {
                            out.push_str("='");
                            out.push_str(v);
                            out.push('\'');
                        }
                        6 if v.is_empty() => {}
                        _ => {
                            out.push_str("=\"");
                            out.push_str(&esc_attr(v));
                            out.push('"');
                        }
                    }
                }
                if close % 11 == 10 {
                    out.push_str("/>");
                } else {
                    out.push('>');
                }
                render(children, out);
                let void = VOID.contains(&name.to_ascii_lowercase().as_str());
                match close % 5 {
                    // usually properly closed; sometimes unclosed or closed with a stray tag
                    3 => {}
                    4 => out.push_str("</b>"),
                    _ if void => {}
                    _ => {
                        out.push_str("</");
                        out.push_str(name);
                        out.push('>');
                    }
                }
            }
        }
    }
}

pub fn to_html(nodes: &[Node]) -> String {
    let mut s = String::new();
    render(nodes, &mut s);
    s
}

fn elem_name() -> impl Strategy<Value = String> {
    prop_oneof![
        8 => any::<u16>().prop_map(|s| ALLOWED[pick_idx(s, ALLOWED.len())].to_owned()),
        2 => any::<u16>().prop_map(|s| DEPRECATED[pick_idx(s, DEPRECATED.len())].to_owned()),
        3 => any::<u16>().prop_map(|s| FORBIDDEN[pick_idx(s, FORBIDDEN.len())].to_owned()),
        2 => any::<u16>().prop_map(|s| FOREIGN[pick_idx(s, FOREIGN.len())].to_owned()),
        1 => any::<u16>().prop_map(|s| ALLOWED[pick_idx(s, ALLOWED.len())].to_uppercase()),
    ]
}

fn attr() -> impl Strategy<Value = (String, String)> {
    (any::<u16>(), any::<u16>(), any::<u16>(), 0u8..10).prop_map(|(n, u, c, kind)| {
        let name = ATTR_NAMES[pick_idx(n, ATTR_NAMES.len())].to_owned();
        let lower = name.to_ascii_lowercase();
        let value = if lower.ends_with("href") || lower == "src" || kind == 0 {
            URI_VALUES[pick_idx(u, URI_VALUES.len())].to_owned()
        } else if lower == "class" {
            let a = CLASS_TOKENS[pick_idx(c, CLASS_TOKENS.len())];
            let b = CLASS_TOKENS[pick_idx(u, CLASS_TOKENS.len())];
            match kind % 3 {
                0 => a.to_owned(),
                1 => format!("{a} {b}"),
                _ => format!("  {b}\t{a} "),
            }
        } else {
            ["1", "", "red", "#ff0000", "_blank", "x y", "a&b", "\u{e9}"][pick_idx(u, 8)].to_owned()
        };
        (name, value)
    })
}

fn text() -> impl Strategy<Value = String> {
    prop_oneof![
        6 => "[a-zA-Z0-9 .,!?]{1,12}",
        1 => Just("&amp; &lt;b&gt; &quot;".to_owned()),
        1 => Just("a < b > c & d".to_owned()),
        1 => Just("\u{e9}\u{1F600}\u{a0}".to_owned()),
        1 => Just("\n".to_owned()),
        1 => Just("\u{0}nul".to_owned()),
        // text the serializer / parser pair rewrites although it contains neither '<' nor '&'
        1 => Just("1 > 0".to_owned()),
        1 => Just("line one\r\nline two\rthree".to_owned()),
        1 => "[a-z>\u{a0}\r\n\u{0} \"']{1,8}",
    ]
}

fn raw_noise() -> impl Strategy<Value = String> {
    prop_oneof![
        Just("<!DOCTYPE html>".to_owned()),
        Just("<![CDATA[ <b>cdata</b> ]]>".to_owned()),
        Just("<?php echo 1 ?>".to_owned()),
        Just("</p>".to_owned()),
        Just("</div></span>".to_owned()),
        Just("<a href=\"https://x\"".to_owned()),
        Just("<".to_owned()),
        Just("<!-- unterminated".to_owned()),
        Just("<b><i>misnested</b></i>".to_owned()),
        Just("<table><b>foster</b><tr><td>x</td></tr></table>".to_owned()),
        Just("<svg><a xlink:href=\"javascript:x\">l</a><foreignObject><p>x</p></foreignObject></svg>".to_owned()),
        Just("<math><mtext><img src=\"http://x\"></mtext><annotation-xml encoding=\"text/html\"><b>x</b></annotation-xml></math>".to_owned()),
        Just("<p/>".to_owned()),
        Just("<img src=mxc://a/b alt=unquoted>".to_owned()),
        Just("<a href=\"https://ok\" onclick=\"x()\" class=\"c\">l</a>".to_owned()),
        Just("<a class=\"x\" href=\"javascript:alert(1)\">evil</a>".to_owned()),
        Just("<img alt=\"x\" src=\"http://tracker/x.png\">".to_owned()),
        Just("<code class=\"language-rust x\">c</code>".to_owned()),
    ]
}

/// Documents without any markup: one to three text nodes.
pub fn text_only() -> impl Strategy<Value = Vec<Node>> {
    prop::collection::vec(text().prop_map(Node::Text), 1..4)
}

pub fn nodes(depth: u32) -> impl Strategy<Value = Vec<Node>> {
    let leaf = prop_oneof![
        6 => text().prop_map(Node::Text),
        1 => "[a-z <>-]{0,8}".prop_map(Node::Comment),
        2 => raw_noise().prop_map(Node::Raw),
        2 => (elem_name(), prop::collection::vec(attr(), 0..4), any::<u8>()).prop_map(|(name, attrs, close)| Node::Elem { name, attrs, children: vec![], close }),
    ];
    let tree = leaf.prop_recursive(depth, 48, 5, |inner| {
        prop_oneof![
            8 => (elem_name(), prop::collection::vec(attr(), 0..5), prop::collection::vec(inner.clone(), 0..5), any::<u8>()).prop_map(|(name, attrs, children, close)| Node::Elem { name, attrs, children, close }),
            1 => prop::collection::vec(inner.clone(), 0..3).prop_map(Node::MxReply),
            1 => (prop_oneof![Just("div"), Just("span"), Just("b"), Just("blockquote"), Just("font"), Just("section"), Just("svg"), Just("ul")], prop_oneof![5 => 1u16..8, 2 => 95u16..106, 1 => 106u16..320], prop::collection::vec(inner, 0..3))
                .prop_map(|(name, levels, inner)| Node::Deep { name: name.to_owned(), levels, inner }),
        ]
    });
    prop::collection::vec(prop_oneof![24 => tree, 1 => near_limit_structure()], 0..5)
}

/// A small structure whose parse differs from its text (implied `tbody`, foster parenting, list
/// and paragraph auto-closing) or that contains an element the sanitizer unwraps, placed right at
/// the depth limit: what the first pass keeps there must survive a second pass too.
fn near_limit_structure() -> impl Strategy<Value = Node> {
    let el = |name: &str, children: Vec<Node>| Node::Elem { name: name.to_owned(), attrs: vec![], children, close: 0 };
    let cell = (prop_oneof![Just("td"), Just("th")], "[a-z]{1,4}").prop_map(move |(n, t)| Node::Elem { name: n.to_owned(), attrs: vec![], children: vec![Node::Text(t)], close: 0 });
    let table = (cell, prop_oneof![Just(""), Just("tbody"), Just("thead"), Just("tfoot"), Just("center"), Just("section")], any::<bool>(), any::<bool>()).prop_map(move |(cell, group, with_tr, caption)| {
        let mut row = if with_tr { el("tr", vec![cell]) } else { cell };
        if !group.is_empty() {
            row = el(group, vec![row]);
        }
        let mut kids = vec![];
        if caption {
            kids.push(el("caption", vec![Node::Text("c".into())]));
        }
        kids.push(row);
        el("table", kids)
    });
    let list = (prop_oneof![Just("ul"), Just("ol"), Just("menu"), Just("dir")], "[a-z]{1,4}", any::<bool>()).prop_map(move |(l, t, nested)| {
        let li = el("li", vec![Node::Text(t)]);
        el(l, if nested { vec![el("center", vec![li])] } else { vec![li] })
    });
    let para = ("[a-z]{1,4}", prop_oneof![Just("div"), Just("p"), Just("h1"), Just("x-unknown"), Just("font")]).prop_map(move |(t, inner)| el("p", vec![Node::Text(t.clone()), el(inner, vec![Node::Text(t)])]));
    (prop_oneof![Just("div"), Just("blockquote"), Just("span")], 90u16..=102, prop_oneof![3 => table.boxed(), 1 => list.boxed(), 1 => para.boxed()]).prop_map(|(name, levels, inner)| Node::Deep { name: name.to_owned(), levels, inner: vec![inner] })
}

// ---------------------------------------------------------------------------------------------
// Clean documents from the allow-list grammar (parser-normal: parse -> serialise is the identity).

fn clean_text() -> impl Strategy<Value = String> {
    "[a-zA-Z0-9][a-zA-Z0-9 .,!?]{0,10}[a-zA-Z0-9]"
}

fn sorted_attrs(mut a: Vec<(String, String)>) -> String {
    a.sort();
    a.dedup_by(|x, y| x.0 == y.0);
    a.iter().map(|(k, v)| format!(" {k}=\"{v}\"")).collect()
}

const OK_HREF: &[&str] = &["https://example.org/a", "http://x.y", "ftp://f/g", "mailto:a@b.c", "magnet:?xt=urn"];

fn inline(depth: u32, compat: bool, in_a: bool) -> BoxedStrategy<String> {
    let leaf = prop_oneof![
        4 => clean_text().boxed(),
        1 => Just("<br>".to_owned()).boxed(),
        1 => (any::<u16>(), prop::option::of("[a-z]{1,5}"), prop::option::of(1u32..500)).prop_map(|(m, alt, w)| {
            let mut a = vec![("src".to_owned(), format!("mxc://server{}/media{}", m % 3, m))];
            if let Some(alt) = alt { a.push(("title".to_owned(), format!("t {alt}"))); a.push(("alt".to_owned(), alt)); }
            if let Some(w) = w { a.push(("width".to_owned(), w.to_string())); a.push(("height".to_owned(), (w / 2).to_string())); }
            format!("<img{}>", sorted_attrs(a))
        }).boxed(),
    ];
    if depth == 0 {
        return leaf.boxed();
    }
    let kids = move || prop::collection::vec(inline(depth - 1, compat, in_a), 1..3).prop_map(|v| {
        // avoid adjacent text nodes that would merge: join with an element boundary is fine, texts get a <br> between
        let mut out = String::new();
        let mut last_text = false;
        for s in v {
            let is_text = !s.starts_with('<');
            if is_text && last_text {
                out.push_str("<br>");
            }
            out.push_str(&s);
            last_text = is_text;
        }
        out
    });
    let fmt = (prop_oneof![Just("b"), Just("i"), Just("u"), Just("strong"), Just("em"), Just("s"), Just("del"), Just("sup"), Just("sub")], kids()).prop_map(|(t, k)| format!("<{t}>{k}</{t}>"));
    // zero to three allowed classes (single spaces: a class attribute the sanitizer need not rewrite)
    let code = (prop::collection::vec("[a-z]{1,6}", 0..4), clean_text(), any::<bool>()).prop_map(|(l, t, empty_attr)| {
        if l.is_empty() && empty_attr {
            // an allowed attribute with an empty value is still an allowed attribute
            format!("<code class=\"\">{t}</code>")
        } else if l.is_empty() {
            format!("<code>{t}</code>")
        } else {
            format!("<code class=\"{}\">{t}</code>", l.iter().map(|x| format!("language-{x}")).collect::<Vec<_>>().join(" "))
        }
    });
    let span = (prop::collection::vec((prop_oneof![Just("data-mx-color"), Just("data-mx-bg-color"), Just("data-mx-spoiler"), Just("data-mx-maths")], "[a-z0-9#]{0,7}"), 0..3), kids())
        .prop_map(|(a, k)| format!("<span{}>{k}</span>", sorted_attrs(a.into_iter().map(|(k, v)| (k.to_owned(), v)).collect())));
    if in_a {
        prop_oneof![3 => leaf, 3 => fmt, 1 => code, 2 => span].boxed()
    } else {
        let a = (any::<u16>(), any::<bool>(), prop::collection::vec(inline(depth - 1, compat, true), 1..3).prop_map(|v| v.join("<br>"))).prop_map(move |(h, target, k)| {
            let href = if compat && h % 6 == 5 { "matrix:u/alice:example.org".to_owned() } else { OK_HREF[pick_idx(h, OK_HREF.len())].to_owned() };
            let mut attrs = vec![("href".to_owned(), href)];
            if target {
                attrs.push(("target".to_owned(), "_blank".to_owned()));
            }
            format!("<a{}>{k}</a>", sorted_attrs(attrs))
        });
        prop_oneof![3 => leaf, 3 => fmt, 1 => code, 2 => span, 2 => a].boxed()
    }
}

fn inlines(depth: u32, compat: bool) -> BoxedStrategy<String> {
    prop::collection::vec(inline(depth, compat, false), 1..4)
        .prop_map(|v| {
            let mut out = String::new();
            let mut last_text = false;
            for s in v {
                let is_text = !s.starts_with('<');
                if is_text && last_text {
                    out.push_str("<br>");
                }
                out.push_str(&s);
                last_text = is_text;
            }
            out
        })
        .boxed()
}

fn block(depth: u32, compat: bool) -> BoxedStrategy<String> {
    let simple = prop_oneof![
        3 => inlines(2, compat).prop_map(|k| format!("<p>{k}</p>")),
        1 => (1u8..=6, inlines(1, compat)).prop_map(|(n, k)| format!("<h{n}>{k}</h{n}>")),
        1 => Just("<hr>".to_owned()),
        1 => clean_text().prop_map(|t| format!("<pre><code>{t}</code></pre>")),
    ];
    if depth == 0 {
        return simple.boxed();
    }
    let blocks = move || prop::collection::vec(block(depth - 1, compat), 1..3).prop_map(|v| v.concat());
    let list = (any::<bool>(), prop::option::of(1u32..50), prop::collection::vec(prop_oneof![inlines(1, compat), block(depth - 1, compat)], 1..3)).prop_map(|(ordered, start, items)| {
        let items: String = items.into_iter().map(|i| format!("<li>{i}</li>")).collect();
        if ordered {
            match start {
                Some(s) => format!("<ol start=\"{s}\">{items}</ol>"),
                None => format!("<ol>{items}</ol>"),
            }
        } else {
            format!("<ul>{items}</ul>")
        }
    });
    let table = (prop::option::of(clean_text()), any::<bool>(), prop::collection::vec(prop::collection::vec(inlines(1, compat), 1..3), 1..3)).prop_map(|(cap, head, rows)| {
        let mut t = String::from("<table>");
        if let Some(c) = cap {
            t.push_str(&format!("<caption>{c}</caption>"));
        }
        if head {
            t.push_str("<thead><tr><th>h</th></tr></thead>");
        }
        t.push_str("<tbody>");
        for r in rows {
            t.push_str("<tr>");
            for c in r {
                t.push_str(&format!("<td>{c}</td>"));
            }
            t.push_str("</tr>");
        }
        t.push_str("</tbody></table>");
        t
    });
    let details = (clean_text(), blocks()).prop_map(|(s, b)| format!("<details><summary>{s}</summary>{b}</details>"));
    let div = (prop::option::of("[a-z0-9]{0,5}"), blocks()).prop_map(|(m, b)| match m {
        Some(m) => format!("<div data-mx-maths=\"{m}\">{b}</div>"),
        None => format!("<div>{b}</div>"),
    });
    let quote = blocks().prop_map(|b| format!("<blockquote>{b}</blockquote>"));
    prop_oneof![4 => simple, 2 => list, 1 => table, 1 => details, 2 => div, 2 => quote].boxed()
}

/// Already-clean documents. `with_reply`: an `mx-reply` block may lead the document.
pub fn clean_document(compat: bool, with_reply: bool) -> impl Strategy<Value = String> {
    (prop::collection::vec(block(3, compat), 1..4), any::<bool>(), 0u16..96).prop_map(move |(b, reply, wrap)| {
        let mut d = String::new();
        if with_reply && reply {
            d.push_str("<mx-reply><blockquote><a href=\"https://matrix.to/#/!r:x.y/$e\">In reply to</a> <a href=\"https://matrix.to/#/@u:x.y\">@u:x.y</a><br>quoted</blockquote></mx-reply>");
        }
        let body = b.concat();
        // occasionally wrap deeply (but within the limit: blocks nest at most ~12 levels themselves)
        if wrap > 60 {
            let n = (wrap - 60) as usize * 2;
            d.push_str(&"<div>".repeat(n));
            d.push_str(&body);
            d.push_str(&"</div>".repeat(n));
        } else {
            d.push_str(&body);
        }
        d
    })
}

/// Documents exercising the deprecated constructs: `font` (with `color` and other attributes)
/// and `strike`, nested with allowed content. Returns (input, expected output).
pub fn deprecated_document() -> impl Strategy<Value = (String, String)> {
    let piece = (0u8..4, prop::option::of("[a-f0-9]{6}"), prop::option::of("[a-f0-9]{6}"), inlines(1, false), any::<bool>()).prop_map(|(kind, color, bg, inner, extra)| match kind {
        0 | 1 => {
            let mut a_in = vec![];
            let mut a_out = vec![];
            if let Some(c) = &color {
                a_in.push(("color".to_owned(), format!("#{c}")));
                a_out.push(("data-mx-color".to_owned(), format!("#{c}")));
            }
            if let Some(b) = &bg {
                a_in.push(("data-mx-bg-color".to_owned(), format!("#{b}")));
                a_out.push(("data-mx-bg-color".to_owned(), format!("#{b}")));
            }
            if extra {
                // an attribute that is not allowed on span: must disappear
                a_in.push(("face".to_owned(), "arial".to_owned()));
            }
            (format!("<font{}>{inner}</font>", sorted_attrs(a_in)), format!("<span{}>{inner}</span>", sorted_attrs(a_out)))
        }
        2 => (format!("<strike>{inner}</strike>"), format!("<s>{inner}</s>")),
        _ => (format!("<p><strike><font color=\"red\">{inner}</font></strike></p>"), format!("<p><s><span data-mx-color=\"red\">{inner}</span></s></p>")),
    });
    // each piece may sit inside an element that is merely not allowed (its children are kept in
    // place), nested twice, or inside an allowed block
    let wrapped = (piece, 0u8..6).prop_map(|((i, o), w)| match w {
        0 | 1 => (i, o),
        2 => (format!("<center>{i}</center>"), o),
        3 => (format!("<section><center>{i}</center></section>"), o),
        4 => (format!("<x-unknown>{i}tail</x-unknown>"), format!("{o}tail")),
        _ => (format!("<div>{i}</div>"), format!("<div>{o}</div>")),
    });
    prop::collection::vec(wrapped, 1..4).prop_map(|v| {
        let mut i = String::new();
        let mut o = String::new();
        for (a, b) in v {
            i.push_str(&a);
            o.push_str(&b);
        }
        (i, o)
    })
}
