//! Sanitizer configurations as plain data, the ruma `SanitizerConfig` built from them through the
//! public builder only, and an independent *policy* + reference cleaner written from the builder's
//! rustdoc and from the specification's "m.room.message msgtypes" section.

use std::collections::{BTreeMap, BTreeSet};

use proptest::prelude::*;
use ruma_html::{ElementAttributesSchemes, Html, HtmlSanitizerMode, ListBehavior, NodeData, NodeRef, PropertiesNames, SanitizerConfig};
use serde::{Deserialize, Serialize};

pub const ELEM_POOL: &[&str] = &[
    "a", "b", "i", "p", "div", "span", "img", "code", "ol", "ul", "li", "blockquote", "font", "strike", "script", "style", "iframe", "svg", "math", "mtext", "form", "input", "section", "mx-reply",
    "table", "tr", "td", "h1", "pre", "x-custom", "desc", "g",
];
pub const ATTR_POOL: &[&str] = &["href", "src", "target", "class", "id", "style", "onclick", "alt", "title", "width", "start", "data-mx-color", "color", "aaa", "zzz", "name"];
pub const SCHEME_POOL: &[&str] = &["https", "http", "mxc", "matrix", "javascript", "data", "ftp", "mailto", "java"];
pub const CLASS_POOL: &[&str] = &["language-*", "x", "hljs", "lang-*", "*", "language-rust", "l?ng*"];

// --- specification lists (client-server spec, m.room.message msgtypes, "HTML") -------------------
pub const SPEC_ELEMENTS: &[&str] = &[
    "del", "h1", "h2", "h3", "h4", "h5", "h6", "blockquote", "p", "a", "ul", "ol", "sup", "sub", "li", "b", "i", "u", "strong", "em", "s", "code", "hr", "br", "div", "table", "thead", "tbody",
    "tr", "th", "td", "caption", "pre", "span", "img", "details", "summary", "mx-reply",
];
pub fn spec_attrs(elem: &str) -> &'static [&'static str] {
    match elem {
        "span" => &["data-mx-bg-color", "data-mx-color", "data-mx-spoiler", "data-mx-maths"],
        "a" => &["target", "href"],
        "img" => &["width", "height", "alt", "title", "src"],
        "ol" => &["start"],
        "code" => &["class"],
        "div" => &["data-mx-maths"],
        _ => &[],
    }
}
pub fn spec_schemes(elem: &str, attr: &str, compat: bool) -> Option<Vec<&'static str>> {
    match (elem, attr) {
        ("a", "href") => {
            let mut v = vec!["https", "http", "ftp", "mailto", "magnet"];
            if compat {
                v.push("matrix");
            }
            Some(v)
        }
        ("img", "src") => Some(vec!["mxc"]),
        _ => None,
    }
}
pub fn spec_classes(elem: &str) -> &'static [&'static str] {
    match elem {
        "code" => &["language-*"],
        _ => &[],
    }
}

type Idx = u16;
fn pool<'a>(p: &'a [&'static str], i: Idx) -> &'static str {
    p[(i as usize * p.len()) >> 16]
}

/// Builder configuration as plain data. Lists hold selectors into the static pools.
#[derive(Serialize, Deserialize, Debug, Clone, Default)]
pub struct B {
    /// 0 none, 1 strict, 2 compat
    pub mode: u8,
    pub remove_reply_fallback: bool,
    pub allow_elements: Option<(Vec<Idx>, bool)>,
    pub remove_elements: Option<Vec<Idx>>,
    pub ignore_elements: Option<Vec<Idx>>,
    pub allow_attrs: Option<(Vec<(Idx, Vec<Idx>)>, bool)>,
    pub remove_attrs: Option<Vec<(Idx, Vec<Idx>)>>,
    pub allow_schemes: Option<(Vec<(Idx, Idx, Vec<Idx>)>, bool)>,
    pub deny_schemes: Option<Vec<(Idx, Idx, Vec<Idx>)>>,
    pub allow_classes: Option<(Vec<(Idx, Vec<Idx>)>, bool)>,
    pub remove_classes: Option<Vec<(Idx, Vec<Idx>)>>,
    pub max_depth: Option<u32>,
    /// order in which the builder methods are called (0 = declaration order)
    #[serde(default)]
    pub call_order: u8,
}

impl B {
    pub fn helper(strict: bool, remove_reply_fallback: bool) -> B {
        B { mode: if strict { 1 } else { 2 }, remove_reply_fallback, ..Default::default() }
    }
    pub fn is_plain_mode(&self) -> bool {
        self.mode != 0
            && self.allow_elements.is_none()
            && self.remove_elements.is_none()
            && self.ignore_elements.is_none()
            && self.allow_attrs.is_none()
            && self.remove_attrs.is_none()
            && self.allow_schemes.is_none()
            && self.deny_schemes.is_none()
            && self.allow_classes.is_none()
            && self.remove_classes.is_none()
            && self.max_depth.is_none()
    }
}

fn behavior(o: bool) -> ListBehavior {
    if o {
        ListBehavior::Override
    } else {
        ListBehavior::Add
    }
}

/// Build the ruma configuration through the public builder. The builder calls are independent of
/// each other (each sets its own list), so they are issued in an order derived from
/// `b.call_order` (0 = declaration order).
pub fn to_config(b: &B) -> SanitizerConfig {
    let mut c = match b.mode {
        1 => SanitizerConfig::strict(),
        2 => SanitizerConfig::with_mode(HtmlSanitizerMode::Compat),
        _ => SanitizerConfig::new(),
    };
    let mut steps: Vec<u32> = (0..12).collect();
    if b.call_order != 0 {
        let k = b.call_order as u32;
        steps.sort_by_key(|i| (i.wrapping_mul(2654435761).wrapping_add(k.wrapping_mul(40503))).rotate_left(k % 31) % 1009);
    }
    for i in steps {
        c = apply_step(c, b, i);
    }
    c
}

fn apply_step(mut c: SanitizerConfig, b: &B, step: u32) -> SanitizerConfig {
    fn props(l: &[(Idx, Vec<Idx>)], p: &'static [&'static str]) -> Vec<(&'static str, Vec<&'static str>)> {
        // later entries for the same parent replace earlier ones (they are collected into a map)
        l.iter().map(|(e, a)| (pool(ELEM_POOL, *e), a.iter().map(|i| pool(p, *i)).collect())).collect()
    }
    fn schemes(l: &[(Idx, Idx, Vec<Idx>)]) -> Vec<(&'static str, Vec<(&'static str, Vec<&'static str>)>)> {
        // group by element (last entry per (element, attribute) wins, as in a map)
        let mut m: BTreeMap<&'static str, BTreeMap<&'static str, Vec<&'static str>>> = BTreeMap::new();
        for (e, a, s) in l {
            m.entry(pool(ELEM_POOL, *e)).or_default().insert(pool(ATTR_POOL, *a), s.iter().map(|i| pool(SCHEME_POOL, *i)).collect());
        }
        m.into_iter().map(|(e, am)| (e, am.into_iter().collect())).collect()
    }
    match step {
        0 => {
            if b.remove_reply_fallback {
                c = c.remove_reply_fallback();
            }
        }
        1 => {
            if let Some((l, o)) = &b.allow_elements {
                c = c.allow_elements(l.iter().map(|i| pool(ELEM_POOL, *i)), behavior(*o));
            }
        }
        2 => {
            if let Some(l) = &b.remove_elements {
                c = c.remove_elements(l.iter().map(|i| pool(ELEM_POOL, *i)));
            }
        }
        3 => {
            if let Some(l) = &b.ignore_elements {
                c = c.ignore_elements(l.iter().map(|i| pool(ELEM_POOL, *i)));
            }
        }
        4 => {
            if let Some((l, o)) = &b.allow_attrs {
                let v = props(l, ATTR_POOL);
                c = c.allow_attributes(v.iter().map(|(e, a)| PropertiesNames { parent: e, properties: a }), behavior(*o));
            }
        }
        5 => {
            if let Some(l) = &b.remove_attrs {
                let v = props(l, ATTR_POOL);
                c = c.remove_attributes(v.iter().map(|(e, a)| PropertiesNames { parent: e, properties: a }));
            }
        }
        6 => {
            if let Some((l, o)) = &b.allow_classes {
                let v = props(l, CLASS_POOL);
                c = c.allow_classes(v.iter().map(|(e, a)| PropertiesNames { parent: e, properties: a }), behavior(*o));
            }
        }
        7 => {
            if let Some(l) = &b.remove_classes {
                let v = props(l, CLASS_POOL);
                c = c.remove_classes(v.iter().map(|(e, a)| PropertiesNames { parent: e, properties: a }));
            }
        }
        8 => {
            if let Some((l, o)) = &b.allow_schemes {
                let v = schemes(l);
                let pn: Vec<(&'static str, Vec<PropertiesNames<'_>>)> = v.iter().map(|(e, am)| (*e, am.iter().map(|(a, s)| PropertiesNames { parent: a, properties: s }).collect())).collect();
                c = c.allow_schemes(pn.iter().map(|(e, am)| ElementAttributesSchemes { element: e, attr_schemes: am }), behavior(*o));
            }
        }
        9 => {
            if let Some(l) = &b.deny_schemes {
                let v = schemes(l);
                let pn: Vec<(&'static str, Vec<PropertiesNames<'_>>)> = v.iter().map(|(e, am)| (*e, am.iter().map(|(a, s)| PropertiesNames { parent: a, properties: s }).collect())).collect();
                c = c.deny_schemes(pn.iter().map(|(e, am)| ElementAttributesSchemes { element: e, attr_schemes: am }));
            }
        }
        10 => {
            if let Some(d) = b.max_depth {
                c = c.max_depth(d);
            }
        }
        _ => {}
    }
    c
}

/// The policy a configuration denotes, per the builder's documentation.
pub struct Policy {
    pub strict: bool,
    pub compat: bool,
    pub remove_reply: bool,
    allow_elements: Option<(BTreeSet<&'static str>, bool)>,
    remove_elements: BTreeSet<&'static str>,
    ignore_elements: BTreeSet<&'static str>,
    allow_attrs: Option<(BTreeMap<&'static str, BTreeSet<&'static str>>, bool)>,
    remove_attrs: BTreeMap<&'static str, BTreeSet<&'static str>>,
    allow_schemes: Option<(BTreeMap<(&'static str, &'static str), BTreeSet<&'static str>>, bool)>,
    deny_schemes: BTreeMap<(&'static str, &'static str), BTreeSet<&'static str>>,
    allow_classes: Option<(BTreeMap<&'static str, BTreeSet<&'static str>>, bool)>,
    remove_classes: BTreeMap<&'static str, BTreeSet<&'static str>>,
    pub max_depth: Option<u32>,
}

fn props_map(l: &[(Idx, Vec<Idx>)], p: &'static [&'static str]) -> BTreeMap<&'static str, BTreeSet<&'static str>> {
    let mut m = BTreeMap::new();
    for (e, a) in l {
        m.insert(pool(ELEM_POOL, *e), a.iter().map(|i| pool(p, *i)).collect());
    }
    m
}
fn scheme_map(l: &[(Idx, Idx, Vec<Idx>)]) -> BTreeMap<(&'static str, &'static str), BTreeSet<&'static str>> {
    let mut m = BTreeMap::new();
    for (e, a, s) in l {
        m.insert((pool(ELEM_POOL, *e), pool(ATTR_POOL, *a)), s.iter().map(|i| pool(SCHEME_POOL, *i)).collect());
    }
    m
}

/// `*` any run, `?` one character (documented for class names).
fn wild(p: &str, t: &str) -> bool {
    let (p, t): (Vec<char>, Vec<char>) = (p.chars().collect(), t.chars().collect());
    let mut cur = vec![false; t.len() + 1];
    cur[0] = true;
    for pc in &p {
        let mut next = vec![false; t.len() + 1];
        match pc {
            '*' => {
                let mut any = false;
                for j in 0..=t.len() {
                    any |= cur[j];
                    next[j] = any;
                }
            }
            '?' => {
                for j in 1..=t.len() {
                    next[j] = cur[j - 1];
                }
            }
            c => {
                for j in 1..=t.len() {
                    next[j] = cur[j - 1] && t[j - 1] == *c;
                }
            }
        }
        cur = next;
    }
    cur[t.len()]
}

impl Policy {
    pub fn of(b: &B) -> Policy {
        Policy {
            strict: b.mode != 0,
            compat: b.mode == 2,
            remove_reply: b.remove_reply_fallback,
            allow_elements: b.allow_elements.as_ref().map(|(l, o)| (l.iter().map(|i| pool(ELEM_POOL, *i)).collect(), *o)),
            remove_elements: b.remove_elements.iter().flatten().map(|i| pool(ELEM_POOL, *i)).collect(),
            ignore_elements: b.ignore_elements.iter().flatten().map(|i| pool(ELEM_POOL, *i)).collect(),
            allow_attrs: b.allow_attrs.as_ref().map(|(l, o)| (props_map(l, ATTR_POOL), *o)),
            remove_attrs: b.remove_attrs.as_ref().map(|l| props_map(l, ATTR_POOL)).unwrap_or_default(),
            allow_schemes: b.allow_schemes.as_ref().map(|(l, o)| (scheme_map(l), *o)),
            deny_schemes: b.deny_schemes.as_ref().map(|l| scheme_map(l)).unwrap_or_default(),
            allow_classes: b.allow_classes.as_ref().map(|(l, o)| (props_map(l, CLASS_POOL), *o)),
            remove_classes: b.remove_classes.as_ref().map(|l| props_map(l, CLASS_POOL)).unwrap_or_default(),
            max_depth: b.max_depth.or(if b.mode != 0 { Some(100) } else { None }),
        }
    }

    /// Name an element takes before filtering (documented replacements of the modes).
    pub fn replaced_element(&self, name: &str) -> Option<&'static str> {
        if !self.strict {
            return None;
        }
        match name {
            "font" => Some("span"),
            "strike" => Some("s"),
            _ => None,
        }
    }
    pub fn replaced_attr(&self, elem_before: &str, attr: &str) -> Option<&'static str> {
        (self.strict && elem_before == "font" && attr == "color").then_some("data-mx-color")
    }
    pub fn element_removed(&self, name: &str) -> bool {
        self.remove_elements.contains(name) || (self.remove_reply && name == "mx-reply")
    }
    pub fn element_ignored(&self, name: &str) -> bool {
        if self.ignore_elements.contains(name) {
            return true;
        }
        match (&self.allow_elements, self.strict) {
            (None, false) => false,
            (list, strict) => {
                let in_list = list.as_ref().is_some_and(|(l, _)| l.contains(name));
                let over = list.as_ref().is_some_and(|(_, o)| *o);
                let in_mode = !over && strict && SPEC_ELEMENTS.contains(&name);
                !(in_list || in_mode)
            }
        }
    }
    pub fn attr_kept(&self, elem: &str, attr: &str) -> bool {
        // removal lists are matched on the local name (so `xlink:href` goes when `href` is listed):
        // the property bounds what may survive, and the documentation of `remove_attributes` does
        // not speak about namespaces, so the more conservative reading is followed
        self.attr_kept_ql(elem, attr, attr)
    }
    /// `attr`: name as serialised (`xlink:href` for a namespaced attribute of foreign content),
    /// `local`: its local name (`href`); both are the same for attributes without a namespace.
    pub fn attr_kept_ql(&self, elem: &str, attr: &str, local: &str) -> bool {
        if self.remove_attrs.get(elem).is_some_and(|s| s.contains(local)) {
            return false;
        }
        match (&self.allow_attrs, self.strict) {
            (None, false) => true,
            (list, strict) => {
                let in_list = list.as_ref().and_then(|(m, _)| m.get(elem)).is_some_and(|s| s.contains(attr));
                let over = list.as_ref().is_some_and(|(_, o)| *o);
                let in_mode = !over && strict && spec_attrs(elem).contains(&attr);
                in_list || in_mode
            }
        }
    }
    /// Some(true/false): the value's scheme is subject to a rule and is allowed / not; None: no rule.
    pub fn scheme_allowed(&self, elem: &str, attr: &str, value: &str) -> Option<bool> {
        let key = elem_static(elem).zip(attr_static(attr));
        if let Some(d) = key.and_then(|k| self.deny_schemes.get(&k)) {
            if d.iter().any(|s| value.starts_with(&format!("{s}:"))) {
                return Some(false);
            }
        }
        if self.allow_schemes.is_none() && !self.strict {
            return None;
        }
        let over = self.allow_schemes.as_ref().is_some_and(|(_, o)| *o);
        let mut allowed: Vec<&str> = vec![];
        let mut any_rule = false;
        if let Some(s) = key.and_then(|k| self.allow_schemes.as_ref().and_then(|(m, _)| m.get(&k))) {
            any_rule = true;
            allowed.extend(s.iter().copied());
        }
        if !over && self.strict {
            if let Some(s) = spec_schemes(elem, attr, self.compat) {
                any_rule = true;
                allowed.extend(s);
            }
        }
        if !any_rule {
            return None;
        }
        Some(allowed.iter().any(|s| value.starts_with(&format!("{s}:"))))
    }
    /// New value of a class attribute: None = attribute removed.
    pub fn filter_classes(&self, elem: &str, value: &str) -> Option<String> {
        let classes: Vec<&str> = value.split_whitespace().collect();
        let n = classes.len();
        let mut kept: Vec<&str> = classes.clone();
        if let Some(r) = self.remove_classes.get(elem) {
            kept.retain(|c| !r.iter().any(|p| wild(p, c)));
        }
        let whitelist = self.allow_classes.is_some() || self.strict;
        if whitelist {
            let over = self.allow_classes.as_ref().is_some_and(|(_, o)| *o);
            let mut pats: Vec<&str> = vec![];
            if let Some((m, _)) = &self.allow_classes {
                if let Some(s) = m.get(elem) {
                    pats.extend(s.iter().copied());
                }
            }
            if !over && self.strict {
                pats.extend(spec_classes(elem));
            }
            kept.retain(|c| pats.iter().any(|p| wild(p, c)));
        }
        if kept.len() == n {
            Some(value.to_owned())
        } else if kept.is_empty() {
            None
        } else {
            Some(kept.join(" "))
        }
    }
}

fn elem_static(e: &str) -> Option<&'static str> {
    ELEM_POOL.iter().chain(SPEC_ELEMENTS.iter()).find(|x| **x == e).copied()
}
fn attr_static(a: &str) -> Option<&'static str> {
    ATTR_POOL.iter().find(|x| **x == a).copied()
}

// ---------------------------------------------------------------------------------------------
// Trees

#[derive(Debug, Clone, PartialEq, Eq, Serialize)]
pub enum RNode {
    Text(String),
    Elem { name: String, attrs: Vec<(String, String)>, children: Vec<RNode> },
}

pub fn merge_text(nodes: Vec<RNode>) -> Vec<RNode> {
    let mut out: Vec<RNode> = vec![];
    for n in nodes {
        match (out.last_mut(), n) {
            (Some(RNode::Text(a)), RNode::Text(b)) => a.push_str(&b),
            (_, RNode::Text(b)) if b.is_empty() => {}
            (_, RNode::Elem { name, attrs, children }) => out.push(RNode::Elem { name, attrs, children: merge_text(children) }),
            (_, n) => out.push(n),
        }
    }
    out
}

/// Name of an attribute as an HTML serialisation shows it: `prefix:local` for attributes in a
/// namespace (foreign content), the plain name otherwise.
pub fn qualified(a: &ruma_html::Attribute) -> String {
    if a.name.ns.is_empty() {
        a.name.local.to_string()
    } else {
        match &a.name.prefix {
            Some(p) => format!("{p}:{}", a.name.local),
            None => format!(":{}", a.name.local),
        }
    }
}

/// ruma DOM (as it is now) -> RNode forest, attributes by qualified name.
pub fn dom(html: &Html) -> Vec<RNode> {
    fn node(n: &NodeRef) -> Option<RNode> {
        match n.data() {
            NodeData::Text(t) => Some(RNode::Text(t.borrow().to_string())),
            NodeData::Element(e) => {
                let mut attrs: Vec<(String, String)> = e.attrs.borrow().iter().map(|a| (qualified(a), a.value.to_string())).collect();
                attrs.sort();
                Some(RNode::Elem { name: e.name.local.to_string(), attrs, children: n.children().filter_map(|c| node(&c)).collect() })
            }
            _ => None,
        }
    }
    merge_text(html.children().filter_map(|c| node(&c)).collect())
}

/// Whether the tree contains nodes that are neither text nor element (comments etc.).
pub fn has_other_nodes(html: &Html) -> bool {
    fn rec(n: &NodeRef) -> bool {
        match n.data() {
            NodeData::Text(_) => false,
            NodeData::Element(_) => n.children().any(|c| rec(&c)),
            _ => true,
        }
    }
    html.children().any(|c| rec(&c))
}

/// Reference cleaner over the parsed (unsanitised) DOM.
pub fn reference_clean(html: &Html, p: &Policy) -> Vec<RNode> {
    fn clean(n: &NodeRef, depth: u32, p: &Policy, out: &mut Vec<RNode>) {
        match n.data() {
            NodeData::Text(t) => out.push(RNode::Text(t.borrow().to_string())),
            NodeData::Element(e) => {
                let before = e.name.local.to_string();
                let name = p.replaced_element(&before).map(str::to_owned).unwrap_or_else(|| before.clone());
                // attributes after the documented replacements (attribute replacement uses the
                // element's original name)
                // (qualified name, local name, value)
                let mut attrs: Vec<(String, String, String)> = vec![];
                for a in e.attrs.borrow().iter() {
                    let an = qualified(a);
                    let an = p.replaced_attr(&before, &an).map(str::to_owned).unwrap_or(an);
                    let local = if a.name.ns.is_empty() { an.clone() } else { a.name.local.to_string() };
                    // a replacement may collide with an existing attribute: the set keeps one per (name, value)
                    if !attrs.iter().any(|(k, _, v)| *k == an && *v == a.value.to_string()) {
                        attrs.push((an, local, a.value.to_string()));
                    }
                }
                if p.element_removed(&name) || p.max_depth.is_some_and(|m| depth >= m) {
                    return;
                }
                let mut ignored = p.element_ignored(&name);
                if !ignored {
                    // URI schemes: one disallowed value drops the element but keeps its children
                    // (scheme rules are applied to the attribute's local name, so that a
                    // namespaced `xlink:href` is held to the rules of `href`)
                    for (_, local, v) in &attrs {
                        if p.scheme_allowed(&name, local, v) == Some(false) {
                            ignored = true;
                        }
                    }
                }
                let mut kids = vec![];
                for c in n.children() {
                    clean(&c, depth + 1, p, &mut kids);
                }
                if ignored {
                    out.extend(kids);
                    return;
                }
                let mut kept: Vec<(String, String)> = vec![];
                for (k, local, v) in attrs {
                    if !p.attr_kept_ql(&name, &k, &local) {
                        continue;
                    }
                    if k == "class" {
                        match p.filter_classes(&name, &v) {
                            Some(nv) => kept.push((k, nv)),
                            None => {}
                        }
                    } else {
                        kept.push((k, v));
                    }
                }
                kept.sort();
                out.push(RNode::Elem { name, attrs: kept, children: kids });
            }
            _ => {}
        }
    }
    let mut out = vec![];
    for c in html.children() {
        clean(&c, 0, p, &mut out);
    }
    merge_text(out)
}

// --- strategy for builder configurations --------------------------------------------------------

pub fn builder_config() -> impl Strategy<Value = B> {
    let idxs = || prop::collection::vec(any::<u16>(), 0..5);
    let per_elem = || prop::collection::vec((any::<u16>(), prop::collection::vec(any::<u16>(), 0..4)), 0..4);
    let sch = || prop::collection::vec((any::<u16>(), prop_oneof![Just(0u16), Just(4200u16), any::<u16>()], prop::collection::vec(any::<u16>(), 0..4)), 0..3);
    (
        (0u8..3, any::<bool>(), prop_oneof![1 => Just(0u8), 2 => any::<u8>()]),
        prop::option::weighted(0.4, (idxs(), any::<bool>())),
        prop::option::weighted(0.3, idxs()),
        prop::option::weighted(0.3, idxs()),
        prop::option::weighted(0.4, (per_elem(), any::<bool>())),
        prop::option::weighted(0.3, per_elem()),
        prop::option::weighted(0.4, (sch(), any::<bool>())),
        prop::option::weighted(0.3, sch()),
        prop::option::weighted(0.3, (per_elem(), any::<bool>())),
        (prop::option::weighted(0.2, per_elem()), prop::option::weighted(0.3, prop_oneof![0u32..6, 95u32..110])),
    )
        .prop_map(|((mode, rr, call_order), ae, re, ie, aa, ra, asch, dsch, ac, (rc, md))| B {
            mode,
            remove_reply_fallback: rr,
            allow_elements: ae,
            remove_elements: re,
            ignore_elements: ie,
            allow_attrs: aa,
            remove_attrs: ra,
            allow_schemes: asch,
            deny_schemes: dsch,
            allow_classes: ac,
            remove_classes: rc,
            max_depth: md,
            call_order,
        })
}
