//! C18 Typed event (de)serialization dispatches by type and is a stable fixpoint.
use std::collections::BTreeMap;

use proptest::prelude::*;
use ruma_common::serde::Raw;
use ruma_events::{
    AnyEphemeralRoomEvent, AnyEphemeralRoomEventContent, AnyGlobalAccountDataEvent, AnyGlobalAccountDataEventContent, AnyMessageLikeEvent, AnyMessageLikeEventContent, AnyRoomAccountDataEvent,
    AnyRoomAccountDataEventContent, AnyStateEvent, AnyStateEventContent, AnyStrippedStateEvent, AnySyncEphemeralRoomEvent, AnySyncTimelineEvent, AnyTimelineEvent, AnyToDeviceEvent, AnyToDeviceEventContent,
    EventContentFromType,
};
use serde::{Deserialize, Serialize};
use serde_json::{json, value::RawValue, Map, Value};
use vf_engine::{CaseCtx, Check};

mod schema;
use schema::{schemas, Kind, Schema, G};

#[derive(Serialize, Deserialize, Debug, Clone)]
pub struct EvCase {
    /// index into the schema table; `unknown_type` overrides the type (custom variant)
    pub schema: u16,
    pub unknown_type: Option<String>,
    pub choices: Vec<u8>,
    /// 0 full, 1 sync, 2 stripped (state only)
    pub format: u8,
    /// Some(v): redacted form under room version v (1..=11)
    pub redacted_version: Option<u8>,
    pub unsigned_bits: u8,
    pub salt: u8,
    /// 0 = plain serde_json spelling; otherwise escape density (bits 0-2), inter-token whitespace (bit 3)
    #[serde(default)]
    pub spelling: u8,
}

/// A JSON string literal for `s` where, depending on `mode`, characters are written as escapes
/// (`\uXXXX` incl. surrogate pairs, `\/`, short escapes): same JSON value, different text.
fn spell_str(s: &str, mode: u8, ctr: &mut u32) -> String {
    let density = (mode & 7) as u32;
    let mut out = String::from("\"");
    for ch in s.chars() {
        *ctr = ctr.wrapping_add(1);
        let h = (ctr.wrapping_mul(2654435761).rotate_left(9)) ^ (mode as u32).wrapping_mul(40503);
        let must = (ch as u32) < 0x20 || ch == '"' || ch == '\\';
        if !(must || (density > 0 && h % 8 < density)) {
            out.push(ch);
            continue;
        }
        let short = match ch {
            '"' => Some("\\\""),
            '\\' => Some("\\\\"),
            '/' => Some("\\/"),
            '\n' => Some("\\n"),
            '\t' => Some("\\t"),
            '\r' => Some("\\r"),
            '\u{8}' => Some("\\b"),
            '\u{c}' => Some("\\f"),
            _ => None,
        };
        if let (Some(sh), true) = (short, (h >> 8) % 2 == 0 || density == 0) {
            out.push_str(sh);
            continue;
        }
        let mut buf = [0u16; 2];
        for unit in ch.encode_utf16(&mut buf) {
            if (h >> 9) % 2 == 0 {
                out.push_str(&format!("\\u{unit:04x}"));
            } else {
                out.push_str(&format!("\\u{unit:04X}"));
            }
        }
    }
    out.push('"');
    out
}

/// Like [`permuted_text`] but with escaped string spellings and optional inter-token whitespace.
fn spelled_text(v: &Value, salt: u8, mode: u8, ctr: &mut u32) -> String {
    if mode == 0 {
        return permuted_text(v, salt);
    }
    let ws = |n: u32| if mode & 8 == 0 { "" } else { [" ", "\n", "\t ", "", "\r\n"][(n % 5) as usize] };
    match v {
        Value::Object(m) => {
            let mut keys: Vec<&String> = m.keys().collect();
            if salt % 3 == 1 {
                keys.reverse();
            } else if salt % 3 == 2 && !keys.is_empty() {
                let r = (salt as usize / 3) % keys.len();
                keys.rotate_left(r);
            }
            let parts: Vec<String> = keys
                .iter()
                .map(|k| {
                    let ks = spell_str(k, mode, ctr);
                    let n = *ctr;
                    format!("{}{ks}{}:{}{}", ws(n), ws(n / 5), ws(n / 25), spelled_text(&m[*k], salt.wrapping_add(1), mode, ctr))
                })
                .collect();
            format!("{{{}{}}}", parts.join(","), ws(*ctr / 7))
        }
        Value::Array(a) => format!("[{}{}]", a.iter().map(|x| spelled_text(x, salt, mode, ctr)).collect::<Vec<_>>().join(","), ws(*ctr / 3)),
        Value::String(st) => spell_str(st, mode, ctr),
        other => serde_json::to_string(other).unwrap(),
    }
}

/// JSON text with object keys written in a salt-dependent order.
fn permuted_text(v: &Value, salt: u8) -> String {
    match v {
        Value::Object(m) => {
            let mut keys: Vec<&String> = m.keys().collect();
            if salt % 3 == 1 {
                keys.reverse();
            } else if salt % 3 == 2 && !keys.is_empty() {
                let r = (salt as usize / 3) % keys.len();
                keys.rotate_left(r);
            }
            let parts: Vec<String> = keys.iter().map(|k| format!("{}:{}", serde_json::to_string(k).unwrap(), permuted_text(&m[*k], salt.wrapping_add(1)))).collect();
            format!("{{{}}}", parts.join(","))
        }
        Value::Array(a) => format!("[{}]", a.iter().map(|x| permuted_text(x, salt)).collect::<Vec<_>>().join(",")),
        other => serde_json::to_string(other).unwrap(),
    }
}

/// Duplicate-rejecting JSON reader (serde_json silently keeps the last duplicate).
fn has_duplicate_keys(text: &str) -> bool {
    use serde::de::{DeserializeSeed, Deserializer, MapAccess, SeqAccess, Visitor};
    struct Dup<'a>(&'a std::cell::Cell<bool>);
    impl<'de, 'a> DeserializeSeed<'de> for Dup<'a> {
        type Value = ();
        fn deserialize<D: Deserializer<'de>>(self, d: D) -> Result<(), D::Error> {
            d.deserialize_any(self)
        }
    }
    impl<'de, 'a> Visitor<'de> for Dup<'a> {
        type Value = ();
        fn expecting(&self, f: &mut std::fmt::Formatter<'_>) -> std::fmt::Result {
            f.write_str("any JSON")
        }
        fn visit_bool<E>(self, _: bool) -> Result<(), E> {
            Ok(())
        }
        fn visit_i64<E>(self, _: i64) -> Result<(), E> {
            Ok(())
        }
        fn visit_u64<E>(self, _: u64) -> Result<(), E> {
            Ok(())
        }
        fn visit_f64<E>(self, _: f64) -> Result<(), E> {
            Ok(())
        }
        fn visit_str<E>(self, _: &str) -> Result<(), E> {
            Ok(())
        }
        fn visit_unit<E>(self) -> Result<(), E> {
            Ok(())
        }
        fn visit_seq<A: SeqAccess<'de>>(self, mut a: A) -> Result<(), A::Error> {
            while a.next_element_seed(Dup(self.0))?.is_some() {}
            Ok(())
        }
        fn visit_map<A: MapAccess<'de>>(self, mut a: A) -> Result<(), A::Error> {
            let mut seen = std::collections::BTreeSet::new();
            while let Some(k) = a.next_key::<String>()? {
                if !seen.insert(k) {
                    self.0.set(true);
                }
                a.next_value_seed(Dup(self.0))?;
            }
            Ok(())
        }
    }
    let flag = std::cell::Cell::new(false);
    let mut de = serde_json::Deserializer::from_str(text);
    let _ = Dup(&flag).deserialize(&mut de);
    flag.get()
}

fn leaves(v: &Value, path: String, out: &mut BTreeMap<String, Value>) {
    match v {
        // an empty container is information too: a field that is required to be present must not vanish
        Value::Object(m) if !m.is_empty() => {
            for (k, x) in m {
                leaves(x, format!("{path}/{k}"), out);
            }
        }
        Value::Array(a) if !a.is_empty() => {
            for (i, x) in a.iter().enumerate() {
                leaves(x, format!("{path}#{i}"), out);
            }
        }
        leaf => {
            out.insert(path, leaf.clone());
        }
    }
}

fn strip_unknown(v: &Value) -> Value {
    match v {
        Value::Object(m) => Value::Object(m.iter().filter(|(k, _)| *k != "org.example.unknown").map(|(k, x)| (k.clone(), strip_unknown(x))).collect()),
        Value::Array(a) => Value::Array(a.iter().map(strip_unknown).collect()),
        x => x.clone(),
    }
}

fn redaction_event() -> Value {
    json!({"type": "m.room.redaction", "content": {"reason": "spam"}, "redacts": "$ev1:s.example", "event_id": "$redaction:s.example", "sender": "@mod:s.example", "origin_server_ts": 99, "room_id": "!room:s.example"})
}

/// Values the specification defines as the default of an optional field: ruma omits them when
/// serialising (documented `skip_serializing_if` rules); their absence loses no information.
fn omitted_default(ty: &str, path: &str, v: &Value) -> bool {
    match (ty, path) {
        ("m.room.server_acl", "/allow_ip_literals") => *v == json!(true),
        ("m.room.create", "/m.federate") => *v == json!(true),
        ("m.room.power_levels", "/ban" | "/kick" | "/redact" | "/state_default") => *v == json!(50),
        ("m.room.power_levels", "/invite" | "/events_default" | "/users_default") => *v == json!(0),
        ("m.room.power_levels", "/notifications/room") => *v == json!(50),
        ("m.space.child", "/suggested") | ("m.space.parent", "/canonical") => *v == json!(false),
        (_, p) if p.ends_with("/is_falling_back") => *v == json!(false),
        (_, "/passphrase/bits") => *v == json!(256),
        (_, p) if p.ends_with("/m.mentions/room") => *v == json!(false),
        _ => false,
    }
}

/// List-valued fields the specification marks "Required": an empty list there is a value (for
/// example "this key was never forwarded"), and leaving the key out makes the content malformed.
fn required_container(ty: &str, path: &str) -> bool {
    matches!(
        (ty, path),
        ("m.forwarded_room_key", "/forwarding_curve25519_key_chain")
            | ("m.room.pinned_events", "/pinned")
            | ("m.typing", "/user_ids")
            | ("m.room.aliases", "/aliases")
            | ("m.call.candidates", "/candidates")
            | ("m.key.verification.request" | "m.room.message", "/methods")
    )
}

/// Fixpoint check of a content enum; returns s1.
fn content_fixpoint<C: EventContentFromType + Serialize>(ty: &str, content: &Value, salt: u8, spelling: u8, cx: &mut CaseCtx) -> Result<String, String> {
    if !schemas().iter().any(|s| s.ty == ty) {
        // content of unknown types deserialises to the custom variant, which keeps only the type
        // and is documented as not serialisable (custom events are sent as Raw): totality only
        let raw = RawValue::from_string(permuted_text(content, 0)).map_err(|e| e.to_string())?;
        C::from_parts(ty, &raw).map_err(|e| format!("content of unknown type {ty} does not deserialise into the custom variant: {e}"))?;
        cx.class("custom_content_not_serialisable_by_design");
        return Ok(String::new());
    }
    let raw = |v: &Value, salt: u8| RawValue::from_string(permuted_text(v, salt)).map_err(|e| e.to_string());
    let c1 = C::from_parts(ty, &raw(content, 0)?).map_err(|e| format!("content of type {ty} shaped as the specification describes does not deserialise: {e}; content {content}"))?;
    let s1 = serde_json::to_string(&c1).map_err(|e| format!("serialising typed content failed: {e}"))?;
    if has_duplicate_keys(&s1) {
        if ty == "m.room.message" && content.get("msgtype").and_then(|m| m.as_str()).is_some_and(|m| !m.starts_with("m.")) && cx.known_finding("custom_msgtype_duplicate_keys", json!({"content": content, "serialised": s1})) {
            return Ok(s1);
        }
        return Err(format!("serialised content of type {ty} contains duplicate keys: {s1}"));
    }
    let back: Value = serde_json::from_str(&s1).map_err(|e| format!("serialised content is not valid JSON: {e}: {s1}"))?;
    let c2 = C::from_parts(ty, &RawValue::from_string(s1.clone()).map_err(|e| e.to_string())?).map_err(|e| format!("re-deserialising serialised content of type {ty} failed: {e}; {s1}"))?;
    let s2 = serde_json::to_string(&c2).map_err(|e| e.to_string())?;
    if s2 != s1 {
        return Err(format!("serialise -> deserialise -> serialise is not a fixpoint for {ty}: {s1} then {s2}"));
    }
    // no value that was present is changed
    let (mut a, mut b) = (BTreeMap::new(), BTreeMap::new());
    leaves(content, String::new(), &mut a);
    leaves(&back, String::new(), &mut b);
    for (p, v) in &a {
        if let Some(w) = b.get(p) {
            let same_number = matches!((v.as_f64(), w.as_f64()), (Some(x), Some(y)) if x == y);
            if v != w && !same_number {
                return Err(format!("content of type {ty}: value at {p} changed from {v} to {w} (input {content}, output {s1})"));
            }
        }
    }
    // nothing the schema defines is lost (unknown fields are the only thing typed content drops)
    for (p, v) in &a {
        if p.contains("org.example.unknown") || b.contains_key(p) || omitted_default(ty, p, v) {
            continue;
        }
        // a plain source next to an encrypted one (`url` + `file`, `thumbnail_url` + `thumbnail_file`):
        // the specification has one or the other, the typed content keeps the encrypted one
        if let Some(parent) = p.strip_suffix("/thumbnail_url") {
            if a.keys().any(|k| k.starts_with(&format!("{parent}/thumbnail_file/"))) {
                continue;
            }
        }
        if let Some(parent) = p.strip_suffix("/url") {
            if !parent.ends_with("/file") && !parent.ends_with("_file") && a.keys().any(|k| k.starts_with(&format!("{parent}/file/"))) {
                continue;
            }
        }
        // an empty list or object: only the fields the specification marks as required must stay
        if (v.is_array() || v.is_object()) && !required_container(ty, p) {
            continue;
        }
        return Err(format!("content of type {ty}: the value {v} at {p} is missing from the serialised content (input {content}, output {s1})"));
    }
    // key order and unknown extra fields do not matter
    let c3 = C::from_parts(ty, &raw(content, salt | 1)?).map_err(|e| format!("key-permuted content fails: {e}"))?;
    if serde_json::to_string(&c3).ok().as_deref() != Some(&s1) {
        return Err(format!("serialised content of type {ty} depends on the input's key order"));
    }
    // ... nor does the way strings are spelled in the JSON text (escapes, whitespace)
    if spelling != 0 {
        let text = spelled_text(content, salt, spelling, &mut 0);
        let c5 = C::from_parts(ty, &RawValue::from_string(text.clone()).map_err(|e| e.to_string())?).map_err(|e| format!("content of type {ty} fails to deserialise when strings are written with JSON escapes: {e}; text {text}"))?;
        if serde_json::to_string(&c5).ok().as_deref() != Some(&s1) {
            return Err(format!("serialised content of type {ty} depends on how the input's strings are escaped: {text}"));
        }
    }
    let stripped = strip_unknown(content);
    if stripped != *content {
        let c4 = C::from_parts(ty, &raw(&stripped, 0)?).map_err(|e| format!("content without the unknown fields fails: {e}"))?;
        let s4 = serde_json::to_string(&c4).unwrap_or_default();
        let without_unknown = serde_json::to_string(&strip_unknown(&back)).unwrap_or_default();
        let s4v: Value = serde_json::from_str(&s4).unwrap_or(Value::Null);
        if serde_json::to_string(&strip_unknown(&s4v)).unwrap_or_default() != without_unknown {
            return Err(format!("unknown extra fields change the known part of the serialised content of type {ty}: {s1} vs {s4}"));
        }
        cx.class("unknown_fields_present");
    }
    Ok(s1)
}

/// The typed content of a redacted state event, serialised again, must carry every value the
/// redaction kept (the `content` of the generated event is the reference redaction's output) and
/// no key outside the specification's list for that type and room version.
fn redacted_state_content_kept(s: &AnyStateEvent, ty: &str, version: u8, content: &Value, cx: &mut CaseCtx) -> Result<(), String> {
    use ruma_events::{AnyFullStateEventContent as F, FullStateEventContent as C};
    let out: Value = match s.content() {
        F::RoomMember(C::Redacted(c)) => serde_json::to_value(&c),
        F::RoomCreate(C::Redacted(c)) => serde_json::to_value(&c),
        F::RoomJoinRules(C::Redacted(c)) => serde_json::to_value(&c),
        F::RoomPowerLevels(C::Redacted(c)) => serde_json::to_value(&c),
        F::RoomHistoryVisibility(C::Redacted(c)) => serde_json::to_value(&c),
        _ => return Ok(()),
    }
    .map_err(|e| format!("serialising the redacted content of {ty} failed: {e}"))?;
    cx.class("redacted_content_reserialised");
    let (Some(o), Some(want)) = (out.as_object(), content.as_object()) else { return Err(format!("redacted content of {ty} serialises as {out}")) };
    for (k, v) in want {
        // numbers may come back in another spelling of the same value (C18's other checks cover that)
        let same = |a: &Value, b: &Value| a == b || matches!((a.as_f64(), b.as_f64()), (Some(x), Some(y)) if x == y) || (a.is_object() && b.is_object()) || (a.is_array() && b.is_array());
        match o.get(k) {
            Some(got) if same(got, v) => {}
            Some(got) => return Err(format!("redacted {ty} (room version {version}): kept key {k:?} changed from {v} to {got}")),
            // unknown fields are the one thing typed content drops (v11 create keeps all keys)
            None if omitted_default(ty, &format!("/{k}"), v) || v.is_null() || k.contains("org.example.unknown") => {}
            None => return Err(format!("redacted {ty} (room version {version}): the kept value {v} at {k:?} is missing from the serialised redacted content {out}")),
        }
    }
    for k in o.keys() {
        if !want.contains_key(k) && !vf_ref::redact::content_kept(11, ty, k) {
            return Err(format!("redacted {ty} (room version {version}): serialised redacted content has the key {k:?} which no room version keeps: {out}"));
        }
    }
    Ok(())
}

fn near_miss_type(t: &str, how: u8) -> String {
    if t.starts_with("m.secret_storage.key.") {
        // every suffix is within the wildcard type: near misses exist on the prefix side only
        return ["m.secret_storage.key", "m.secret_storage.keys", "m.secret_storage.key_backup", "m.secret_storage.ke", "m.secret_storage.keyring.v1", "m.secret_storage.KEY.abc", "m.secret_storage.key abc"][how as usize % 7].to_owned();
    }
    let tail = t.rsplit('.').next().unwrap_or(t);
    match how % 7 {
        0 => format!("{t}s"),
        1 => tail.to_owned(),
        2 => t.to_uppercase(),
        3 => format!("m.room.{t}"),
        4 => format!("{t}."),
        5 => format!(" {t}"),
        _ => t.trim_start_matches("m.").to_owned(),
    }
}

fn oracle_with(table: &[Schema], c: &EvCase, cx: &mut CaseCtx) -> Result<(), String> {
    let sch = &table[c.schema as usize % table.len()];
    let ty: String = match &c.unknown_type {
        Some(u) if u.starts_with("~near~") => near_miss_type(sch.ty, u[6..].parse().unwrap_or(0)),
        Some(u) => u.clone(),
        None => sch.ty.to_owned(),
    };
    if c.unknown_type.as_deref().is_some_and(|u| u.starts_with("~near~")) {
        cx.class("near_miss_of_known_type");
    }
    let custom = c.unknown_type.is_some();
    let mut g = G::new(&c.choices);
    let mut content = (sch.gen)(&mut g);
    let kind = sch.kind;
    let redacted = c.redacted_version.filter(|_| matches!(kind, Kind::State | Kind::MessageLike) && c.format != 2);
    if let Some(v) = redacted {
        let cv = vf_ref::cjson::V::from_serde(&content).ok_or("harness: content not canonical")?;
        let (red, _, _) = vf_ref::redact::redact_content(v, &ty, cv.obj().ok_or("content not an object")?);
        content = vf_ref::cjson::V::Obj(red).to_serde();
    }
    // the event object
    let mut ev = Map::new();
    ev.insert("type".into(), json!(ty));
    ev.insert("content".into(), content.clone());
    let sender = "@alice:s.example";
    let mut unsigned = Map::new();
    match kind {
        Kind::State | Kind::MessageLike => {
            ev.insert("sender".into(), json!(sender));
            if c.format != 2 {
                ev.insert("event_id".into(), json!("$ev1:s.example"));
                ev.insert("origin_server_ts".into(), json!(1_600_000_000_123u64));
                if c.format == 0 {
                    ev.insert("room_id".into(), json!("!room:s.example"));
                }
                if c.unsigned_bits & 1 == 1 {
                    unsigned.insert("age".into(), json!(1234));
                }
                if c.unsigned_bits & 2 == 2 {
                    unsigned.insert("transaction_id".into(), json!("txn1"));
                }
                if c.unsigned_bits & 4 == 4 && kind == Kind::State && redacted.is_none() {
                    unsigned.insert("prev_content".into(), content.clone());
                }
                if c.unsigned_bits & 8 == 8 {
                    unsigned.insert("org.example.unknown".into(), json!({"x": 1}));
                }
                if redacted.is_some() {
                    unsigned.insert("redacted_because".into(), redaction_event());
                }
                if !unsigned.is_empty() {
                    ev.insert("unsigned".into(), Value::Object(unsigned.clone()));
                }
            }
            if kind == Kind::State {
                let sk = if ty == "m.room.member" || ty == "m.policy.rule.user" { "@bob:t.example:8448" } else if ty.starts_with("m.space") { "!child:s.example" } else if ty == "m.room.third_party_invite" { "token" } else if ty == "m.room.aliases" { "s.example" } else { "" };
                ev.insert("state_key".into(), json!(sk));
            }
            // `redacts` lives at the top level (room versions 1-10) and/or in the content (v11)
            if ty == "m.room.redaction" && (c.unsigned_bits & 16 == 16 || content.get("redacts").is_none()) {
                ev.insert("redacts".into(), json!("$target:s.example"));
            }
        }
        Kind::ToDevice => {
            ev.insert("sender".into(), json!(sender));
        }
        Kind::Ephemeral if c.format == 0 => {
            ev.insert("room_id".into(), json!("!room:s.example"));
        }
        _ => {}
    }
    if c.unsigned_bits & 32 == 32 {
        ev.insert("org.example.unknown_top".into(), json!([1, {"a": null}]));
    }
    let evv = Value::Object(ev);
    let text = spelled_text(&evv, c.salt, c.spelling, &mut 0);
    cx.class_if(c.spelling != 0, "escaped_or_spaced_spelling");
    cx.class_if(c.spelling != 0 && !text.contains(&serde_json::to_string(&ty).unwrap()), "type_string_escaped");
    cx.class(match kind {
        Kind::State => "state",
        Kind::MessageLike => "message_like",
        Kind::Ephemeral => "ephemeral",
        Kind::GlobalAccountData => "global_account_data",
        Kind::RoomAccountData => "room_account_data",
        Kind::ToDevice => "to_device",
    });
    cx.class_if(custom, "unknown_type");
    cx.class_if(redacted.is_some(), "redacted_form");
    cx.class_if(content.get("m.relates_to").is_some(), "relation");
    // ---- Raw wrapper -------------------------------------------------------------------------
    let raw: Raw<Value> = Raw::from_json_string(text.clone()).map_err(|e| format!("Raw::from_json_string rejected valid JSON: {e}"))?;
    if raw.json().get() != text {
        return Err("Raw does not return the original text byte for byte".into());
    }
    if let Value::Object(m) = &evv {
        for k in m.keys().map(String::as_str).chain(["missing_key", "conten"]) {
            let got: Option<Value> = raw.get_field(k).map_err(|e| format!("Raw::get_field({k:?}) failed: {e}"))?;
            if got.as_ref() != m.get(k) {
                return Err(format!("Raw::get_field({k:?}) = {got:?}, a full parse gives {:?}", m.get(k)));
            }
        }
    }
    // ---- typed deserialisation ------------------------------------------------------------------
    let expect_type = |got: String| -> Result<(), String> {
        let want = if ty == "org.matrix.call.sdp_stream_metadata_changed" { "m.call.sdp_stream_metadata_changed".to_owned() } else { ty.clone() };
        if got != want {
            return Err(format!("event_type() is {got:?}, the JSON type is {ty:?}"));
        }
        Ok(())
    };
    let ctx_err = |e: serde_json::Error, what: &str| format!("{what} failed on an event shaped as the specification describes: {e}; event {text}");
    match kind {
        Kind::State | Kind::MessageLike => {
            if c.format == 2 {
                if kind == Kind::State {
                    let s: AnyStrippedStateEvent = serde_json::from_str(&text).map_err(|e| ctx_err(e, "AnyStrippedStateEvent"))?;
                    expect_type(s.event_type().to_string())?;
                    if s.sender() != sender || s.state_key() != evv["state_key"].as_str().unwrap_or("") {
                        return Err("stripped state event accessors differ from the JSON".into());
                    }
                }
            } else if c.format == 0 {
                let t: AnyTimelineEvent = serde_json::from_str(&text).map_err(|e| ctx_err(e, "AnyTimelineEvent"))?;
                expect_type(t.event_type().to_string())?;
                if t.sender() != sender || t.event_id() != "$ev1:s.example" || u64::from(t.origin_server_ts().0) != 1_600_000_000_123 || t.room_id() != "!room:s.example" {
                    return Err(format!("AnyTimelineEvent accessors differ from the JSON: {:?} {:?} {:?} {:?}", t.sender(), t.event_id(), t.origin_server_ts(), t.room_id()));
                }
                // (redacted events keep only `redacted_because` of `unsigned`: not asserted there)
                if redacted.is_none() && t.transaction_id().map(|x| x.as_str()) != unsigned.get("transaction_id").and_then(|x| x.as_str()) {
                    return Err("transaction_id() differs from unsigned.transaction_id".into());
                }
                match (&t, kind) {
                    (AnyTimelineEvent::State(s), Kind::State) => {
                        if s.is_redacted() != redacted.is_some() {
                            return Err(format!("state event with{} unsigned.redacted_because is reported as is_redacted = {}", if redacted.is_some() { "" } else { "out" }, s.is_redacted()));
                        }
                        if s.state_key() != evv["state_key"].as_str().unwrap_or("") {
                            return Err("state_key() differs from the JSON".into());
                        }
                        if s.original_content().is_some() == redacted.is_some() {
                            return Err("original_content() presence disagrees with redaction status".into());
                        }                        if let Some(v) = redacted {
                            redacted_state_content_kept(s, &ty, v, &content, cx)?;
                        }
                    }
                    (AnyTimelineEvent::MessageLike(m), Kind::MessageLike) => {
                        if m.is_redacted() != redacted.is_some() || m.original_content().is_some() == redacted.is_some() {
                            return Err(format!("message-like event: redacted_because present = {}, is_redacted() = {}", redacted.is_some(), m.is_redacted()));
                        }
                    }
                    _ => return Err(format!("event of type {ty} with{} state_key was put in the wrong half of AnyTimelineEvent", if kind == Kind::State { "" } else { "out" })),
                }
                // the specific enums agree
                if kind == Kind::State {
                    let s: AnyStateEvent = serde_json::from_str(&text).map_err(|e| ctx_err(e, "AnyStateEvent"))?;
                    expect_type(s.event_type().to_string())?;
                } else {
                    let m: AnyMessageLikeEvent = serde_json::from_str(&text).map_err(|e| ctx_err(e, "AnyMessageLikeEvent"))?;
                    expect_type(m.event_type().to_string())?;
                }
            } else {
                let t: AnySyncTimelineEvent = serde_json::from_str(&text).map_err(|e| ctx_err(e, "AnySyncTimelineEvent"))?;
                expect_type(t.event_type().to_string())?;
                if t.sender() != sender || t.event_id() != "$ev1:s.example" || u64::from(t.origin_server_ts().0) != 1_600_000_000_123 {
                    return Err("AnySyncTimelineEvent accessors differ from the JSON".into());
                }
                let red = match &t {
                    AnySyncTimelineEvent::State(s) => s.is_redacted(),
                    AnySyncTimelineEvent::MessageLike(m) => m.is_redacted(),
                };
                if red != redacted.is_some() {
                    return Err(format!("sync event: redacted_because present = {}, is_redacted() = {red}", redacted.is_some()));
                }
                // into_full_event keeps everything
                let full = t.into_full_event("!room:s.example".try_into().unwrap());
                expect_type(full.event_type().to_string())?;
            }
            if redacted.is_none() {
                if kind == Kind::State {
                    content_fixpoint::<AnyStateEventContent>(&ty, &content, c.salt, c.spelling, cx)?;
                } else {
                    content_fixpoint::<AnyMessageLikeEventContent>(&ty, &content, c.salt, c.spelling, cx)?;
                }
            }
        }
        Kind::Ephemeral => {
            if c.format == 0 {
                let e: AnyEphemeralRoomEvent = serde_json::from_str(&text).map_err(|e| ctx_err(e, "AnyEphemeralRoomEvent"))?;
                expect_type(e.event_type().to_string())?;
                if e.room_id() != "!room:s.example" {
                    return Err("ephemeral room_id() differs".into());
                }
            } else {
                let e: AnySyncEphemeralRoomEvent = serde_json::from_str(&text).map_err(|e| ctx_err(e, "AnySyncEphemeralRoomEvent"))?;
                expect_type(e.event_type().to_string())?;
            }
            content_fixpoint::<AnyEphemeralRoomEventContent>(&ty, &content, c.salt, c.spelling, cx)?;
        }
        Kind::GlobalAccountData => {
            let e: AnyGlobalAccountDataEvent = serde_json::from_str(&text).map_err(|e| ctx_err(e, "AnyGlobalAccountDataEvent"))?;
            expect_type(e.event_type().to_string())?;
            content_fixpoint::<AnyGlobalAccountDataEventContent>(&ty, &content, c.salt, c.spelling, cx)?;
        }
        Kind::RoomAccountData => {
            let e: AnyRoomAccountDataEvent = serde_json::from_str(&text).map_err(|e| ctx_err(e, "AnyRoomAccountDataEvent"))?;
            expect_type(e.event_type().to_string())?;
            content_fixpoint::<AnyRoomAccountDataEventContent>(&ty, &content, c.salt, c.spelling, cx)?;
        }
        Kind::ToDevice => {
            let e: AnyToDeviceEvent = serde_json::from_str(&text).map_err(|e| ctx_err(e, "AnyToDeviceEvent"))?;
            expect_type(e.event_type().to_string())?;
            if e.sender() != sender {
                return Err("to-device sender() differs".into());
            }
            content_fixpoint::<AnyToDeviceEventContent>(&ty, &content, c.salt, c.spelling, cx)?;
        }
    }
    let optional_present = c.choices.iter().any(|b| b % 2 == 1);
    cx.class_if(optional_present, "optional_field_present");
    cx.nontrivial_if((optional_present && text.contains("org.example.unknown")) || redacted.is_some() || content.get("m.relates_to").is_some());
    Ok(())
}

#[derive(Serialize, Deserialize, Debug, Clone)]
pub struct RawCase {
    pub s: vf_ref::cjson::S,
}

/// Raw wrapper on arbitrary spellings (escaped keys, duplicate keys, whitespace).
fn raw_oracle(c: &RawCase, cx: &mut CaseCtx) -> Result<(), String> {
    use vf_ref::cjson::{S, V};
    let text = c.s.text();
    let raw: Raw<Value> = Raw::from_json_string(text.clone()).map_err(|e| format!("Raw::from_json_string rejected valid JSON {text:?}: {e}"))?;
    if raw.json().get() != text {
        return Err(format!("Raw does not return the original text byte for byte: {text:?} -> {:?}", raw.json().get()));
    }
    let Some(V::Obj(m)) = c.s.value() else { return Ok(()) };
    cx.class_if(c.s.has_dup_keys(), "duplicate_keys");
    let escaped = matches!(&c.s, S::Obj(entries, _) if entries.iter().any(|(k, _)| k.iter().any(|(ch, st)| st % 4 != 0 || (*ch as u32) < 0x20 || *ch == '"' || *ch == '\\')));
    cx.class_if(escaped, "escaped_key_spelling");
    cx.nontrivial_if(escaped || c.s.has_dup_keys());
    let probe: Vec<String> = m.keys().cloned().chain(["missing key".to_owned()]).collect();
    for k in &probe {
        let got: Option<Value> = raw.get_field(k).map_err(|e| format!("Raw::get_field({k:?}) failed on {text:?}: {e}"))?;
        let want = m.get(k).map(|v| v.to_serde());
        if got != want {
            return Err(format!("Raw::get_field({k:?}) on {text:?} = {got:?}, a full parse (last duplicate wins) gives {want:?}"));
        }
    }
    Ok(())
}

fn main() {
    let args: Vec<String> = std::env::args().skip(1).collect();
    let id = args.first().cloned().unwrap_or_default();
    let mut ck = Check::from_env(&id, &args[1.min(args.len())..]);
    if id != "C18" {
        eprintln!("vf-events: unknown property {id}");
        std::process::exit(2);
    }
    ck.rule(
        "G1: event JSON from hand-written schemas of 50 event types (state, message-like incl. every msgtype with relations / mentions / media info / encrypted files, reaction, redaction, encrypted, sticker, call.*, key.verification.*, receipts/typing, account data incl. the m.secret_storage.key.* wildcard, to-device) plus unknown types; optional fields present/absent, unknown extra fields at several depths, key permutation, full / sync / stripped formats, unsigned (age, transaction_id, prev_content, unknown), and the redacted form of every timeline type produced by the C04 reference redaction for room versions 1-11 with unsigned.redacted_because. \
         Oracle: deserialisation into the matching Any* enums succeeds; event_type / sender / ids / timestamp / state_key / transaction_id equal the JSON; redacted_because <=> redacted variant; content -> typed -> JSON -> typed -> JSON is a fixpoint without duplicate keys (own duplicate-rejecting reader) that changes no value present in the input and does not depend on key order or unknown fields; Raw returns the text byte for byte and get_field agrees with a full parse. \
         Non-trivial = optional field present together with an unknown field, or a redacted form, or a relation.",
    );
    ck.assume("events are generated only in shapes the client-server specification describes; no compat-* or unstable-* cargo feature is enabled");
    let table = std::sync::Arc::new(schemas());
    ck.extra("event_types", json!(table.len()));
    let n = ck.n(400_000, 6_000_000);
    let nt = table.len() as u16;
    let t2 = table.clone();
    ck.prop(
        "events",
        n,
        move || {
            // names that merely look like the schema's own type must take the custom route (expanded
            // in the oracle from the schema the case selects, so that the event kind matches)
            let near = (0u8..7).prop_map(|how| format!("~near~{how}"));
            (0..nt, prop::option::weighted(0.08, prop_oneof![2 => Just("org.example.custom".to_owned()), 2 => Just("m.room.unknown_future".to_owned()), 2 => "[a-z]{1,6}\\.[a-z.]{1,8}", 2 => "[a-z./\"\\\\ \u{e9}\u{1F600}\n]{1,8}", 3 => near]), prop::collection::vec(any::<u8>(), 0..40), 0u8..3, prop::option::weighted(0.25, 1u8..=11), any::<u8>(), any::<u8>(), prop_oneof![Just(0u8), 1u8..16])
                .prop_map(|(schema, unknown_type, choices, format, redacted_version, unsigned_bits, salt, spelling)| EvCase { schema, unknown_type, choices, format, redacted_version, unsigned_bits, salt, spelling })
        },
        move |c, cx| oracle_with(&t2, c, cx),
    );
    for cls in ["state", "message_like", "ephemeral", "global_account_data", "room_account_data", "to_device", "unknown_type", "redacted_form", "relation", "optional_field_present", "unknown_fields_present", "escaped_or_spaced_spelling", "type_string_escaped", "near_miss_of_known_type", "redacted_content_reserialised"] {
        ck.floor("events", cls, 1000);
    }
    let n = ck.n(60_000, 2_000_000);
    ck.prop("raw_wrapper_spellings", n, || vf_ref::cjson::spelled_object(3, true).prop_map(|s| RawCase { s }), raw_oracle);
    ck.floor("raw_wrapper_spellings", "duplicate_keys", 2000);
    ck.floor("raw_wrapper_spellings", "escaped_key_spelling", 5000);
    ck.finish()
}
