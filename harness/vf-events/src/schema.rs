//! Hand-written event content schemas (from the client-server specification) as generators.
//! A `G` consumes a byte string of choices, so a case is plain data and shrinks towards the
//! minimal content of its type (all optional fields absent).

use serde_json::{json, Map, Value};

pub struct G<'a> {
    c: &'a [u8],
    i: usize,
}

const STRS: [&str; 12] = ["x", "hello world", "", "é\u{1F600}", "line\nbreak", "a\"b\\c", "mxc://s.example/abc", "@u:s.example", "!r:s.example", "$ev:s.example", "  ", "m.text"];

impl<'a> G<'a> {
    pub fn new(c: &'a [u8]) -> Self {
        G { c, i: 0 }
    }
    fn byte(&mut self) -> u8 {
        let b = self.c.get(self.i).copied().unwrap_or(0);
        self.i += 1;
        b
    }
    /// optional field present?
    pub fn b(&mut self) -> bool {
        self.byte() % 2 == 1
    }
    pub fn n(&mut self, k: usize) -> usize {
        (self.byte() as usize) % k.max(1)
    }
    pub fn s(&mut self) -> String {
        STRS[self.n(STRS.len())].to_owned()
    }
    pub fn int(&mut self) -> i64 {
        [0i64, 1, 42, 1_000_000, 9007199254740991][self.n(5)]
    }
    pub fn user(&mut self) -> String {
        ["@alice:s.example", "@bob:t.example:8448", "@c=d/e+f:s.example"][self.n(3)].to_owned()
    }
    pub fn event_id(&mut self) -> String {
        ["$ev1:s.example", "$Rqnc-F-dvnEYJTyHq_iKxU2bZ1CI92-kuZq3a5lr5Zg", "$acR1l0raoZnm60CBwAVgqbZqoO/mYU81xysh1u7XcJk"][self.n(3)].to_owned()
    }
    pub fn room_id(&mut self) -> String {
        ["!room:s.example", "!other:t.example"][self.n(2)].to_owned()
    }
    pub fn mxc(&mut self) -> String {
        ["mxc://s.example/abcDEF", "mxc://t.example:8448/x-y_z"][self.n(2)].to_owned()
    }
    /// an array field: usually as given, sometimes a shorter prefix down to the empty array
    pub fn arr(&mut self, full: Value) -> Value {
        let mut a = match full {
            Value::Array(a) => a,
            other => return other,
        };
        let drop = self.n(2 * (a.len() + 1));
        a.truncate(a.len().saturating_sub(drop.saturating_sub(a.len())));
        Value::Array(a)
    }
    /// unknown extra fields
    pub fn extra(&mut self, o: &mut Map<String, Value>) {
        if self.b() {
            o.insert("org.example.unknown".into(), [json!(1), json!("x"), json!({"nested": [1, null]}), json!(null)][self.n(4)].clone());
        }
    }
}

fn obj(v: Value) -> Map<String, Value> {
    match v {
        Value::Object(m) => m,
        _ => Map::new(),
    }
}

fn image_info(g: &mut G) -> Value {
    media_info(g, true)
}

/// `visual`: image / video / sticker infos carry dimensions, file and audio infos do not.
fn media_info(g: &mut G, visual: bool) -> Value {
    let mut o = Map::new();
    if g.b() && visual {
        o.insert("h".into(), json!(g.int() % 5000));
        o.insert("w".into(), json!(g.int() % 5000));
    }
    if g.b() {
        o.insert("mimetype".into(), json!("image/png"));
    }
    if g.b() {
        o.insert("size".into(), json!(g.int()));
    }
    let thumb = g.n(5);
    if thumb != 0 {
        if thumb != 2 {
            o.insert("thumbnail_url".into(), json!(g.mxc()));
        }
        if thumb >= 2 && thumb != 4 {
            // 2: encrypted thumbnail, 3: both spellings at once (outside the specification's shape)
            o.insert("thumbnail_file".into(), encrypted_file(g));
        }
        o.insert("thumbnail_info".into(), json!({"h": 10, "w": 10, "mimetype": "image/jpeg", "size": 100}));
    }
    g.extra(&mut o);
    Value::Object(o)
}

/// The legacy integer 0, the string "1", and strings that merely look like them: the version of
/// a call event is free-form text from version 1 on, so "0" and "01" are values of their own.
fn voip_version(g: &mut G) -> Value {
    [json!(0), json!("1"), json!("0"), json!("2"), json!("01"), json!("org.example.v"), json!("")][g.n(7)].clone()
}

fn encrypted_file(g: &mut G) -> Value {
    json!({"url": g.mxc(), "key": {"kty": "oct", "key_ops": ["encrypt", "decrypt"], "alg": "A256CTR", "k": "aWF6-32KGYaC3A_FEUCk1Bt0JA37zP0wrStgmdCaW-0", "ext": true}, "iv": "w+sE15fzSc0AAAAAAAAAAA", "hashes": {"sha256": "fdSLu/YkRx3Wyh3KQabP3rd6+SFiKg5lsJZQHtkSAYA"}, "v": "v2"})
}

fn relations(g: &mut G, o: &mut Map<String, Value>) {
    match g.n(6) {
        1 => {
            o.insert("m.relates_to".into(), json!({"m.in_reply_to": {"event_id": g.event_id()}}));
        }
        2 => {
            let mut r = obj(json!({"rel_type": "m.thread", "event_id": g.event_id()}));
            if g.b() {
                r.insert("m.in_reply_to".into(), json!({"event_id": g.event_id()}));
                r.insert("is_falling_back".into(), json!(g.b()));
            }
            o.insert("m.relates_to".into(), Value::Object(r));
        }
        3 => {
            o.insert("m.relates_to".into(), json!({"rel_type": "m.replace", "event_id": g.event_id()}));
            o.insert("m.new_content".into(), json!({"msgtype": "m.text", "body": g.s()}));
        }
        4 => {
            o.insert("m.relates_to".into(), json!({"rel_type": "org.example.custom_rel", "event_id": g.event_id(), "key": "k"}));
        }
        _ => {}
    }
    if g.b() {
        let mut m = Map::new();
        if g.b() {
            { let u = json!([g.user()]); m.insert("user_ids".into(), g.arr(u)); }
        }
        if g.b() {
            m.insert("room".into(), json!(g.b()));
        }
        o.insert("m.mentions".into(), Value::Object(m));
    }
}

pub fn room_message(g: &mut G) -> Value {
    let kinds = ["m.text", "m.emote", "m.notice", "m.image", "m.file", "m.audio", "m.video", "m.location", "m.key.verification.request", "m.server_notice", "org.example.custom"];
    let msgtype = kinds[g.n(kinds.len())];
    let mut o = obj(json!({"msgtype": msgtype, "body": g.s()}));
    match msgtype {
        "m.text" | "m.emote" | "m.notice" => {
            if g.b() {
                o.insert("format".into(), json!("org.matrix.custom.html"));
                o.insert("formatted_body".into(), json!(format!("<b>{}</b>", g.s())));
            }
        }
        "m.image" | "m.video" | "m.audio" | "m.file" => {
            // plain (`url`), encrypted (`file`), or - not as the specification describes, but seen
            // on the wire - both at once
            match g.n(5) {
                1 | 2 => {
                    o.insert("file".into(), encrypted_file(g));
                }
                3 => {
                    o.insert("file".into(), encrypted_file(g));
                    o.insert("url".into(), json!(g.mxc()));
                }
                _ => {
                    o.insert("url".into(), json!(g.mxc()));
                }
            }
            if g.b() {
                let info = if msgtype == "m.audio" {
                    // audio info has no thumbnail either
                    let mut a = Map::new();
                    if g.b() { a.insert("duration".into(), json!(g.int() % 100000)); }
                    if g.b() { a.insert("mimetype".into(), json!("audio/ogg")); }
                    if g.b() { a.insert("size".into(), json!(g.int())); }
                    Value::Object(a)
                } else {
                    media_info(g, matches!(msgtype, "m.image" | "m.video"))
                };
                o.insert("info".into(), info);
            }
            if g.b() {
                o.insert("filename".into(), json!(g.s()));
            }
        }
        "m.location" => {
            o.insert("geo_uri".into(), json!("geo:51.5,-0.1"));
            if g.b() {
                o.insert("info".into(), json!({"thumbnail_url": g.mxc()}));
            }
        }
        "m.key.verification.request" => {
            o.insert("from_device".into(), json!("DEV"));
            o.insert("to".into(), json!(g.user()));
            o.insert("methods".into(), g.arr(json!(["m.sas.v1", "org.example.method"])));
        }
        "m.server_notice" => {
            o.insert("server_notice_type".into(), json!("m.server_notice.usage_limit_reached"));
            if g.b() {
                o.insert("admin_contact".into(), json!("mailto:a@b.c"));
                o.insert("limit_type".into(), json!("monthly_active_user"));
            }
        }
        _ => {
            o.insert("org.example.data".into(), json!({"a": [1, 2]}));
        }
    }
    relations(g, &mut o);
    g.extra(&mut o);
    Value::Object(o)
}

#[derive(Clone, Copy, PartialEq, Eq, Debug)]
pub enum Kind {
    State,
    MessageLike,
    Ephemeral,
    GlobalAccountData,
    RoomAccountData,
    ToDevice,
}

pub struct Schema {
    pub ty: &'static str,
    pub kind: Kind,
    pub gen: fn(&mut G) -> Value,
}

macro_rules! schema {
    ($ty:literal, $kind:ident, |$g:ident| $body:block) => {
        Schema {
            ty: $ty,
            kind: Kind::$kind,
            gen: {
                fn f($g: &mut G) -> Value $body
                f
            },
        }
    };
}

pub fn schemas() -> Vec<Schema> {
    vec![
        // ---- state --------------------------------------------------------------------------
        schema!("m.room.create", State, |g| {
            let mut o = Map::new();
            if g.b() { o.insert("creator".into(), json!(g.user())); }
            if g.b() { o.insert("room_version".into(), json!((["1", "6", "10", "11", "org.example.v"][g.n(5)]))); }
            if g.b() { o.insert("m.federate".into(), json!(g.b())); }
            if g.b() { o.insert("type".into(), json!((["m.space", "org.example.t"][g.n(2)]))); }
            if g.b() { o.insert("predecessor".into(), json!({"room_id": g.room_id(), "event_id": g.event_id()})); }
            g.extra(&mut o);
            Value::Object(o)
        }),
        schema!("m.room.member", State, |g| {
            let mut o = obj(json!({"membership": (["join", "leave", "invite", "ban", "knock"][g.n(5)])}));
            if g.b() { o.insert("displayname".into(), json!(g.s())); }
            if g.b() { o.insert("avatar_url".into(), json!(g.mxc())); }
            if g.b() { o.insert("is_direct".into(), json!(g.b())); }
            if g.b() { o.insert("reason".into(), json!(g.s())); }
            if g.b() { o.insert("join_authorised_via_users_server".into(), json!(g.user())); }
            if g.b() { o.insert("third_party_invite".into(), json!({"display_name": g.s(), "signed": {"mxid": g.user(), "token": "tok", "signatures": {"id.example": {"ed25519:0": "c2ln"}}}})); }
            g.extra(&mut o);
            Value::Object(o)
        }),
        schema!("m.room.power_levels", State, |g| {
            let mut o = Map::new();
            for f in ["ban", "kick", "invite", "redact", "state_default", "events_default", "users_default"] {
                if g.b() { o.insert(f.into(), json!(g.int() % 101)); }
            }
            if g.b() { o.insert("users".into(), json!({g.user(): 100})); }
            if g.b() { o.insert("events".into(), json!({"m.room.name": 50, "org.example.t": 1})); }
            if g.b() { o.insert("notifications".into(), json!({"room": 20})); }
            g.extra(&mut o);
            Value::Object(o)
        }),
        schema!("m.room.join_rules", State, |g| {
            let jr = (["public", "invite", "knock", "private", "restricted", "knock_restricted"][g.n(6)]);
            let mut o = obj(json!({"join_rule": jr}));
            if matches!(jr, "restricted" | "knock_restricted") {
                o.insert("allow".into(), json!([{"type": "m.room_membership", "room_id": g.room_id()}, {"type": "org.example.other", "x": 1}]));
            }
            g.extra(&mut o);
            Value::Object(o)
        }),
        schema!("m.room.name", State, |g| { let mut o = obj(json!({"name": g.s()})); g.extra(&mut o); Value::Object(o) }),
        schema!("m.room.topic", State, |g| { let mut o = obj(json!({"topic": g.s()})); g.extra(&mut o); Value::Object(o) }),
        schema!("m.room.avatar", State, |g| {
            let mut o = Map::new();
            if g.b() { o.insert("url".into(), json!(g.mxc())); }
            if g.b() {
                // the avatar's ImageInfo has no encrypted thumbnail in the specification
                let mut info = image_info(g);
                if let Some(i) = info.as_object_mut() {
                    if i.remove("thumbnail_file").is_some() && !i.contains_key("thumbnail_url") {
                        i.remove("thumbnail_info");
                    }
                }
                o.insert("info".into(), info);
            }
            g.extra(&mut o);
            Value::Object(o)
        }),
        schema!("m.room.canonical_alias", State, |g| {
            let mut o = Map::new();
            if g.b() { o.insert("alias".into(), json!("#main:s.example")); }
            if g.b() { o.insert("alt_aliases".into(), g.arr(json!(["#alt:s.example", "#other:t.example"]))); }
            g.extra(&mut o);
            Value::Object(o)
        }),
        schema!("m.room.guest_access", State, |g| { let mut o = obj(json!({"guest_access": (["can_join", "forbidden", "org.example.x"][g.n(3)])})); g.extra(&mut o); Value::Object(o) }),
        schema!("m.room.history_visibility", State, |g| { let mut o = obj(json!({"history_visibility": (["invited", "joined", "shared", "world_readable"][g.n(4)])})); g.extra(&mut o); Value::Object(o) }),
        schema!("m.room.encryption", State, |g| {
            let mut o = obj(json!({"algorithm": (["m.megolm.v1.aes-sha2", "org.example.alg"][g.n(2)])}));
            if g.b() { o.insert("rotation_period_ms".into(), json!(604800000u64)); }
            if g.b() { o.insert("rotation_period_msgs".into(), json!(100)); }
            g.extra(&mut o);
            Value::Object(o)
        }),
        schema!("m.room.pinned_events", State, |g| { let mut o = obj(json!({"pinned": [g.event_id(), g.event_id()]})); let p = g.arr(o["pinned"].take()); o.insert("pinned".into(), p); g.extra(&mut o); Value::Object(o) }),
        schema!("m.room.server_acl", State, |g| {
            let mut o = Map::new();
            if g.b() { o.insert("allow_ip_literals".into(), json!(g.b())); }
            if g.b() { o.insert("allow".into(), g.arr(json!(["*"]))); }
            if g.b() { o.insert("deny".into(), g.arr(json!(["*.evil.example", "evil.example"]))); }
            g.extra(&mut o);
            Value::Object(o)
        }),
        schema!("m.room.third_party_invite", State, |g| {
            let mut o = obj(json!({"display_name": g.s(), "key_validity_url": "https://id.example/valid", "public_key": "abcdefgh"}));
            if g.b() { o.insert("public_keys".into(), json!([{"public_key": "ijkl", "key_validity_url": "https://id.example/v2"}, {"public_key": "mnop"}])); }
            g.extra(&mut o);
            Value::Object(o)
        }),
        schema!("m.room.tombstone", State, |g| { let mut o = obj(json!({"body": g.s(), "replacement_room": g.room_id()})); g.extra(&mut o); Value::Object(o) }),
        schema!("m.room.aliases", State, |g| { let mut o = obj(json!({"aliases": g.arr(json!(["#a:s.example"]))})); g.extra(&mut o); Value::Object(o) }),
        schema!("m.space.child", State, |g| {
            let mut o = obj(json!({"via": g.arr(json!(["s.example", "t.example:8448"]))}));
            if g.b() { o.insert("order".into(), json!("abc")); }
            if g.b() { o.insert("suggested".into(), json!(g.b())); }
            g.extra(&mut o);
            Value::Object(o)
        }),
        schema!("m.space.parent", State, |g| {
            let mut o = obj(json!({"via": g.arr(json!(["s.example"]))}));
            if g.b() { o.insert("canonical".into(), json!(g.b())); }
            g.extra(&mut o);
            Value::Object(o)
        }),
        schema!("m.policy.rule.user", State, |g| { let mut o = obj(json!({"entity": "@evil*:*", "recommendation": (["m.ban", "org.example.rec"][g.n(2)]), "reason": g.s()})); g.extra(&mut o); Value::Object(o) }),
        // ---- message-like -------------------------------------------------------------------
        schema!("m.room.message", MessageLike, |g| { room_message(g) }),
        schema!("m.reaction", MessageLike, |g| { let mut o = obj(json!({"m.relates_to": {"rel_type": "m.annotation", "event_id": g.event_id(), "key": (["👍", "x", ""][g.n(3)])}})); g.extra(&mut o); Value::Object(o) }),
        schema!("m.room.redaction", MessageLike, |g| {
            let mut o = Map::new();
            if g.b() { o.insert("redacts".into(), json!(g.event_id())); }
            if g.b() { o.insert("reason".into(), json!(g.s())); }
            g.extra(&mut o);
            Value::Object(o)
        }),
        schema!("m.room.encrypted", MessageLike, |g| {
            let mut o = if g.b() {
                obj(json!({"algorithm": "m.megolm.v1.aes-sha2", "ciphertext": "AwgAEnACgAkLmt6qF84IK++J7UDH2Za1YVchHyprqTqsg", "session_id": "X3lUlvLELLYxeTx4yOVu6UDpasGEVO0Jbu+QFnm0cKQ", "device_id": "DEV", "sender_key": "Szl29ksW/L8yZGWAX+8dY1XyFi+i5wm+DRhTGkbMiwU"}))
            } else {
                obj(json!({"algorithm": "m.olm.v1.curve25519-aes-sha2", "sender_key": "Szl29ksW/L8yZGWAX+8dY1XyFi+i5wm+DRhTGkbMiwU", "ciphertext": {"7qZcfnBmbEGzxxaWfBjElJuvn7BZx+lSz/SvFrDF/z8": {"type": 0, "body": "AwogGJJzMhf/S3GQFXAOrCZ3iKyGU5ZScVtjI0KypTYrW"}}}))
            };
            if g.b() { o.insert("m.relates_to".into(), json!({"rel_type": "m.thread", "event_id": g.event_id()})); }
            g.extra(&mut o);
            Value::Object(o)
        }),
        schema!("m.sticker", MessageLike, |g| { let mut o = obj(json!({"body": g.s(), "info": image_info(g), "url": g.mxc()})); g.extra(&mut o); Value::Object(o) }),
        schema!("m.call.invite", MessageLike, |g| {
            let mut o = obj(json!({"call_id": "c1", "lifetime": 60000, "offer": {"type": "offer", "sdp": "v=0"}, "version": voip_version(g)}));
            if g.b() { o.insert("party_id".into(), json!("p1")); }
            if g.b() { o.insert("invitee".into(), json!(g.user())); }
            g.extra(&mut o);
            Value::Object(o)
        }),
        schema!("m.call.answer", MessageLike, |g| { let mut o = obj(json!({"call_id": "c1", "answer": {"type": "answer", "sdp": "v=0"}, "version": voip_version(g)})); g.extra(&mut o); Value::Object(o) }),
        schema!("m.call.candidates", MessageLike, |g| { let mut o = obj(json!({"call_id": "c1", "candidates": g.arr(json!([{"candidate": "candidate:1", "sdpMid": "0", "sdpMLineIndex": 0}])), "version": voip_version(g), "party_id": "p"})); g.extra(&mut o); Value::Object(o) }),
        schema!("m.call.hangup", MessageLike, |g| {
            let mut o = obj(json!({"call_id": "c1", "version": voip_version(g)}));
            if g.b() { o.insert("reason".into(), json!((["ice_failed", "invite_timeout", "user_hangup", "org.example.r"][g.n(4)]))); }
            if g.b() { o.insert("party_id".into(), json!("p")); }
            g.extra(&mut o);
            Value::Object(o)
        }),
        schema!("m.key.verification.start", MessageLike, |g| {
            let mut o = obj(json!({"from_device": "DEV", "method": "m.sas.v1", "key_agreement_protocols": ["curve25519-hkdf-sha256"], "hashes": ["sha256"], "message_authentication_codes": ["hkdf-hmac-sha256.v2"], "short_authentication_string": ["decimal", "emoji"], "m.relates_to": {"rel_type": "m.reference", "event_id": g.event_id()}}));
            g.extra(&mut o);
            Value::Object(o)
        }),
        schema!("m.key.verification.cancel", MessageLike, |g| { let mut o = obj(json!({"code": (["m.user", "m.timeout", "org.example.code"][g.n(3)]), "reason": g.s(), "m.relates_to": {"rel_type": "m.reference", "event_id": g.event_id()}})); g.extra(&mut o); Value::Object(o) }),
        schema!("m.key.verification.done", MessageLike, |g| { let mut o = obj(json!({"m.relates_to": {"rel_type": "m.reference", "event_id": g.event_id()}})); g.extra(&mut o); Value::Object(o) }),
        // ---- ephemeral ----------------------------------------------------------------------
        schema!("m.typing", Ephemeral, |g| { let mut o = obj(json!({"user_ids": [g.user(), g.user()]})); let u = g.arr(o["user_ids"].take()); o.insert("user_ids".into(), u); g.extra(&mut o); Value::Object(o) }),
        schema!("m.receipt", Ephemeral, |g| {
            let mut o = Map::new();
            let mut r = Map::new();
            r.insert("m.read".into(), json!({g.user(): {"ts": 1436451550453u64}}));
            if g.b() { r.insert("m.read.private".into(), json!({g.user(): {"ts": 1, "thread_id": (["main", "$thread"][g.n(2)])}})); }
            if g.b() { r.insert("org.example.receipt".into(), json!({g.user(): {}})); }
            o.insert(g.event_id(), Value::Object(r));
            Value::Object(o)
        }),
        // ---- account data -------------------------------------------------------------------
        schema!("m.direct", GlobalAccountData, |g| { json!({g.user(): [g.room_id(), g.room_id()]}) }),
        schema!("m.ignored_user_list", GlobalAccountData, |g| { let mut o = obj(json!({"ignored_users": {g.user(): {}}})); g.extra(&mut o); Value::Object(o) }),
        schema!("m.push_rules", GlobalAccountData, |g| {
            let rule = json!({"actions": ["notify", {"set_tweak": "sound", "value": "default"}, {"set_tweak": "highlight"}], "default": true, "enabled": g.b(), "rule_id": ".m.rule.master", "conditions": [{"kind": "event_match", "key": "type", "pattern": "m.*"}, {"kind": "room_member_count", "is": "2"}, {"kind": "org.example.cond", "x": 1}]});
            json!({"global": {"override": [rule], "content": [{"actions": ["notify"], "default": false, "enabled": true, "rule_id": "c", "pattern": "alice"}], "room": [], "sender": [], "underride": []}})
        }),
        // base_url is required and nullable: null = "the user does not want an identity server"
        schema!("m.identity_server", GlobalAccountData, |g| { let mut o = obj(json!({"base_url": (if g.b() { json!("https://id.example") } else { Value::Null })})); g.extra(&mut o); Value::Object(o) }),
        schema!("m.secret_storage.default_key", GlobalAccountData, |g| { let mut o = obj(json!({"key": "keyid"})); g.extra(&mut o); Value::Object(o) }),
        schema!("m.secret_storage.key.abc", GlobalAccountData, |g| {
            // the specified algorithm, or one this version of the specification does not know (its
            // properties are then kept as they are)
            let mut o = if g.n(4) == 0 {
                obj(json!({"algorithm": "org.example.custom_algorithm", "org.example.parameter": {"x": 1}, "iv": "YWJj"}))
            } else {
                obj(json!({"algorithm": "m.secret_storage.v1.aes-hmac-sha2", "iv": "YWJjZGVmZ2hpamtsbW5vcA", "mac": "aWRvbnRrbm93d2hhdGFtYWNsb29rc2xpa2U"}))
            };
            if g.b() { o.insert("name".into(), json!(g.s())); }
            if g.b() { o.insert("passphrase".into(), json!({"algorithm": "m.pbkdf2", "salt": "rocksalt", "iterations": 8, "bits": 256})); }
            Value::Object(o)
        }),
        schema!("m.tag", RoomAccountData, |g| { json!({"tags": {"m.favourite": {"order": 0.25}, "u.work": {}, "m.lowpriority": {"order": 1}}}) .clone().pipe(|v| { let _ = g.b(); v }) }),
        schema!("m.fully_read", RoomAccountData, |g| { let mut o = obj(json!({"event_id": g.event_id()})); g.extra(&mut o); Value::Object(o) }),
        schema!("m.marked_unread", RoomAccountData, |g| { let mut o = obj(json!({"unread": g.b()})); g.extra(&mut o); Value::Object(o) }),
        // ---- to-device ----------------------------------------------------------------------
        schema!("m.dummy", ToDevice, |g| { let mut o = Map::new(); g.extra(&mut o); Value::Object(o) }),
        schema!("m.room_key", ToDevice, |g| { let mut o = obj(json!({"algorithm": "m.megolm.v1.aes-sha2", "room_id": g.room_id(), "session_id": "X3lUlvLELLYxeTx4yOVu6UDpasGEVO0Jbu+QFnm0cKQ", "session_key": "AgAAAADxKHa9uFxcXzwYoNueL5Xqi69IkD4sni8LlfJL7qNBEY"})); g.extra(&mut o); Value::Object(o) }),
        schema!("m.room_key_request", ToDevice, |g| {
            let mut o = obj(json!({"action": (["request", "request_cancellation"][g.n(2)]), "requesting_device_id": "DEV", "request_id": "r1"}));
            if g.b() { o.insert("body".into(), json!({"algorithm": "m.megolm.v1.aes-sha2", "room_id": g.room_id(), "session_id": "sess", "sender_key": "key"})); }
            g.extra(&mut o);
            Value::Object(o)
        }),
        schema!("m.forwarded_room_key", ToDevice, |g| { let mut o = obj(json!({"algorithm": "m.megolm.v1.aes-sha2", "room_id": g.room_id(), "sender_key": "RF3s+E7RkTQTGF2d8Deol0FkQvgII2aJDf3/Jp5mxVU", "session_id": "X3lUlvLELLYxeTx4yOVu6UDpasGEVO0Jbu+QFnm0cKQ", "session_key": "AgAAAADxKHa9uFxcXzwYoNueL5Xqi69IkD4sni8Llf", "sender_claimed_ed25519_key": "aj40p+aw64yPIdsxoog8jhPu9i7l7NcFRecuOQblE3Y", "forwarding_curve25519_key_chain": g.arr(json!(["hPQNcabIABgGnx3/ACv/jmMmiQHoeFfuLB17tzWp6Hw", "RF3s+E7RkTQTGF2d8Deol0FkQvgII2aJDf3/Jp5mxVU"]))})); g.extra(&mut o); Value::Object(o) }),
        schema!("m.secret.request", ToDevice, |g| {
            let cancel = g.b();
            let mut o = obj(json!({"action": if cancel { "request_cancellation" } else { "request" }, "requesting_device_id": "DEV", "request_id": "r"}));
            if !cancel { o.insert("name".into(), json!((["m.cross_signing.master", "m.megolm_backup.v1", "org.example.secret"][g.n(3)]))); }
            g.extra(&mut o);
            Value::Object(o)
        }),
        schema!("m.secret.send", ToDevice, |g| { let mut o = obj(json!({"request_id": "r", "secret": g.s()})); g.extra(&mut o); Value::Object(o) }),
        schema!("m.key.verification.request", ToDevice, |g| { let mut o = obj(json!({"from_device": "DEV", "transaction_id": "t1", "methods": g.arr(json!(["m.sas.v1"])), "timestamp": 1559598944869u64})); g.extra(&mut o); Value::Object(o) }),
    ]
}

trait Pipe: Sized {
    fn pipe<R>(self, f: impl FnOnce(Self) -> R) -> R {
        f(self)
    }
}
impl Pipe for Value {}
