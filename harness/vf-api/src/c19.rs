//! C19 String-valued protocol enums are lossless and forward compatible.

use std::fmt::{Debug, Display};

use proptest::prelude::*;
use serde::{de::DeserializeOwned, Deserialize, Serialize};
use vf_engine::{pick_idx, CaseCtx, Check};

type VariantOk<T> = fn(&T, &str) -> Option<bool>;

/// How `Ord` is defined for the type.
#[derive(Clone, Copy, PartialEq)]
enum OrdKind {
    None,
    /// defined as the ordering of the string form (hand-written list, see DESIGN.md C19)
    ByString,
    /// std's derived ordering: only total-order consistency with `==` is asserted
    Derived,
}

pub struct EnumSpec {
    pub name: &'static str,
    pub spellings: Vec<&'static str>,
    pub aliases: Vec<(&'static str, &'static str)>,
    pub wildcard_prefixes: Vec<&'static str>,
    run: Box<dyn Fn(&EnumSpec, &str, &str, &str, &mut CaseCtx) -> Result<(), String> + Send + Sync>,
}

fn canon<'a>(spec: &EnumSpec, s: &'a str) -> &'a str {
    for (a, c) in &spec.aliases {
        if *a == s {
            return c;
        }
    }
    s
}

/// The string form: `as_ref()` for the derive-based enums, `to_string()` for the event-type
/// enums (their wildcard variants own the suffix and cannot hand out a `&str`).
pub trait Form {
    fn form(&self) -> String;
}

fn laws<T>(spec: &EnumSpec, variant_ok: VariantOk<T>, s: &str) -> Result<T, String>
where
    T: for<'a> From<&'a str> + From<String> + Form + Display + Debug + Serialize + DeserializeOwned + Clone,
{
    let name = spec.name;
    let v = T::from(s);
    let want = canon(spec, s);
    if v.form() != want {
        return Err(format!("{name}: converting {s:?} to the enum and back gives {:?}", v.form()));
    }
    let owned = T::from(s.to_owned());
    if owned.form() != want || format!("{owned:?}") != format!("{v:?}") {
        return Err(format!("{name}: From<String> gives {owned:?} but From<&str> gives {v:?} for {s:?}"));
    }
    // specified spelling -> its dedicated variant; anything else -> no dedicated variant
    match variant_ok(&v, want) {
        Some(true) => {}
        Some(false) => return Err(format!("{name}: the specified spelling {want:?} does not map to its dedicated variant (got {v:?})")),
        None => {
            for sp in &spec.spellings {
                if variant_ok(&v, sp) == Some(true) {
                    return Err(format!("{name}: {s:?} is not a specified spelling but maps to the variant of {sp:?}"));
                }
            }
        }
    }
    // idempotence
    let again = T::from(v.form().as_str());
    if again.form() != v.form() {
        return Err(format!("{name}: conversion is not idempotent on {s:?}"));
    }
    // string forms agree
    if v.to_string() != want || format!("{v}") != want {
        return Err(format!("{name}: Display of {s:?} is {:?}", v.to_string()));
    }
    let js = serde_json::to_string(&v).map_err(|e| format!("{name}: serialisation failed: {e}"))?;
    if js != serde_json::to_string(want).unwrap() {
        return Err(format!("{name}: JSON of {s:?} is {js}"));
    }
    let de: T = serde_json::from_str(&serde_json::to_string(s).unwrap()).map_err(|e| format!("{name}: deserialising the JSON string {s:?} failed: {e}"))?;
    if de.form() != want || format!("{de:?}") != format!("{v:?}") {
        return Err(format!("{name}: JSON deserialisation of {s:?} gives {de:?}, the string conversion gives {v:?}"));
    }
    // the same JSON string written with \\uXXXX escapes for every character (and inside whitespace)
    let esc: String = s.encode_utf16().map(|u| format!("\\u{u:04x}")).collect();
    let de3: T = serde_json::from_str(&format!(" \"{esc}\"\n")).map_err(|e| format!("{name}: deserialising the escaped spelling of {s:?} failed: {e}"))?;
    if de3.form() != want {
        return Err(format!("{name}: JSON deserialisation of the escaped spelling of {s:?} gives {:?}", de3.form()));
    }
    let de2: T = serde_json::from_value(serde_json::Value::String(s.to_owned())).map_err(|e| format!("{name}: from_value failed: {e}"))?;
    if de2.form() != want {
        return Err(format!("{name}: from_value of {s:?} gives {:?}", de2.form()));
    }
    for p in &spec.wildcard_prefixes {
        if let Some(suffix) = s.strip_prefix(p) {
            if !v.form().ends_with(suffix) || v.to_string() != s {
                return Err(format!("{name}: wildcard type {s:?} lost its suffix"));
            }
        }
    }
    Ok(v)
}

fn spec_noeq<T>(name: &'static str, spellings: Vec<&'static str>, variant_ok: VariantOk<T>) -> EnumSpec
where
    T: for<'a> From<&'a str> + From<String> + Form + Display + Debug + Serialize + DeserializeOwned + Clone + 'static,
{
    EnumSpec { name, spellings, aliases: vec![], wildcard_prefixes: vec![], run: Box::new(move |spec, a, b, _c, _cx| laws::<T>(spec, variant_ok, a).and(laws::<T>(spec, variant_ok, b)).map(|_| ())) }
}

fn spec_eq<T>(name: &'static str, spellings: Vec<&'static str>, variant_ok: VariantOk<T>) -> EnumSpec
where
    T: for<'a> From<&'a str> + From<String> + Form + Display + Debug + Serialize + DeserializeOwned + Clone + PartialEq + 'static,
{
    EnumSpec {
        name,
        spellings,
        aliases: vec![],
        wildcard_prefixes: vec![],
        run: Box::new(move |spec, a, b, _c, _cx| {
            let (va, vb) = (laws::<T>(spec, variant_ok, a)?, laws::<T>(spec, variant_ok, b)?);
            eq_law(spec, &va, &vb, a, b)
        }),
    }
}

fn eq_law<T: PartialEq + Form + for<'a> From<&'a str> + From<String>>(spec: &EnumSpec, va: &T, vb: &T, a: &str, b: &str) -> Result<(), String> {
    if (va == vb) != (va.form() == vb.form()) {
        return Err(format!("{}: equality of {a:?} and {b:?} is {} but their string forms are {}", spec.name, va == vb, if va.form() == vb.form() { "equal" } else { "different" }));
    }
    if *va != T::from(va.form().as_str()) {
        return Err(format!("{}: a value is not equal to its own re-conversion ({a:?})", spec.name));
    }
    // every conversion entry point yields the same (==) value
    if *va != T::from(a.to_owned()) {
        return Err(format!("{}: From<String> and From<&str> give unequal values for {a:?}", spec.name));
    }
    Ok(())
}

fn spec_ord<T>(name: &'static str, spellings: Vec<&'static str>, variant_ok: VariantOk<T>, kind: OrdKind) -> EnumSpec
where
    T: for<'a> From<&'a str> + From<String> + Form + Display + Debug + Serialize + DeserializeOwned + Clone + PartialEq + Ord + 'static,
{
    EnumSpec {
        name,
        spellings,
        aliases: vec![],
        wildcard_prefixes: vec![],
        run: Box::new(move |spec, a, b, c, cx| {
            let (va, vb, vc) = (laws::<T>(spec, variant_ok, a)?, laws::<T>(spec, variant_ok, b)?, laws::<T>(spec, variant_ok, c)?);
            eq_law(spec, &va, &vb, a, b)?;
            use std::cmp::Ordering::*;
            let ab = va.cmp(&vb);
            if (ab == Equal) != (va == vb) || vb.cmp(&va) != ab.reverse() || va.partial_cmp(&vb) != Some(ab) {
                return Err(format!("{name}: ordering of {a:?} and {b:?} is inconsistent with equality / not antisymmetric"));
            }
            // transitivity on the triple
            let (bc, ac) = (vb.cmp(&vc), va.cmp(&vc));
            if ab != Greater && bc != Greater && ac == Greater {
                return Err(format!("{name}: ordering not transitive on {a:?} <= {b:?} <= {c:?}"));
            }
            match kind {
                OrdKind::ByString => {
                    if ab != va.form().cmp(&vb.form()) {
                        return Err(format!("{name}: ordering of {a:?} and {b:?} is {ab:?} but their string forms compare {:?}", va.form().cmp(&vb.form())));
                    }
                }
                OrdKind::Derived => {
                    if ab != va.form().cmp(&vb.form()) {
                        cx.class("ord_by_declaration_differs_from_string_order_reported");
                    }
                }
                OrdKind::None => {}
            }
            Ok(())
        }),
    }
}

macro_rules! vo {
    ($T:ty, [$($s:literal => $p:pat),* $(,)?]) => {{
        fn f(v: &$T, s: &str) -> Option<bool> {
            #[allow(unreachable_patterns)]
            match s { $($s => Some(matches!(v, $p)),)* _ => None }
        }
        (vec![$($s),*], f as VariantOk<$T>)
    }};
}
macro_rules! form_asref { ($($T:ty),* $(,)?) => { $(impl Form for $T { fn form(&self) -> String { AsRef::<str>::as_ref(self).to_owned() } })* } }
macro_rules! form_display { ($($T:ty),* $(,)?) => { $(impl Form for $T { fn form(&self) -> String { self.to_string() } })* } }
macro_rules! eq { ($name:literal, $T:ty, [$($t:tt)*]) => {{ let (s, f) = vo!($T, [$($t)*]); spec_eq::<$T>($name, s, f) }}; }
macro_rules! noeq { ($name:literal, $T:ty, [$($t:tt)*]) => {{ let (s, f) = vo!($T, [$($t)*]); spec_noeq::<$T>($name, s, f) }}; }
macro_rules! ord { ($name:literal, $T:ty, $k:expr, [$($t:tt)*]) => {{ let (s, f) = vo!($T, [$($t)*]); spec_ord::<$T>($name, s, f, $k) }}; }

pub fn specs() -> Vec<EnumSpec> {
    use ruma_client_api as c;
    use ruma_common as rc;
    use ruma_events as ev;
    use OrdKind::{ByString, Derived};
    let mut v = vec![
        // --- ruma-common -------------------------------------------------------------------
        eq!("encryption::KeyUsage", rc::encryption::KeyUsage, ["master" => rc::encryption::KeyUsage::Master, "self_signing" => rc::encryption::KeyUsage::SelfSigning, "user_signing" => rc::encryption::KeyUsage::UserSigning]),
        eq!("authentication::TokenType", rc::authentication::TokenType, ["Bearer" => rc::authentication::TokenType::Bearer]),
        eq!("thirdparty::Medium", rc::thirdparty::Medium, ["email" => rc::thirdparty::Medium::Email, "msisdn" => rc::thirdparty::Medium::Msisdn]),
        eq!("directory::PublicRoomJoinRule", rc::directory::PublicRoomJoinRule, ["public" => rc::directory::PublicRoomJoinRule::Public, "knock" => rc::directory::PublicRoomJoinRule::Knock]),
        eq!("presence::PresenceState", rc::presence::PresenceState, ["online" => rc::presence::PresenceState::Online, "offline" => rc::presence::PresenceState::Offline, "unavailable" => rc::presence::PresenceState::Unavailable]),
        eq!("push::PushFormat", rc::push::PushFormat, ["event_id_only" => rc::push::PushFormat::EventIdOnly]),
        ord!("push::RuleKind", rc::push::RuleKind, Derived, ["override" => rc::push::RuleKind::Override, "underride" => rc::push::RuleKind::Underride, "sender" => rc::push::RuleKind::Sender, "room" => rc::push::RuleKind::Room, "content" => rc::push::RuleKind::Content]),
        eq!("space::SpaceRoomJoinRule", rc::space::SpaceRoomJoinRule, ["invite" => rc::space::SpaceRoomJoinRule::Invite, "knock" => rc::space::SpaceRoomJoinRule::Knock, "private" => rc::space::SpaceRoomJoinRule::Private, "restricted" => rc::space::SpaceRoomJoinRule::Restricted, "knock_restricted" => rc::space::SpaceRoomJoinRule::KnockRestricted, "public" => rc::space::SpaceRoomJoinRule::Public]),
        ord!("media::Method", rc::media::Method, ByString, ["crop" => rc::media::Method::Crop, "scale" => rc::media::Method::Scale]),
        eq!("room::RoomType", rc::room::RoomType, ["m.space" => rc::room::RoomType::Space]),
        ord!("push::PredefinedOverrideRuleId", rc::push::PredefinedOverrideRuleId, Derived, [".m.rule.master" => rc::push::PredefinedOverrideRuleId::Master, ".m.rule.suppress_notices" => rc::push::PredefinedOverrideRuleId::SuppressNotices, ".m.rule.invite_for_me" => rc::push::PredefinedOverrideRuleId::InviteForMe, ".m.rule.member_event" => rc::push::PredefinedOverrideRuleId::MemberEvent, ".m.rule.is_user_mention" => rc::push::PredefinedOverrideRuleId::IsUserMention, ".m.rule.is_room_mention" => rc::push::PredefinedOverrideRuleId::IsRoomMention, ".m.rule.tombstone" => rc::push::PredefinedOverrideRuleId::Tombstone, ".m.rule.reaction" => rc::push::PredefinedOverrideRuleId::Reaction, ".m.rule.room.server_acl" => rc::push::PredefinedOverrideRuleId::RoomServerAcl, ".m.rule.suppress_edits" => rc::push::PredefinedOverrideRuleId::SuppressEdits]),
        ord!("push::PredefinedUnderrideRuleId", rc::push::PredefinedUnderrideRuleId, Derived, [".m.rule.call" => rc::push::PredefinedUnderrideRuleId::Call, ".m.rule.encrypted_room_one_to_one" => rc::push::PredefinedUnderrideRuleId::EncryptedRoomOneToOne, ".m.rule.room_one_to_one" => rc::push::PredefinedUnderrideRuleId::RoomOneToOne, ".m.rule.message" => rc::push::PredefinedUnderrideRuleId::Message, ".m.rule.encrypted" => rc::push::PredefinedUnderrideRuleId::Encrypted]),
        ord!("DeviceKeyAlgorithm", rc::DeviceKeyAlgorithm, Derived, ["ed25519" => rc::DeviceKeyAlgorithm::Ed25519, "curve25519" => rc::DeviceKeyAlgorithm::Curve25519]),
        ord!("SigningKeyAlgorithm", rc::SigningKeyAlgorithm, Derived, ["ed25519" => rc::SigningKeyAlgorithm::Ed25519]),
        ord!("EventEncryptionAlgorithm", rc::EventEncryptionAlgorithm, Derived, ["m.olm.v1.curve25519-aes-sha2" => rc::EventEncryptionAlgorithm::OlmV1Curve25519AesSha2, "m.megolm.v1.aes-sha2" => rc::EventEncryptionAlgorithm::MegolmV1AesSha2]),
        ord!("KeyDerivationAlgorithm", rc::KeyDerivationAlgorithm, Derived, ["m.pbkdf2" => rc::KeyDerivationAlgorithm::Pbkfd2]),
        ord!("OneTimeKeyAlgorithm", rc::OneTimeKeyAlgorithm, Derived, ["signed_curve25519" => rc::OneTimeKeyAlgorithm::SignedCurve25519]),
        // --- ruma-events -------------------------------------------------------------------
        eq!("room_key_request::Action", ev::room_key_request::Action, ["request" => ev::room_key_request::Action::Request, "request_cancellation" => ev::room_key_request::Action::CancelRequest]),
        ord!("receipt::ReceiptType", ev::receipt::ReceiptType, ByString, ["m.read" => ev::receipt::ReceiptType::Read, "m.read.private" => ev::receipt::ReceiptType::ReadPrivate]),
        eq!("relation::RelationType", ev::relation::RelationType, ["m.annotation" => ev::relation::RelationType::Annotation, "m.replace" => ev::relation::RelationType::Replacement, "m.thread" => ev::relation::RelationType::Thread, "m.reference" => ev::relation::RelationType::Reference]),
        eq!("room::message::MessageFormat", ev::room::message::MessageFormat, ["org.matrix.custom.html" => ev::room::message::MessageFormat::Html]),
        eq!("room::guest_access::GuestAccess", ev::room::guest_access::GuestAccess, ["can_join" => ev::room::guest_access::GuestAccess::CanJoin, "forbidden" => ev::room::guest_access::GuestAccess::Forbidden]),
        eq!("room::history_visibility::HistoryVisibility", ev::room::history_visibility::HistoryVisibility, ["invited" => ev::room::history_visibility::HistoryVisibility::Invited, "joined" => ev::room::history_visibility::HistoryVisibility::Joined, "shared" => ev::room::history_visibility::HistoryVisibility::Shared, "world_readable" => ev::room::history_visibility::HistoryVisibility::WorldReadable]),
        eq!("room::member::MembershipState", ev::room::member::MembershipState, ["ban" => ev::room::member::MembershipState::Ban, "invite" => ev::room::member::MembershipState::Invite, "join" => ev::room::member::MembershipState::Join, "knock" => ev::room::member::MembershipState::Knock, "leave" => ev::room::member::MembershipState::Leave]),
        eq!("room::message::ServerNoticeType", ev::room::message::ServerNoticeType, ["m.server_notice.usage_limit_reached" => ev::room::message::ServerNoticeType::UsageLimitReached]),
        eq!("room::message::LimitType", ev::room::message::LimitType, ["monthly_active_user" => ev::room::message::LimitType::MonthlyActiveUser]),
        eq!("key::verification::HashAlgorithm", ev::key::verification::HashAlgorithm, ["sha256" => ev::key::verification::HashAlgorithm::Sha256]),
        eq!("key::verification::KeyAgreementProtocol", ev::key::verification::KeyAgreementProtocol, ["curve25519" => ev::key::verification::KeyAgreementProtocol::Curve25519, "curve25519-hkdf-sha256" => ev::key::verification::KeyAgreementProtocol::Curve25519HkdfSha256]),
        eq!("key::verification::MessageAuthenticationCode", ev::key::verification::MessageAuthenticationCode, ["hkdf-hmac-sha256.v2" => ev::key::verification::MessageAuthenticationCode::HkdfHmacSha256V2]),
        eq!("key::verification::ShortAuthenticationString", ev::key::verification::ShortAuthenticationString, ["decimal" => ev::key::verification::ShortAuthenticationString::Decimal, "emoji" => ev::key::verification::ShortAuthenticationString::Emoji]),
        eq!("key::verification::VerificationMethod", ev::key::verification::VerificationMethod, ["m.sas.v1" => ev::key::verification::VerificationMethod::SasV1, "m.qr_code.scan.v1" => ev::key::verification::VerificationMethod::QrCodeScanV1, "m.qr_code.show.v1" => ev::key::verification::VerificationMethod::QrCodeShowV1, "m.reciprocate.v1" => ev::key::verification::VerificationMethod::ReciprocateV1]),
        eq!("key::verification::cancel::CancelCode", ev::key::verification::cancel::CancelCode, ["m.user" => ev::key::verification::cancel::CancelCode::User, "m.timeout" => ev::key::verification::cancel::CancelCode::Timeout, "m.unknown_transaction" => ev::key::verification::cancel::CancelCode::UnknownTransaction, "m.unknown_method" => ev::key::verification::cancel::CancelCode::UnknownMethod, "m.unexpected_message" => ev::key::verification::cancel::CancelCode::UnexpectedMessage, "m.key_mismatch" => ev::key::verification::cancel::CancelCode::KeyMismatch, "m.user_mismatch" => ev::key::verification::cancel::CancelCode::UserMismatch, "m.invalid_message" => ev::key::verification::cancel::CancelCode::InvalidMessage, "m.accepted" => ev::key::verification::cancel::CancelCode::Accepted, "m.mismatched_commitment" => ev::key::verification::cancel::CancelCode::MismatchedCommitment, "m.mismatched_sas" => ev::key::verification::cancel::CancelCode::MismatchedSas]),
        eq!("policy::rule::Recommendation", ev::policy::rule::Recommendation, ["m.ban" => ev::policy::rule::Recommendation::Ban]),
        ord!("secret::request::SecretName", ev::secret::request::SecretName, Derived, ["m.cross_signing.master" => ev::secret::request::SecretName::CrossSigningMasterKey, "m.cross_signing.user_signing" => ev::secret::request::SecretName::CrossSigningUserSigningKey, "m.cross_signing.self_signing" => ev::secret::request::SecretName::CrossSigningSelfSigningKey, "m.megolm_backup.v1" => ev::secret::request::SecretName::RecoveryKey]),
        eq!("call::hangup::Reason", ev::call::hangup::Reason, ["ice_failed" => ev::call::hangup::Reason::IceFailed, "invite_timeout" => ev::call::hangup::Reason::InviteTimeout, "ice_timeout" => ev::call::hangup::Reason::IceTimeout, "user_hangup" => ev::call::hangup::Reason::UserHangup, "user_media_failed" => ev::call::hangup::Reason::UserMediaFailed, "user_busy" => ev::call::hangup::Reason::UserBusy, "unknown_error" => ev::call::hangup::Reason::UnknownError]),
        eq!("call::StreamPurpose", ev::call::StreamPurpose, ["m.usermedia" => ev::call::StreamPurpose::UserMedia, "m.screenshare" => ev::call::StreamPurpose::ScreenShare]),
        // --- ruma-state-res ----------------------------------------------------------------
        eq!("state_res::JoinRule", ruma_state_res::events::JoinRule, ["public" => ruma_state_res::events::JoinRule::Public, "invite" => ruma_state_res::events::JoinRule::Invite, "knock" => ruma_state_res::events::JoinRule::Knock, "restricted" => ruma_state_res::events::JoinRule::Restricted, "knock_restricted" => ruma_state_res::events::JoinRule::KnockRestricted]),
        // --- API crates ----------------------------------------------------------------------
        eq!("client::filter::EventFormat", c::filter::EventFormat, ["client" => c::filter::EventFormat::Client, "federation" => c::filter::EventFormat::Federation]),
        noeq!("client::account::ThirdPartyIdRemovalStatus", c::account::ThirdPartyIdRemovalStatus, ["no-support" => c::account::ThirdPartyIdRemovalStatus::NoSupport, "success" => c::account::ThirdPartyIdRemovalStatus::Success]),
        ord!("client::uiaa::AuthType", c::uiaa::AuthType, Derived, ["m.login.password" => c::uiaa::AuthType::Password, "m.login.recaptcha" => c::uiaa::AuthType::ReCaptcha, "m.login.email.identity" => c::uiaa::AuthType::EmailIdentity, "m.login.msisdn" => c::uiaa::AuthType::Msisdn, "m.login.sso" => c::uiaa::AuthType::Sso, "m.login.dummy" => c::uiaa::AuthType::Dummy, "m.login.registration_token" => c::uiaa::AuthType::RegistrationToken, "m.login.terms" => c::uiaa::AuthType::Terms]),
        eq!("client::room::Visibility", c::room::Visibility, ["public" => c::room::Visibility::Public, "private" => c::room::Visibility::Private]),
        eq!("client::room::create_room::RoomPreset", c::room::create_room::v3::RoomPreset, ["private_chat" => c::room::create_room::v3::RoomPreset::PrivateChat, "public_chat" => c::room::create_room::v3::RoomPreset::PublicChat, "trusted_private_chat" => c::room::create_room::v3::RoomPreset::TrustedPrivateChat]),
        ord!("client::receipt::create_receipt::ReceiptType", c::receipt::create_receipt::v3::ReceiptType, ByString, ["m.read" => c::receipt::create_receipt::v3::ReceiptType::Read, "m.read.private" => c::receipt::create_receipt::v3::ReceiptType::ReadPrivate, "m.fully_read" => c::receipt::create_receipt::v3::ReceiptType::FullyRead]),
        ord!("client::discovery::ContactRole", c::discovery::discover_support::ContactRole, Derived, ["m.role.admin" => c::discovery::discover_support::ContactRole::Admin, "m.role.security" => c::discovery::discover_support::ContactRole::Security]),
        eq!("client::discovery::RoomVersionStability", c::discovery::get_capabilities::RoomVersionStability, ["stable" => c::discovery::get_capabilities::RoomVersionStability::Stable, "unstable" => c::discovery::get_capabilities::RoomVersionStability::Unstable]),
        eq!("client::membership::MembershipEventFilter", c::membership::get_member_events::v3::MembershipEventFilter, ["join" => c::membership::get_member_events::v3::MembershipEventFilter::Join, "invite" => c::membership::get_member_events::v3::MembershipEventFilter::Invite, "leave" => c::membership::get_member_events::v3::MembershipEventFilter::Leave, "ban" => c::membership::get_member_events::v3::MembershipEventFilter::Ban]),
        ord!("client::search::GroupingKey", c::search::search_events::v3::GroupingKey, Derived, ["room_id" => c::search::search_events::v3::GroupingKey::RoomId, "sender" => c::search::search_events::v3::GroupingKey::Sender]),
        ord!("client::threads::IncludeThreads", c::threads::get_threads::v1::IncludeThreads, Derived, ["all" => c::threads::get_threads::v1::IncludeThreads::All, "participated" => c::threads::get_threads::v1::IncludeThreads::Participated]),
        eq!("client::keys::FailureErrorCode", c::keys::upload_signatures::v3::FailureErrorCode, ["M_INVALID_SIGNATURE" => c::keys::upload_signatures::v3::FailureErrorCode::InvalidSignature]),
        noeq!("client::error::ErrorCode", c::error::ErrorCode, ["M_FORBIDDEN" => c::error::ErrorCode::Forbidden, "M_UNKNOWN_TOKEN" => c::error::ErrorCode::UnknownToken, "M_MISSING_TOKEN" => c::error::ErrorCode::MissingToken, "M_BAD_JSON" => c::error::ErrorCode::BadJson, "M_NOT_JSON" => c::error::ErrorCode::NotJson, "M_NOT_FOUND" => c::error::ErrorCode::NotFound, "M_LIMIT_EXCEEDED" => c::error::ErrorCode::LimitExceeded, "M_UNRECOGNIZED" => c::error::ErrorCode::Unrecognized, "M_UNKNOWN" => c::error::ErrorCode::Unknown, "M_UNAUTHORIZED" => c::error::ErrorCode::Unauthorized, "M_USER_DEACTIVATED" => c::error::ErrorCode::UserDeactivated, "M_USER_IN_USE" => c::error::ErrorCode::UserInUse, "M_INVALID_USERNAME" => c::error::ErrorCode::InvalidUsername, "M_ROOM_IN_USE" => c::error::ErrorCode::RoomInUse, "M_INVALID_ROOM_STATE" => c::error::ErrorCode::InvalidRoomState, "M_THREEPID_IN_USE" => c::error::ErrorCode::ThreepidInUse, "M_THREEPID_NOT_FOUND" => c::error::ErrorCode::ThreepidNotFound, "M_THREEPID_AUTH_FAILED" => c::error::ErrorCode::ThreepidAuthFailed, "M_THREEPID_DENIED" => c::error::ErrorCode::ThreepidDenied, "M_SERVER_NOT_TRUSTED" => c::error::ErrorCode::ServerNotTrusted, "M_UNSUPPORTED_ROOM_VERSION" => c::error::ErrorCode::UnsupportedRoomVersion, "M_INCOMPATIBLE_ROOM_VERSION" => c::error::ErrorCode::IncompatibleRoomVersion, "M_BAD_STATE" => c::error::ErrorCode::BadState, "M_GUEST_ACCESS_FORBIDDEN" => c::error::ErrorCode::GuestAccessForbidden, "M_CAPTCHA_NEEDED" => c::error::ErrorCode::CaptchaNeeded, "M_CAPTCHA_INVALID" => c::error::ErrorCode::CaptchaInvalid, "M_MISSING_PARAM" => c::error::ErrorCode::MissingParam, "M_INVALID_PARAM" => c::error::ErrorCode::InvalidParam, "M_TOO_LARGE" => c::error::ErrorCode::TooLarge, "M_EXCLUSIVE" => c::error::ErrorCode::Exclusive, "M_RESOURCE_LIMIT_EXCEEDED" => c::error::ErrorCode::ResourceLimitExceeded, "M_CANNOT_LEAVE_SERVER_NOTICE_ROOM" => c::error::ErrorCode::CannotLeaveServerNoticeRoom, "M_WEAK_PASSWORD" => c::error::ErrorCode::WeakPassword, "M_UNABLE_TO_AUTHORISE_JOIN" => c::error::ErrorCode::UnableToAuthorizeJoin, "M_UNABLE_TO_GRANT_JOIN" => c::error::ErrorCode::UnableToGrantJoin, "M_BAD_ALIAS" => c::error::ErrorCode::BadAlias, "M_DUPLICATE_ANNOTATION" => c::error::ErrorCode::DuplicateAnnotation, "M_NOT_YET_UPLOADED" => c::error::ErrorCode::NotYetUploaded, "M_CANNOT_OVERWRITE_MEDIA" => c::error::ErrorCode::CannotOverwriteMedia, "M_URL_NOT_SET" => c::error::ErrorCode::UrlNotSet, "M_WRONG_ROOM_KEYS_VERSION" => c::error::ErrorCode::WrongRoomKeysVersion]),
        eq!("federation::query::ProfileField", ruma_federation_api::query::get_profile_information::v1::ProfileField, ["displayname" => ruma_federation_api::query::get_profile_information::v1::ProfileField::DisplayName, "avatar_url" => ruma_federation_api::query::get_profile_information::v1::ProfileField::AvatarUrl]),
        eq!("identity::IdentifierHashingAlgorithm", ruma_identity_service_api::lookup::IdentifierHashingAlgorithm, ["sha256" => ruma_identity_service_api::lookup::IdentifierHashingAlgorithm::Sha256, "none" => ruma_identity_service_api::lookup::IdentifierHashingAlgorithm::None]),
        eq!("push_gateway::NotificationPriority", ruma_push_gateway_api::send_event_notification::v1::NotificationPriority, ["high" => ruma_push_gateway_api::send_event_notification::v1::NotificationPriority::High, "low" => ruma_push_gateway_api::send_event_notification::v1::NotificationPriority::Low]),
    ];
    // --- event type enums -----------------------------------------------------------------------
    let mut tl = ord!("TimelineEventType", ev::TimelineEventType, Derived, [
        "m.room.message" => ev::TimelineEventType::RoomMessage, "m.room.member" => ev::TimelineEventType::RoomMember, "m.room.create" => ev::TimelineEventType::RoomCreate,
        "m.room.power_levels" => ev::TimelineEventType::RoomPowerLevels, "m.room.join_rules" => ev::TimelineEventType::RoomJoinRules, "m.room.topic" => ev::TimelineEventType::RoomTopic,
        "m.room.name" => ev::TimelineEventType::RoomName, "m.room.redaction" => ev::TimelineEventType::RoomRedaction, "m.room.encrypted" => ev::TimelineEventType::RoomEncrypted,
        "m.room.aliases" => ev::TimelineEventType::RoomAliases, "m.room.third_party_invite" => ev::TimelineEventType::RoomThirdPartyInvite, "m.room.history_visibility" => ev::TimelineEventType::RoomHistoryVisibility,
        "m.room.guest_access" => ev::TimelineEventType::RoomGuestAccess, "m.room.canonical_alias" => ev::TimelineEventType::RoomCanonicalAlias, "m.room.avatar" => ev::TimelineEventType::RoomAvatar,
        "m.room.pinned_events" => ev::TimelineEventType::RoomPinnedEvents, "m.room.server_acl" => ev::TimelineEventType::RoomServerAcl, "m.room.tombstone" => ev::TimelineEventType::RoomTombstone,
        "m.room.encryption" => ev::TimelineEventType::RoomEncryption, "m.space.child" => ev::TimelineEventType::SpaceChild, "m.space.parent" => ev::TimelineEventType::SpaceParent,
        "m.reaction" => ev::TimelineEventType::Reaction, "m.sticker" => ev::TimelineEventType::Sticker, "m.call.invite" => ev::TimelineEventType::CallInvite, "m.call.answer" => ev::TimelineEventType::CallAnswer,
        "m.call.hangup" => ev::TimelineEventType::CallHangup, "m.call.candidates" => ev::TimelineEventType::CallCandidates, "m.call.sdp_stream_metadata_changed" => ev::TimelineEventType::CallSdpStreamMetadataChanged,
        "m.key.verification.start" => ev::TimelineEventType::KeyVerificationStart, "m.key.verification.done" => ev::TimelineEventType::KeyVerificationDone, "m.policy.rule.user" => ev::TimelineEventType::PolicyRuleUser,
    ]);
    tl.aliases = vec![("org.matrix.call.sdp_stream_metadata_changed", "m.call.sdp_stream_metadata_changed")];
    v.push(tl);
    v.push(ord!("StateEventType", ev::StateEventType, Derived, [
        "m.room.member" => ev::StateEventType::RoomMember, "m.room.create" => ev::StateEventType::RoomCreate, "m.room.power_levels" => ev::StateEventType::RoomPowerLevels,
        "m.room.join_rules" => ev::StateEventType::RoomJoinRules, "m.room.topic" => ev::StateEventType::RoomTopic, "m.room.name" => ev::StateEventType::RoomName,
        "m.room.aliases" => ev::StateEventType::RoomAliases, "m.room.third_party_invite" => ev::StateEventType::RoomThirdPartyInvite, "m.room.history_visibility" => ev::StateEventType::RoomHistoryVisibility,
        "m.space.child" => ev::StateEventType::SpaceChild, "m.policy.rule.room" => ev::StateEventType::PolicyRuleRoom, "m.policy.rule.server" => ev::StateEventType::PolicyRuleServer,
    ]));
    let mut ml = ord!("MessageLikeEventType", ev::MessageLikeEventType, Derived, [
        "m.room.message" => ev::MessageLikeEventType::RoomMessage, "m.room.redaction" => ev::MessageLikeEventType::RoomRedaction, "m.room.encrypted" => ev::MessageLikeEventType::RoomEncrypted,
        "m.reaction" => ev::MessageLikeEventType::Reaction, "m.sticker" => ev::MessageLikeEventType::Sticker, "m.call.invite" => ev::MessageLikeEventType::CallInvite,
        "m.call.negotiate" => ev::MessageLikeEventType::CallNegotiate, "m.call.reject" => ev::MessageLikeEventType::CallReject, "m.call.select_answer" => ev::MessageLikeEventType::CallSelectAnswer,
        "m.call.sdp_stream_metadata_changed" => ev::MessageLikeEventType::CallSdpStreamMetadataChanged,
        "m.key.verification.ready" => ev::MessageLikeEventType::KeyVerificationReady, "m.key.verification.cancel" => ev::MessageLikeEventType::KeyVerificationCancel, "m.key.verification.accept" => ev::MessageLikeEventType::KeyVerificationAccept,
        "m.key.verification.key" => ev::MessageLikeEventType::KeyVerificationKey, "m.key.verification.mac" => ev::MessageLikeEventType::KeyVerificationMac,
    ]);
    ml.aliases = vec![("org.matrix.call.sdp_stream_metadata_changed", "m.call.sdp_stream_metadata_changed")];
    v.push(ml);
    let mut ga = ord!("GlobalAccountDataEventType", ev::GlobalAccountDataEventType, Derived, [
        "m.direct" => ev::GlobalAccountDataEventType::Direct, "m.identity_server" => ev::GlobalAccountDataEventType::IdentityServer, "m.ignored_user_list" => ev::GlobalAccountDataEventType::IgnoredUserList,
        "m.push_rules" => ev::GlobalAccountDataEventType::PushRules, "m.secret_storage.default_key" => ev::GlobalAccountDataEventType::SecretStorageDefaultKey,
    ]);
    ga.wildcard_prefixes = vec!["m.secret_storage.key."];
    v.push(ga);
    v.push(ord!("RoomAccountDataEventType", ev::RoomAccountDataEventType, Derived, ["m.fully_read" => ev::RoomAccountDataEventType::FullyRead, "m.tag" => ev::RoomAccountDataEventType::Tag, "m.marked_unread" => ev::RoomAccountDataEventType::MarkedUnread]));
    v.push(ord!("EphemeralRoomEventType", ev::EphemeralRoomEventType, Derived, ["m.receipt" => ev::EphemeralRoomEventType::Receipt, "m.typing" => ev::EphemeralRoomEventType::Typing]));
    v.push(ord!("ToDeviceEventType", ev::ToDeviceEventType, Derived, [
        "m.dummy" => ev::ToDeviceEventType::Dummy, "m.room_key" => ev::ToDeviceEventType::RoomKey, "m.room_key_request" => ev::ToDeviceEventType::RoomKeyRequest, "m.forwarded_room_key" => ev::ToDeviceEventType::ForwardedRoomKey,
        "m.key.verification.request" => ev::ToDeviceEventType::KeyVerificationRequest, "m.room.encrypted" => ev::ToDeviceEventType::RoomEncrypted, "m.secret.request" => ev::ToDeviceEventType::SecretRequest, "m.secret.send" => ev::ToDeviceEventType::SecretSend,
    ]));
    v
}

#[derive(Serialize, Deserialize, Debug, Clone)]
pub struct EnumCase {
    pub ty: String,
    pub a: String,
    pub b: String,
    pub c: String,
}

fn near_miss(s: &str, how: u8, pos: u16) -> String {
    let chars: Vec<char> = s.chars().collect();
    let i = pick_idx(pos, chars.len().max(1));
    match how % 11 {
        9 => format!("{s}{s}"),
        10 => format!("{}{s}", chars.iter().take(i).collect::<String>()),
        0 => s.to_uppercase(),
        1 => {
            let mut c = chars.clone();
            if !c.is_empty() {
                c[i] = if c[i].is_uppercase() { c[i].to_ascii_lowercase() } else { c[i].to_ascii_uppercase() };
            }
            c.into_iter().collect()
        }
        2 => {
            let mut c = chars.clone();
            if !c.is_empty() {
                c.remove(i);
            }
            c.into_iter().collect()
        }
        3 => {
            let mut c = chars.clone();
            c.insert(i.min(c.len()), '_');
            c.into_iter().collect()
        }
        4 => format!("{s} "),
        5 => format!(" {s}"),
        6 => format!("{s}.x"),
        7 => chars.iter().take(i).collect(),
        _ => format!("x.{s}"),
    }
}

pub fn run(ck: &mut Check) {
    ck.rule(
        "For each listed string enum (ruma-common, ruma-events incl. the seven event-type enums, ruma-state-res, the API crates; spellings and their dedicated variants hand-written from the specification): every specified spelling, near misses (case flips, one-character edits, prefix/suffix, surrounding whitespace), declared aliases, wildcard prefixes with arbitrary suffixes, random Unicode strings. \
         Oracle: from(s).form() == s (alias -> canonical spelling), specified spelling -> its dedicated variant and nothing else does, idempotence, Display / JSON (de)serialisation agree with the string form, == agrees with the string form, Ord is a total order consistent with == (and equals string order for the types whose ordering is defined as such). \
         Non-trivial = a string within one edit of a specified spelling but not equal to one, an alias, or a wildcard with non-empty suffix.",
    );
    ck.assume("16 enums and the event-type enums use std's derived (declaration) order: only total-order consistency is asserted; pairs where it differs from string order are reported as a class");
    ck.assume("unstable-feature variants are not compiled (no unstable cargo feature in the harness), so the only alias present is org.matrix.call.sdp_stream_metadata_changed");
    let all = std::sync::Arc::new(specs());
    ck.extra("enum_types", serde_json::json!(all.len()));
    ck.extra("specified_spellings", serde_json::json!(all.iter().map(|s| s.spellings.len()).sum::<usize>()));
    let oracle = {
        let all = all.clone();
        move |c: &EnumCase, cx: &mut CaseCtx| -> Result<(), String> {
            let spec = all.iter().find(|s| s.name == c.ty).ok_or("harness: unknown enum type")?;
            let is_spelling = |s: &str| spec.spellings.contains(&s);
            let alias = spec.aliases.iter().any(|(a, _)| *a == c.a || *a == c.b);
            let wild = spec.wildcard_prefixes.iter().any(|p| c.a.strip_prefix(p).is_some_and(|x| !x.is_empty()));
            cx.class_if(is_spelling(&c.a), "specified_spelling");
            cx.class_if(alias, "alias");
            cx.class_if(wild, "wildcard_with_suffix");
            cx.class_if(!is_spelling(&c.a) && !alias, "unknown_value");
            cx.nontrivial_if(!is_spelling(&c.a) || alias || wild);
            (spec.run)(spec, &c.a, &c.b, &c.c, cx)
        }
    };
    // G2: every specified spelling (and alias) of every type, paired with every other spelling
    {
        let all2 = all.clone();
        let mut cases = vec![];
        for s in all2.iter() {
            let mut names: Vec<String> = s.spellings.iter().map(|x| (*x).to_owned()).collect();
            names.extend(s.aliases.iter().map(|(a, _)| (*a).to_owned()));
            for a in &names {
                for b in &names {
                    cases.push(EnumCase { ty: s.name.into(), a: a.clone(), b: b.clone(), c: names[0].clone() });
                }
            }
        }
        let cases = std::sync::Arc::new(cases);
        ck.exhaustive(
            "all_specified_spellings_pairwise",
            true,
            move |sh, n| {
                let cases = cases.clone();
                (0..cases.len()).skip(sh as usize).step_by(n as usize).map(move |i| cases[i].clone())
            },
            oracle.clone(),
        );
    }
    // G3: wildcard types with structured suffixes: every spelling of the same enum, the prefix itself repeated,
    // near misses of the prefix, and combinations (suffixes a real key id could legitimately be).
    {
        let mut cases = vec![];
        for s in all.iter() {
            for p in &s.wildcard_prefixes {
                let mut suffixes: Vec<String> = vec!["".into(), ".".into(), "a".into(), " ".into(), "*".into(), (*p).into(), format!("{p}{p}"), format!("{p}a"), format!("a{p}"), p.trim_end_matches('.').into()];
                suffixes.extend(s.spellings.iter().map(|x| (*x).to_owned()));
                for how in 0..11u8 {
                    for pos in [0u16, 20000, 40000, 65535] {
                        suffixes.push(near_miss(p, how, pos));
                    }
                }
                let texts: Vec<String> = suffixes.iter().map(|x| format!("{p}{x}")).collect();
                for (i, a) in texts.iter().enumerate() {
                    let b = &texts[(i * 7 + 3) % texts.len()];
                    cases.push(EnumCase { ty: s.name.into(), a: a.clone(), b: b.clone(), c: suffixes[i].clone() });
                    cases.push(EnumCase { ty: s.name.into(), a: a.clone(), b: suffixes[i].clone(), c: b.clone() });
                }
            }
        }
        let cases = std::sync::Arc::new(cases);
        ck.exhaustive(
            "wildcard_structured_suffixes",
            true,
            move |sh, n| {
                let cases = cases.clone();
                (0..cases.len()).skip(sh as usize).step_by(n as usize).map(move |i| cases[i].clone())
            },
            oracle.clone(),
        );
    }
    let n = ck.n(1_000_000, 20_000_000);
    let all3 = all.clone();
    ck.prop(
        "near_misses_and_random",
        n,
        move || {
            let all3 = all3.clone();
            let one = move |all: std::sync::Arc<Vec<EnumSpec>>| {
                (any::<u16>(), any::<u16>(), any::<u8>(), any::<u16>(), "\\PC{0,10}", 0u8..10).prop_map(move |(t, sp, how, pos, rnd, kind)| {
                    let spec = &all[pick_idx(t, all.len())];
                    let base = spec.spellings[pick_idx(sp, spec.spellings.len())];
                    let s = match kind {
                        0 | 1 => base.to_owned(),
                        2..=5 => near_miss(base, how, pos),
                        6 => match spec.wildcard_prefixes.first() {
                            Some(p) => match how % 6 {
                                0 | 1 => format!("{p}{rnd}"),
                                2 => format!("{p}{p}{rnd}"),
                                3 => format!("{p}{p}{p}"),
                                4 => format!("{p}{base}"),
                                _ => format!("{p}{}{rnd}", near_miss(p, how / 6, pos)),
                            },
                            None => near_miss(&near_miss(base, how, pos), how / 9, pos / 3),
                        },
                        7 => spec.aliases.first().map(|a| a.0.to_owned()).unwrap_or_else(|| rnd.clone()),
                        _ => rnd,
                    };
                    (t, s)
                })
            };
            (one(all3.clone()), one(all3.clone()), one(all3.clone())).prop_map({
                let all3 = all3.clone();
                move |((t, a), (_, b), (_, c))| EnumCase { ty: all3[pick_idx(t, all3.len())].name.into(), a, b, c }
            })
        },
        oracle,
    );
    for cls in ["specified_spelling", "unknown_value", "alias", "wildcard_with_suffix"] {
        ck.floor("near_misses_and_random", cls, 200);
    }
    // RoomVersionId: the one *validated* string enum (its grammar is C10's business); for the strings it
    // accepts the same laws hold, and its ordering is documented as the ordering of the string forms.
    let n = ck.n(300_000, 4_000_000);
    ck.prop(
        "room_version_ids",
        n,
        || {
            let one = || prop_oneof![
                3 => (1u32..14).prop_map(|n| n.to_string()),
                2 => "[0-9]{1,4}",
                2 => "[0-9]{1,2}[a-z.-]{0,2}",
                1 => "[A-Za-z0-9.-]{1,32}",
                1 => "\\PC{0,4}",
            ];
            (one(), one(), one()).prop_map(|(a, b, c)| EnumCase { ty: "RoomVersionId".into(), a, b, c })
        },
        room_version_oracle,
    );
    ck.floor("room_version_ids", "numeric_ids_of_different_length", 5000);
    let n = ck.n(200_000, 2_000_000);
    ck.prop(
        "join_rule_object_form",
        n,
        || {
            let one = || prop_oneof![
                2 => (0usize..6).prop_map(|i| ["public", "invite", "knock", "private", "restricted", "knock_restricted"][i].to_owned()),
                3 => ((0usize..6), any::<u8>(), any::<u16>()).prop_map(|(i, how, pos)| near_miss(["public", "invite", "knock", "private", "restricted", "knock_restricted"][i], how, pos)),
                2 => "[a-z\"\\\\\n\t\u{0}\u{1f} .é\u{1F600}]{0,10}",
                1 => "\\PC{0,8}",
            ];
            (one(), one(), one()).prop_map(|(a, b, c)| EnumCase { ty: "events::JoinRule".into(), a, b, c })
        },
        join_rule_oracle,
    );
    ck.floor("join_rule_object_form", "value_needing_json_escape", 5000);
    ck.floor("join_rule_object_form", "specified_spelling", 5000);
    ck.floor("room_version_ids", "custom_version", 5000);
}

/// ruma-events' `JoinRule` is a string-valued enum embedded in the content object (`join_rule` tag,
/// `allow` list for the restricted rules); custom values are deserialise-only (`skip_serializing`).
fn join_rule_oracle(c: &EnumCase, cx: &mut CaseCtx) -> Result<(), String> {
    use ruma_events::room::join_rules::{JoinRule, RoomJoinRulesEventContent};
    const KNOWN: [&str; 6] = ["public", "invite", "knock", "private", "restricted", "knock_restricted"];
    for (i, s) in [&c.a, &c.b, &c.c].into_iter().enumerate() {
        let needs_escape = s.chars().any(|ch| ch == '"' || ch == '\\' || (ch as u32) < 0x20);
        cx.class_if(needs_escape, "value_needing_json_escape");
        cx.class_if(KNOWN.contains(&s.as_str()), "specified_spelling");
        cx.class_if(!KNOWN.contains(&s.as_str()), "unknown_value");
        cx.nontrivial_if(!KNOWN.contains(&s.as_str()));
        // the object as JSON text (serde_json escapes what must be escaped) and as a value; the third
        // string is additionally written with \\uXXXX escapes for every character
        let mut obj = serde_json::json!({"join_rule": s, "allow": []});
        if i == 1 {
            obj.as_object_mut().unwrap().remove("allow");
        }
        let mut texts = vec![serde_json::to_string(&obj).unwrap()];
        if i == 2 {
            let esc: String = s.encode_utf16().map(|u| format!("\\u{u:04x}")).collect();
            texts.push(format!("{{\"join_rule\":\"{esc}\"}}"));
        }
        for text in &texts {
            let r: JoinRule = serde_json::from_str(text).map_err(|e| format!("JoinRule rejects the value {s:?} (text {text}): {e}"))?;
            if r.as_str() != s {
                return Err(format!("JoinRule: {s:?} comes back as {:?}", r.as_str()));
            }
            let dedicated = !matches!(r, JoinRule::_Custom(_));
            if dedicated != KNOWN.contains(&s.as_str()) {
                return Err(format!("JoinRule: {s:?} maps to {r:?}"));
            }
            let content: RoomJoinRulesEventContent = serde_json::from_str(text).map_err(|e| format!("RoomJoinRulesEventContent rejects join_rule {s:?}: {e}"))?;
            if content.join_rule.as_str() != s {
                return Err(format!("RoomJoinRulesEventContent: join_rule {s:?} comes back as {:?}", content.join_rule.as_str()));
            }
            if dedicated {
                let back = serde_json::to_value(&r).map_err(|e| e.to_string())?;
                if back.get("join_rule").and_then(|x| x.as_str()) != Some(s.as_str()) {
                    return Err(format!("JoinRule {s:?} serialises as {back}"));
                }
            }
        }
        let via_value: JoinRule = serde_json::from_value(obj.clone()).map_err(|e| format!("JoinRule rejects the value {s:?} (from_value): {e}"))?;
        if via_value.as_str() != s {
            return Err(format!("JoinRule (from_value): {s:?} comes back as {:?}", via_value.as_str()));
        }
    }
    Ok(())
}

fn room_version_oracle(c: &EnumCase, cx: &mut CaseCtx) -> Result<(), String> {
    use ruma_common::RoomVersionId;
    let mut vals = vec![];
    for s in [&c.a, &c.b, &c.c] {
        let grammar_ok = !s.is_empty() && s.chars().count() <= 32 && s.chars().all(|ch| ch.is_ascii_alphanumeric() || ch == '.' || ch == '-');
        let v = match RoomVersionId::try_from(s.as_str()) {
            Ok(v) => v,
            Err(_) if !grammar_ok => continue,
            Err(e) => return Err(format!("RoomVersionId rejects {s:?}: {e}")),
        };
        if !grammar_ok {
            return Err(format!("RoomVersionId accepts {s:?}"));
        }
        if v.as_str() != s || v.to_string() != *s || AsRef::<str>::as_ref(&v) != s {
            return Err(format!("RoomVersionId: converting {s:?} to the enum and back gives {:?}", v.as_str()));
        }
        let dedicated = s.parse::<u32>().is_ok_and(|n| (1..=11).contains(&n)) && !s.starts_with('0');
        if dedicated != v.rules().is_some() {
            return Err(format!("RoomVersionId {s:?}: dedicated variant expected = {dedicated}, rules() is {}", if v.rules().is_some() { "Some" } else { "None" }));
        }
        cx.class_if(!dedicated, "custom_version");
        let json = serde_json::to_string(&v).map_err(|e| e.to_string())?;
        if json != serde_json::to_string(s).unwrap() || serde_json::from_str::<RoomVersionId>(&json).ok().as_ref() != Some(&v) {
            return Err(format!("RoomVersionId {s:?}: JSON form {json} disagrees with the string form"));
        }
        vals.push((s.clone(), v));
    }
    cx.nontrivial_if(vals.len() >= 2);
    let numeric = |s: &str| s.chars().all(|ch| ch.is_ascii_digit());
    for (sa, va) in &vals {
        for (sb, vb) in &vals {
            cx.class_if(numeric(sa) && numeric(sb) && sa.len() != sb.len(), "numeric_ids_of_different_length");
            if (va == vb) != (sa == sb) {
                return Err(format!("RoomVersionId: {sa:?} == {sb:?} is {} but the string forms say {}", va == vb, sa == sb));
            }
            if va.cmp(vb) != sa.cmp(sb) || va.partial_cmp(vb) != Some(sa.cmp(sb)) {
                return Err(format!("RoomVersionId: ordering of {sa:?} and {sb:?} is {:?} but their string forms compare {:?}", va.cmp(vb), sa.cmp(sb)));
            }
        }
    }
    Ok(())
}

mod forms {
    use super::Form;
    use ruma_client_api as c;
    use ruma_common as rc;
    use ruma_events as ev;
    form_asref!(rc::encryption::KeyUsage, rc::authentication::TokenType, rc::thirdparty::Medium, rc::directory::PublicRoomJoinRule, rc::presence::PresenceState, rc::push::PushFormat, rc::push::RuleKind, rc::space::SpaceRoomJoinRule, rc::media::Method, rc::room::RoomType, rc::push::PredefinedOverrideRuleId, rc::push::PredefinedUnderrideRuleId, rc::DeviceKeyAlgorithm, rc::SigningKeyAlgorithm, rc::EventEncryptionAlgorithm, rc::KeyDerivationAlgorithm, rc::OneTimeKeyAlgorithm, ev::room_key_request::Action, ev::receipt::ReceiptType, ev::relation::RelationType, ev::room::message::MessageFormat, ev::room::guest_access::GuestAccess, ev::room::history_visibility::HistoryVisibility, ev::room::member::MembershipState, ev::room::message::ServerNoticeType, ev::room::message::LimitType, ev::key::verification::HashAlgorithm, ev::key::verification::KeyAgreementProtocol, ev::key::verification::MessageAuthenticationCode, ev::key::verification::ShortAuthenticationString, ev::key::verification::VerificationMethod, ev::key::verification::cancel::CancelCode, ev::policy::rule::Recommendation, ev::secret::request::SecretName, ev::call::hangup::Reason, ev::call::StreamPurpose, ruma_state_res::events::JoinRule, c::filter::EventFormat, c::account::ThirdPartyIdRemovalStatus, c::uiaa::AuthType, c::room::Visibility, c::room::create_room::v3::RoomPreset, c::receipt::create_receipt::v3::ReceiptType, c::discovery::discover_support::ContactRole, c::discovery::get_capabilities::RoomVersionStability, c::membership::get_member_events::v3::MembershipEventFilter, c::search::search_events::v3::GroupingKey, c::threads::get_threads::v1::IncludeThreads, c::keys::upload_signatures::v3::FailureErrorCode, c::error::ErrorCode, ruma_federation_api::query::get_profile_information::v1::ProfileField, ruma_identity_service_api::lookup::IdentifierHashingAlgorithm, ruma_push_gateway_api::send_event_notification::v1::NotificationPriority);
    form_display!(ev::TimelineEventType, ev::StateEventType, ev::MessageLikeEventType, ev::GlobalAccountDataEventType, ev::RoomAccountDataEventType, ev::EphemeralRoomEventType, ev::ToDeviceEventType);
}
