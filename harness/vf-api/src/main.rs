//! Checks on the API crates: C16 (endpoints over the HTTP wire format) and C19 (string enums).
use vf_engine::Check;

mod c16;
mod c19;
mod endpoints_gen;

fn main() {
    let args: Vec<String> = std::env::args().skip(1).collect();
    let id = args.first().cloned().unwrap_or_default();
    let mut ck = Check::from_env(&id, &args[1.min(args.len())..]);
    match id.as_str() {
        "C16" => c16::run(&mut ck),
        "C19" => c19::run(&mut ck),
        _ => {
            eprintln!("vf-api: unknown property {id}");
            std::process::exit(2);
        }
    }
    ck.finish()
}
