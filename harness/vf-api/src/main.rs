fn main() {}
