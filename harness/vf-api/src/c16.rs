//! C16 Endpoint requests and responses survive the HTTP wire format unchanged.

use std::collections::BTreeMap;

use proptest::prelude::*;
use ruma_common::{
    api::{AuthScheme, IncomingRequest, IncomingResponse, MatrixVersion, Metadata, OutgoingRequest, OutgoingResponse, SendAccessToken},
    serde::Base64,
    OwnedRoomAliasId, OwnedServerName, OwnedServerSigningKeyId, OwnedUserId,
};
use ruma_federation_api::authentication::XMatrix;
use serde::{Deserialize, Serialize};
use serde_json::json;
use vf_engine::{CaseCtx, Check};

use crate::endpoints_gen::all_metadata;

pub const ALL_VERSIONS: [MatrixVersion; 15] = [
    MatrixVersion::V1_0, MatrixVersion::V1_1, MatrixVersion::V1_2, MatrixVersion::V1_3, MatrixVersion::V1_4, MatrixVersion::V1_5, MatrixVersion::V1_6, MatrixVersion::V1_7, MatrixVersion::V1_8,
    MatrixVersion::V1_9, MatrixVersion::V1_10, MatrixVersion::V1_11, MatrixVersion::V1_12, MatrixVersion::V1_13, MatrixVersion::V1_14,
];

// ---------------------------------------------------------------------------------------------
// (c) version -> path selection

#[derive(Serialize, Deserialize, Debug, Clone)]
pub struct SelCase {
    /// endpoint index into the scanned list
    pub endpoint: usize,
    /// bit i set = ALL_VERSIONS[i] supported
    pub versions: u16,
}

/// Reference: removed by all supported versions -> error; else the newest stable path whose
/// version some supported version reaches; else the last unstable path, or an error.
fn ref_select(m: &Metadata, versions: &[MatrixVersion]) -> Result<&'static str, &'static str> {
    if let Some(removed) = m.history.removed_in() {
        if versions.iter().all(|v| *v >= removed) {
            return Err("removed");
        }
    }
    let mut best: Option<(MatrixVersion, &'static str)> = None;
    for (ver, path) in m.history.stable_paths() {
        if versions.iter().any(|v| *v >= ver) && best.is_none_or(|b| ver > b.0) {
            best = Some((ver, path));
        }
    }
    if let Some((_, p)) = best {
        return Ok(p);
    }
    m.history.unstable_paths().last().ok_or("no unstable path")
}

fn versions_of(bits: u16) -> Vec<MatrixVersion> {
    ALL_VERSIONS.iter().enumerate().filter(|(i, _)| bits >> i & 1 == 1).map(|(_, v)| *v).collect()
}

fn sel_oracle_with(list: &[(&'static str, Metadata)], c: &SelCase, cx: &mut CaseCtx) -> Result<(), String> {
    let (name, m) = &list[c.endpoint.min(list.len() - 1)];
    let versions = versions_of(c.versions);
    let nargs = m.history.all_paths().next().map(|p| p.split('/').filter(|s| s.starts_with(':')).count()).unwrap_or(0);
    let args: Vec<String> = (0..nargs).map(|i| format!("arg{i}")).collect();
    let dyn_args: Vec<&dyn std::fmt::Display> = args.iter().map(|a| a as &dyn std::fmt::Display).collect();
    let want = ref_select(m, &versions).map(|p| {
        let mut i = 0;
        let segs: Vec<String> = p
            .split('/')
            .map(|s| {
                if s.starts_with(':') {
                    i += 1;
                    format!("arg{}", i - 1)
                } else {
                    s.to_owned()
                }
            })
            .collect();
        format!("https://hs.example{}", segs.join("/"))
    });
    let stable = m.history.stable_paths().count();
    cx.class_if(stable >= 2, "ge_2_stable_paths");
    cx.class_if(m.history.removed_in().is_some(), "removed_endpoint");
    cx.class_if(m.history.deprecated_in().is_some(), "deprecated_endpoint");
    cx.class_if(want.is_err(), "selection_error");
    cx.nontrivial_if(stable >= 2 || m.history.deprecated_in().is_some());
    // the supported versions are a set: the slice's order and repetitions must not matter
    let mut orders: Vec<Vec<MatrixVersion>> = vec![versions.clone()];
    if versions.len() >= 2 {
        let mut d = versions.clone();
        d.reverse();
        orders.push(d);
        let mut r = versions.clone();
        let k = 1 + (c.versions as usize).wrapping_mul(2654435761) % (versions.len() - 1).max(1);
        r.rotate_left(k % versions.len());
        r.swap(0, (c.versions as usize / 7) % versions.len());
        orders.push(r);
        let mut dup = versions.clone();
        dup.push(versions[0]);
        dup.insert(0, versions[versions.len() - 1]);
        orders.push(dup);
        cx.class("unsorted_and_repeated_version_lists");
        cx.more_evals(3);
    }
    for versions in &orders {
        let got = m.make_endpoint_url(versions, "https://hs.example/", &dyn_args, "");
        match (&got, &want) {
            (Ok(g), Ok(w)) if g == w => {}
            (Err(_), Err(_)) => {}
            _ => return Err(format!("{name}: with supported versions {versions:?} the endpoint URL is {:?}, the metadata prescribes {:?} (stable paths {:?}, unstable {:?}, deprecated {:?}, removed {:?})", got.as_ref().map_err(|e| e.to_string()), want, m.history.stable_paths().collect::<Vec<_>>(), m.history.unstable_paths().collect::<Vec<_>>(), m.history.deprecated_in(), m.history.removed_in())),
        }
    }
    Ok(())
}

#[derive(Serialize, Deserialize, Debug, Clone)]
pub struct CdCase {
    /// 0 inline, 1 attachment, 2 a custom token, 3 attachment
    pub ty: u8,
    pub filename: Option<String>,
    /// also send it as the header field of a real media response
    pub via_response: bool,
}

fn cd_oracle(c: &CdCase, cx: &mut CaseCtx) -> Result<(), String> {
    use ruma_common::http_headers::{ContentDisposition, ContentDispositionType};
    let ty = match c.ty % 4 {
        0 => ContentDispositionType::Inline,
        2 => ContentDispositionType::parse("form-data").map_err(|e| e.to_string())?,
        _ => ContentDispositionType::Attachment,
    };
    let cd = ContentDisposition::new(ty).with_filename(c.filename.clone());
    let text = cd.to_string();
    let f = c.filename.as_deref().unwrap_or("");
    cx.class_if(f.contains('\\') || f.contains('"'), "filename_with_backslash_or_quote");
    cx.class_if(f.ends_with('\\'), "filename_ends_with_backslash");
    cx.class_if(!f.is_ascii(), "filename_non_ascii");
    cx.nontrivial_if(f.contains('\\') || f.contains('"') || !f.is_ascii() || f.contains(';') || f.is_empty());
    // what the encoder produces must be a legal header value, else the value is "not accepted"
    if http::HeaderValue::from_str(&text).is_err() {
        cx.class("not_accepted_by_encoder");
        return Ok(());
    }
    let back = ContentDisposition::try_from(text.as_bytes()).map_err(|e| format!("Content-Disposition {cd:?} is written as {text:?} which does not parse back: {e}"))?;
    if back != cd {
        return Err(format!("Content-Disposition {cd:?} is written as {text:?} and read back as {back:?}"));
    }
    if back.to_string() != text {
        return Err(format!("re-encoding the received Content-Disposition gives {:?} instead of {text:?}", back.to_string()));
    }
    if c.via_response {
        use ruma_client_api::authenticated_media::get_content::v1::Response;
        let resp = Response::new(b"file".to_vec(), "text/plain".to_owned(), cd.clone());
        if let Some(r2) = response_roundtrip(resp, cx)? {
            if r2.content_disposition.as_ref() != Some(&cd) {
                return Err(format!("media response: Content-Disposition {cd:?} arrives as {:?}", r2.content_disposition));
            }
        }
    }
    Ok(())
}

/// Authentication header per scheme x token kind.
fn auth_oracle(list: &[(&'static str, Metadata)], cx: &mut CaseCtx) -> Result<(), String> {
    for (name, m) in list {
        for (tk, token) in [("if_required", SendAccessToken::IfRequired("tok")), ("always", SendAccessToken::Always("tok")), ("appservice", SendAccessToken::Appservice("tok")), ("none", SendAccessToken::None)] {
            let want: Result<bool, ()> = match (m.authentication, tk) {
                (AuthScheme::None, "always") => Ok(true),
                (AuthScheme::None, _) => Ok(false),
                (AuthScheme::AccessToken, "none") => Err(()),
                (AuthScheme::AccessToken, _) => Ok(true),
                (AuthScheme::AccessTokenOptional, "none") => Ok(false),
                (AuthScheme::AccessTokenOptional, _) => Ok(true),
                (AuthScheme::AppserviceToken, "appservice" | "always") => Ok(true),
                (AuthScheme::AppserviceToken, _) => Err(()),
                (AuthScheme::AppserviceTokenOptional, "appservice" | "always") => Ok(true),
                (AuthScheme::AppserviceTokenOptional, _) => Ok(false),
                (AuthScheme::ServerSignatures, _) => Ok(false),
            };
            let got = m.authorization_header(token);
            cx.more_evals(1);
            let ok = match (&got, &want) {
                (Ok(Some((n, v))), Ok(true)) => n == http::header::AUTHORIZATION && v.to_str().ok() == Some("Bearer tok"),
                (Ok(None), Ok(false)) => true,
                (Err(_), Err(())) => true,
                _ => false,
            };
            if !ok {
                return Err(format!("{name}: authentication {:?} with token mode {tk}: header {:?}, expected {:?}", m.authentication, got.map(|h| h.map(|x| x.1)), want));
            }
        }
    }
    Ok(())
}

/// Version histories no scanned endpoint may have at the moment (removal, several unstable paths,
/// no unstable path, deprecation right after stabilisation), declared with the public macro.
use ruma_common::metadata;
const SYNTH_H0: Metadata = metadata! {
            method: GET,
            rate_limited: false,
            authentication: None,
            history: {
                unstable => "/_matrix/synth/unstable/h/:a",
                1.1 => "/_matrix/synth/r0/h/:a",
                1.3 => "/_matrix/synth/v3/h/:a",
                1.5 => deprecated,
                1.8 => removed,
            }
        };
const SYNTH_H1: Metadata = metadata! {
            method: GET,
            rate_limited: false,
            authentication: None,
            history: {
                1.0 => "/_matrix/synth/r0/d/:a/:b",
                1.2 => deprecated,
            }
        };
const SYNTH_H2: Metadata = metadata! {
            method: POST,
            rate_limited: false,
            authentication: AccessToken,
            history: {
                unstable => "/_matrix/synth/unstable/x.first/t",
                unstable => "/_matrix/synth/unstable/x.second/t",
                1.4 => "/_matrix/synth/v1/t",
                1.9 => "/_matrix/synth/v2/t",
                1.14 => "/_matrix/synth/v3/t",
            }
        };
const SYNTH_H3: Metadata = metadata! {
            method: GET,
            rate_limited: false,
            authentication: None,
            history: {
                1.0 => "/_matrix/synth/r0/q",
                1.1 => deprecated,
                1.2 => removed,
            }
        };
const SYNTH_H4: Metadata = metadata! {
            method: GET,
            rate_limited: false,
            authentication: None,
            history: {
                unstable => "/_matrix/synth/unstable/only",
            }
        };

fn synthetic_histories() -> Vec<(&'static str, Metadata)> {
    vec![
        ("synthetic::removed", SYNTH_H0),
        ("synthetic::deprecated_only", SYNTH_H1),
        ("synthetic::two_unstable_three_stable", SYNTH_H2),
        ("synthetic::removed_without_unstable", SYNTH_H3),
        ("synthetic::unstable_only", SYNTH_H4),
    ]
}

// ---------------------------------------------------------------------------------------------
// routing helpers

fn pct_decode(s: &str) -> Option<String> {
    let b = s.as_bytes();
    let mut out = Vec::with_capacity(b.len());
    let mut i = 0;
    while i < b.len() {
        if b[i] == b'%' {
            let h = |c: u8| (c as char).to_digit(16);
            match (b.get(i + 1).copied().and_then(h), b.get(i + 2).copied().and_then(h)) {
                (Some(a), Some(c)) => {
                    out.push((a * 16 + c) as u8);
                    i += 3;
                }
                _ => return None,
            }
            continue;
        }
        out.push(b[i]);
        i += 1;
    }
    String::from_utf8(out).ok()
}

/// Match a request path against the endpoint's path templates; returns the decoded placeholders.
pub fn route(m: &Metadata, path: &str) -> Option<Vec<String>> {
    let segs: Vec<&str> = path.split('/').collect();
    'tpl: for tpl in m.history.all_paths() {
        let t: Vec<&str> = tpl.split('/').collect();
        if t.len() != segs.len() {
            continue;
        }
        let mut args = vec![];
        for (a, b) in t.iter().zip(segs.iter()) {
            if a.starts_with(':') {
                match pct_decode(b) {
                    Some(d) => args.push(d),
                    None => continue 'tpl,
                }
            } else if a != b {
                continue 'tpl;
            }
        }
        return Some(args);
    }
    None
}

fn http_eq(a: &http::Request<Vec<u8>>, b: &http::Request<Vec<u8>>) -> Result<(), String> {
    if a.method() != b.method() {
        return Err(format!("method {} vs {}", a.method(), b.method()));
    }
    if a.uri() != b.uri() {
        return Err(format!("URI {} vs {}", a.uri(), b.uri()));
    }
    let h = |r: &http::Request<Vec<u8>>| r.headers().iter().map(|(k, v)| (k.as_str().to_owned(), v.as_bytes().to_vec())).collect::<BTreeMap<_, _>>();
    if h(a) != h(b) {
        return Err(format!("headers {:?} vs {:?}", a.headers(), b.headers()));
    }
    if a.body() != b.body() {
        return Err(format!("body {:?} vs {:?}", String::from_utf8_lossy(a.body()), String::from_utf8_lossy(b.body())));
    }
    Ok(())
}

/// request -> HTTP -> (route) -> request' -> HTTP: identical message; returns (req', http).
pub fn request_roundtrip<R>(req: R, versions: &[MatrixVersion], cx: &mut CaseCtx) -> Result<Option<(R, http::Request<Vec<u8>>)>, String>
where
    R: OutgoingRequest + IncomingRequest + std::fmt::Debug,
{
    let m = <R as OutgoingRequest>::METADATA;
    let http1 = match req.clone().try_into_http_request::<Vec<u8>>("https://hs.example", SendAccessToken::IfRequired("tok"), versions) {
        Ok(h) => h,
        Err(_) => {
            cx.class("not_accepted_by_encoder");
            return Ok(None);
        }
    };
    if http1.method() != m.method {
        return Err(format!("request method {} differs from METADATA.method {}", http1.method(), m.method));
    }
    let has_auth = http1.headers().get(http::header::AUTHORIZATION).is_some();
    let want_auth = matches!(m.authentication, AuthScheme::AccessToken | AuthScheme::AccessTokenOptional);
    if has_auth != want_auth {
        return Err(format!("Authorization header present = {has_auth}, metadata authentication {:?}", m.authentication));
    }
    let path = http1.uri().path().to_owned();
    let args = route(&m, &path).ok_or_else(|| format!("the encoded path {path:?} does not match any path of the endpoint's metadata (after percent-decoding)"))?;
    let req2 = R::try_from_http_request(http1.clone(), &args).map_err(|e| format!("the receiving side rejects the encoded request: {e}; uri {} body {:?}; original {req:?}", http1.uri(), String::from_utf8_lossy(http1.body())))?;
    let http2 = req2.clone().try_into_http_request::<Vec<u8>>("https://hs.example", SendAccessToken::IfRequired("tok"), versions).map_err(|e| format!("re-encoding the received request failed: {e}"))?;
    http_eq(&http1, &http2).map_err(|e| format!("re-encoding the received request gives a different HTTP message: {e}; original {req:?}, received {req2:?}"))?;
    // the JSON body written differently (key order, escaped spellings, whitespace) is the same message
    if let Some((body3, value)) = respelled_body(http1.headers(), http1.body()) {
        let mut b = http::Request::builder().method(http1.method().clone()).uri(http1.uri().clone());
        for (k, v) in http1.headers() {
            b = b.header(k, v);
        }
        let http3 = b.body(body3.clone()).map_err(|e| e.to_string())?;
        let req3 = R::try_from_http_request(http3, &args).map_err(|e| format!("the receiving side rejects the request when its JSON body is spelled differently: {e}; body {:?} (sent as {:?})", String::from_utf8_lossy(&body3), String::from_utf8_lossy(http1.body())))?;
        let http4 = req3.try_into_http_request::<Vec<u8>>("https://hs.example", SendAccessToken::IfRequired("tok"), versions).map_err(|e| format!("re-encoding failed: {e}"))?;
        let again: Option<serde_json::Value> = serde_json::from_slice(http4.body()).ok();
        if http4.uri() != http1.uri() || again.as_ref() != Some(&value) {
            return Err(format!("the received request depends on how the JSON body is spelled: body {:?} decodes to a request that re-encodes as {:?}, sent {:?}", String::from_utf8_lossy(&body3), String::from_utf8_lossy(http4.body()), String::from_utf8_lossy(http1.body())));
        }
        cx.class("json_body_respelled");
    }
    Ok(Some((req2, http1)))
}

/// For a JSON body: the same value as different text, plus the value.
fn respelled_body(headers: &http::HeaderMap, body: &[u8]) -> Option<(Vec<u8>, serde_json::Value)> {
    let is_json = headers.get(http::header::CONTENT_TYPE).is_some_and(|v| v.as_bytes().starts_with(b"application/json"));
    if !is_json || body.is_empty() {
        return None;
    }
    let value: serde_json::Value = serde_json::from_slice(body).ok()?;
    if !value.is_object() && !value.is_array() {
        return None;
    }
    let h = vf_engine::fnv(body);
    let text = vf_ref::respell::respell(&value, (h >> 8) as u8, (h % 15) as u8 + 1, &mut 0);
    // only when serde_json agrees that it is the same value (numbers are kept as written)
    (serde_json::from_str::<serde_json::Value>(&text).ok().as_ref() == Some(&value)).then(|| (text.into_bytes(), value))
}

pub fn response_roundtrip<R>(resp: R, cx: &mut CaseCtx) -> Result<Option<R>, String>
where
    R: OutgoingResponse + IncomingResponse + Clone + std::fmt::Debug,
{
    let http1 = match resp.clone().try_into_http_response::<Vec<u8>>() {
        Ok(h) => h,
        Err(_) => {
            cx.class("not_accepted_by_encoder");
            return Ok(None);
        }
    };
    let (parts, body) = http1.into_parts();
    let rebuilt = |b: Vec<u8>| {
        let mut r = http::Response::builder().status(parts.status);
        for (k, v) in parts.headers.iter() {
            r = r.header(k, v);
        }
        r.body(b).unwrap()
    };
    let resp2 = R::try_from_http_response(rebuilt(body.clone())).map_err(|e| format!("the receiving side rejects the encoded response: {e}; body {:?}; original {resp:?}", String::from_utf8_lossy(&body)))?;
    let http2 = resp2.clone().try_into_http_response::<Vec<u8>>().map_err(|e| format!("re-encoding the received response failed: {e}"))?;
    let h = |r: &http::HeaderMap| r.iter().map(|(k, v)| (k.as_str().to_owned(), v.as_bytes().to_vec())).collect::<BTreeMap<_, _>>();
    if http2.status() != parts.status || h(http2.headers()) != h(&parts.headers) || *http2.body() != body {
        return Err(format!("re-encoding the received response gives a different HTTP message; original {resp:?}, received {resp2:?}"));
    }
    if let Some((body3, value)) = respelled_body(&parts.headers, &body) {
        let resp3 = R::try_from_http_response(rebuilt(body3.clone())).map_err(|e| format!("the receiving side rejects the response when its JSON body is spelled differently: {e}; body {:?}", String::from_utf8_lossy(&body3)))?;
        let http4 = resp3.try_into_http_response::<Vec<u8>>().map_err(|e| format!("re-encoding failed: {e}"))?;
        if serde_json::from_slice::<serde_json::Value>(http4.body()).ok().as_ref() != Some(&value) {
            return Err(format!("the received response depends on how the JSON body is spelled: {:?} re-encodes as {:?}", String::from_utf8_lossy(&body3), String::from_utf8_lossy(http4.body())));
        }
        cx.class("json_body_respelled");
    }
    Ok(Some(resp2))
}

// ---------------------------------------------------------------------------------------------
// (a) synthetic endpoints, one per field-attribute kind

pub mod synth_path_query {
    use http::header::{ETAG, IF_MATCH, IF_NONE_MATCH};
    use ruma_common::{
        api::{request, response, Metadata},
        metadata, OwnedRoomAliasId, OwnedUserId,
    };
    const METADATA: Metadata = metadata! {
        method: GET,
        rate_limited: false,
        authentication: AccessToken,
        history: {
            unstable => "/_matrix/synth/unstable/pq/:s/:user/:alias/:kind",
            1.1 => "/_matrix/synth/v1/pq/:s/:user/:alias/:kind",
            1.5 => "/_matrix/synth/v2/pq/:s/:user/:alias/:kind",
        }
    };
    #[request]
    pub struct Request {
        #[ruma_api(path)]
        pub s: String,
        #[ruma_api(path)]
        pub user: OwnedUserId,
        #[ruma_api(path)]
        pub alias: OwnedRoomAliasId,
        #[ruma_api(path)]
        pub kind: ruma_common::push::RuleKind,
        #[ruma_api(query)]
        pub q: String,
        #[ruma_api(query)]
        #[serde(skip_serializing_if = "Option::is_none")]
        pub opt: Option<String>,
        #[ruma_api(query)]
        #[serde(default, skip_serializing_if = "Vec::is_empty")]
        pub list: Vec<String>,
        #[ruma_api(query)]
        pub num: u32,
        #[ruma_api(query)]
        pub flag: bool,
        #[ruma_api(header = IF_MATCH)]
        pub required_header: String,
        #[ruma_api(header = IF_NONE_MATCH)]
        pub optional_header: Option<String>,
    }
    #[response]
    pub struct Response {
        pub text: String,
        #[serde(skip_serializing_if = "Option::is_none")]
        pub maybe: Option<String>,
        #[serde(default, skip_serializing_if = "Vec::is_empty")]
        pub numbers: Vec<i32>,
        #[ruma_api(header = ETAG)]
        pub etag: Option<String>,
    }
}

pub mod synth_body {
    use ruma_common::{
        api::{request, response, Metadata},
        metadata,
    };
    use serde::{Deserialize, Serialize};
    const METADATA: Metadata = metadata! {
        method: POST,
        rate_limited: false,
        authentication: None,
        history: {
            1.0 => "/_matrix/synth/v1/body/:id",
        }
    };
    #[derive(Clone, Debug, Default, Serialize, Deserialize, PartialEq)]
    pub struct Nested {
        pub a: String,
        #[serde(skip_serializing_if = "Option::is_none")]
        pub b: Option<i64>,
    }
    #[request]
    pub struct Request {
        #[ruma_api(path)]
        pub id: String,
        pub text: String,
        #[serde(skip_serializing_if = "Option::is_none")]
        pub maybe: Option<String>,
        #[serde(default, skip_serializing_if = "Vec::is_empty")]
        pub list: Vec<u32>,
        pub nested: Nested,
    }
    #[response]
    pub struct Response {
        #[ruma_api(body)]
        pub whole: Nested,
    }
}

/// Responses whose success status is not 200: every status the macro lets an endpoint declare must
/// be accepted by the receiving side (2xx and 3xx are success; >= 400 is the error path).
pub mod synth_status {
    use http::header::LOCATION;
    use ruma_common::{
        api::{request, response, Metadata},
        metadata,
    };
    const METADATA: Metadata = metadata! {
        method: POST,
        rate_limited: false,
        authentication: None,
        history: {
            1.0 => "/_matrix/synth/v1/status",
        }
    };
    #[request]
    pub struct Request {}
    #[response(status = FOUND)]
    pub struct Response {
        #[ruma_api(header = LOCATION)]
        pub location: String,
        #[ruma_api(body)]
        pub whole: super::synth_body::Nested,
    }
    pub mod created {
        use ruma_common::{
            api::{request, response, Metadata},
            metadata,
        };
        const METADATA: Metadata = metadata! {
            method: PUT,
            rate_limited: false,
            authentication: None,
            history: {
                1.0 => "/_matrix/synth/v1/status/created",
            }
        };
        #[request]
        pub struct Request {}
        #[response(status = CREATED)]
        pub struct Response {
            pub text: String,
        }
    }
    pub mod see_other {
        use ruma_common::{
            api::{request, response, Metadata},
            metadata,
        };
        const METADATA: Metadata = metadata! {
            method: PUT,
            rate_limited: false,
            authentication: None,
            history: {
                1.0 => "/_matrix/synth/v1/status/see_other",
            }
        };
        #[request]
        pub struct Request {}
        #[response(status = SEE_OTHER)]
        pub struct Response {
            pub text: String,
        }
    }
}

pub mod synth_newtype_raw {
    use http::header::CONTENT_TYPE;
    use ruma_common::{
        api::{request, response, Metadata},
        metadata,
    };
    const METADATA: Metadata = metadata! {
        method: PUT,
        rate_limited: false,
        authentication: AccessTokenOptional,
        history: {
            unstable => "/_matrix/synth/unstable/raw/:name",
            1.3 => "/_matrix/synth/v3/raw/:name",
        }
    };
    #[request]
    pub struct Request {
        #[ruma_api(path)]
        pub name: String,
        #[ruma_api(query)]
        #[serde(skip_serializing_if = "Option::is_none")]
        pub filename: Option<String>,
        #[ruma_api(header = CONTENT_TYPE)]
        pub content_type: Option<String>,
        #[ruma_api(raw_body)]
        pub file: Vec<u8>,
    }
    #[response]
    pub struct Response {
        #[ruma_api(raw_body)]
        pub file: Vec<u8>,
        #[ruma_api(header = CONTENT_TYPE)]
        pub content_type: Option<String>,
    }
}

pub mod synth_query_all {
    use std::collections::BTreeMap;

    use ruma_common::{
        api::{request, response, Metadata},
        metadata,
    };
    const METADATA: Metadata = metadata! {
        method: GET,
        rate_limited: false,
        authentication: None,
        history: {
            1.0 => "/_matrix/synth/v1/qa",
        }
    };
    #[request]
    pub struct Request {
        #[ruma_api(query_all)]
        pub fields: BTreeMap<String, String>,
    }
    #[response]
    pub struct Response {}
}

#[derive(Serialize, Deserialize, Debug, Clone)]
pub struct SynthCase {
    pub which: u8,
    pub strs: Vec<String>,
    pub opts: Vec<Option<String>>,
    pub list: Vec<String>,
    pub nums: Vec<u32>,
    pub flag: bool,
    pub bytes: Vec<u8>,
    pub map: BTreeMap<String, String>,
    pub user: String,
    pub alias: String,
    pub versions: u16,
}

fn reserved(s: &str) -> bool {
    s.chars().any(|c| "/%?#+&=;, \"\\".contains(c) || !c.is_ascii())
}

fn synth_oracle(c: &SynthCase, cx: &mut CaseCtx) -> Result<(), String> {
    // header field values of this case (fields 2 of strs, 1 of opts)
    let header_values = [c.strs.get(2).cloned(), c.opts.get(1).cloned().flatten()];
    let non_ascii_header = header_values.iter().flatten().any(|v| !v.is_ascii());
    match synth_oracle_inner(c, cx) {
        Err(e) if non_ascii_header && (e.contains("failed to convert header to a str") || e.contains("changed on the wire")) => {
            // known: the encoder accepts non-ASCII header values (http::HeaderValue::from_str allows
            // opaque bytes >= 0x80) which the decoder (HeaderValue::to_str, visible ASCII only) refuses
            if cx.known_finding("non_ascii_header_value", json!({"header_values": header_values, "error": e.chars().take(200).collect::<String>()})) {
                Ok(())
            } else {
                Err(e)
            }
        }
        r => r,
    }
}

fn synth_oracle_inner(c: &SynthCase, cx: &mut CaseCtx) -> Result<(), String> {
    let g = |i: usize| c.strs.get(i).cloned().unwrap_or_default();
    let o = |i: usize| c.opts.get(i).cloned().flatten();
    let n = |i: usize| c.nums.get(i).copied().unwrap_or(0);
    let versions = versions_of(c.versions | 1);
    let nt = c.strs.iter().any(|s| reserved(s)) || c.list.len() != 1 || c.opts.iter().any(|o| o.is_none());
    cx.class_if(c.strs.iter().any(|s| reserved(s)), "reserved_char_in_field");
    cx.class_if(c.strs.iter().any(|s| s.contains('%')), "percent_in_field");
    cx.class_if(c.list.is_empty(), "empty_multi_valued_query");
    cx.class_if(c.list.len() >= 2, "multi_valued_query");
    cx.nontrivial_if(nt);
    match c.which % 4 {
        0 => {
            let (Ok(user), Ok(alias)) = (OwnedUserId::try_from(c.user.as_str()), OwnedRoomAliasId::try_from(c.alias.as_str())) else {
                cx.class("id_rejected_by_parser");
                return Ok(());
            };
            if g(0).is_empty() || (n(0) % 3 == 0 && g(3).is_empty()) {
                // an empty path segment cannot be routed; not a value the encoder's contract covers
                cx.class("empty_path_segment_excluded");
                return Ok(());
            }
            if o(0).as_deref() == Some("") {
                // form encoding cannot tell `opt=` (present, empty) from an absent optional value:
                // serde_html_form documents that it reads it as None. Excluded by construction.
                cx.class("empty_optional_query_value_excluded");
                return Ok(());
            }
            let req = synth_path_query::Request { s: g(0), user, alias, kind: ruma_common::push::RuleKind::from(if n(0) % 3 == 0 { g(3) } else { ["override", "content"][(n(0) % 2) as usize].to_owned() }.as_str()), q: g(1), opt: o(0), list: c.list.clone(), num: n(1), flag: c.flag, required_header: g(2), optional_header: o(1) };
            let want = format!("{req:?}");
            if let Some((req2, http)) = request_roundtrip(req, &versions, cx)? {
                if format!("{req2:?}") != want {
                    return Err(format!("request changed on the wire: sent {want}, received {req2:?}; uri {}", http.uri()));
                }
                cx.class("synthetic_request_roundtrip");
            }
            let resp = synth_path_query::Response { text: g(3), maybe: o(2), numbers: c.nums.iter().map(|x| *x as i32).collect(), etag: o(1) };
            let want = format!("{resp:?}");
            if let Some(r2) = response_roundtrip(resp, cx)? {
                if format!("{r2:?}") != want {
                    return Err(format!("response changed on the wire: sent {want}, received {r2:?}"));
                }
            }
        }
        1 => {
            if g(0).is_empty() {
                cx.class("empty_path_segment_excluded");
                return Ok(());
            }
            let nested = synth_body::Nested { a: g(1), b: c.nums.first().map(|x| *x as i64 - 1000) };
            let req = synth_body::Request { id: g(0), text: g(2), maybe: o(0), list: c.nums.clone(), nested: nested.clone() };
            let want = format!("{req:?}");
            if let Some((req2, http)) = request_roundtrip(req, &versions, cx)? {
                if format!("{req2:?}") != want {
                    return Err(format!("request changed on the wire: sent {want}, received {req2:?}; body {:?}", String::from_utf8_lossy(http.body())));
                }
                cx.class("synthetic_request_roundtrip");
            }
            let resp = synth_body::Response { whole: nested.clone() };
            let want = format!("{resp:?}");
            if let Some(r2) = response_roundtrip(resp, cx)? {
                if format!("{r2:?}") != want {
                    return Err(format!("response changed on the wire: sent {want}, received {r2:?}"));
                }
            }
            // declared non-200 success statuses
            let resp = synth_status::Response { location: g(2), whole: nested };
            let want = format!("{resp:?}");
            if let Some(r2) = response_roundtrip(resp, cx)? {
                if format!("{r2:?}") != want {
                    return Err(format!("302 response changed on the wire: sent {want}, received {r2:?}"));
                }
                cx.class("non_200_success_status");
            }
            for created in [true, false] {
                let want = g(1);
                let got = if created {
                    response_roundtrip(synth_status::created::Response { text: g(1) }, cx)?.map(|r| r.text)
                } else {
                    response_roundtrip(synth_status::see_other::Response { text: g(1) }, cx)?.map(|r| r.text)
                };
                if got.is_some_and(|t| t != want) {
                    return Err("201/303 response changed on the wire".into());
                }
            }
        }
        2 => {
            if g(0).is_empty() {
                cx.class("empty_path_segment_excluded");
                return Ok(());
            }
            if o(0).as_deref() == Some("") {
                cx.class("empty_optional_query_value_excluded");
                return Ok(());
            }
            let req = synth_newtype_raw::Request { name: g(0), filename: o(0), content_type: o(1), file: c.bytes.clone() };
            let want = format!("{req:?}");
            if let Some((req2, _)) = request_roundtrip(req.clone(), &versions, cx)? {
                if format!("{req2:?}") != want {
                    // known: an absent optional Content-Type header on a raw-body message comes
                    // back as Some("application/json") (the encoder's default header)
                    let with_default = synth_newtype_raw::Request { content_type: Some("application/json".into()), ..req };
                    if o(1).is_none() && format!("{req2:?}") == format!("{with_default:?}") && cx.known_finding("raw_body_content_type_defaults_to_json", json!({"sent": want, "received": format!("{req2:?}")})) {
                        return Ok(());
                    }
                    return Err(format!("request changed on the wire: sent {want}, received {req2:?}"));
                }
                cx.class("synthetic_request_roundtrip");
            }
            let resp = synth_newtype_raw::Response { file: c.bytes.clone(), content_type: o(1) };
            let want = format!("{resp:?}");
            if let Some(r2) = response_roundtrip(resp.clone(), cx)? {
                if format!("{r2:?}") != want {
                    let with_default = synth_newtype_raw::Response { content_type: Some("application/json".into()), ..resp };
                    if o(1).is_none() && format!("{r2:?}") == format!("{with_default:?}") && cx.known_finding("raw_body_content_type_defaults_to_json", json!({"sent": want, "received": format!("{r2:?}")})) {
                        return Ok(());
                    }
                    return Err(format!("response changed on the wire: sent {want}, received {r2:?}"));
                }
            }
        }
        _ => {
            let req = synth_query_all::Request { fields: c.map.clone() };
            let want = format!("{req:?}");
            if let Some((req2, http)) = request_roundtrip(req, &versions, cx)? {
                if format!("{req2:?}") != want {
                    return Err(format!("request changed on the wire: sent {want}, received {req2:?}; uri {}", http.uri()));
                }
                cx.class("synthetic_request_roundtrip");
            }
        }
    }
    Ok(())
}

fn field_string() -> impl Strategy<Value = String> {
    prop_oneof![
        3 => "[a-zA-Z0-9_.-]{0,10}",
        4 => "[a-z/%?#+&=;, \"\\\\é\u{1F600}]{1,8}",
        1 => "[a-z]{0,3}%[0-9A-Fa-f]{2}[a-z]{0,3}",
        1 => "\\PC{0,8}",
        1 => Just("..".to_owned()),
        1 => Just(".".to_owned()),
    ]
}

fn synth_case() -> impl Strategy<Value = SynthCase> {
    (
        0u8..4,
        prop::collection::vec(field_string(), 4),
        prop::collection::vec(prop::option::of(field_string()), 3),
        prop::collection::vec(field_string(), 0..4),
        prop::collection::vec(any::<u32>(), 0..3),
        any::<bool>(),
        prop::collection::vec(any::<u8>(), 0..40),
        prop::collection::btree_map(field_string(), field_string(), 0..4),
        (vf_ref::idgen::user_id(), "[!-9;-~]{1,8}"),
        (vf_ref::idgen::room_alias_id(), field_string()),
        any::<u16>(),
    )
        .prop_map(|(which, strs, opts, list, nums, flag, bytes, map, (uid, hostile_local), (alias, hostile_alias), versions)| {
            let user = if flag { uid } else { format!("@{hostile_local}:x.y") };
            let alias = if nums.len() % 2 == 0 { alias } else { format!("#{}:x.y", hostile_alias.replace(':', "").replace('\0', "")) };
            SynthCase { which, strs, opts, list, nums, flag, bytes, map, user, alias, versions }
        })
}

// ---------------------------------------------------------------------------------------------
// (b) real endpoints

#[derive(Serialize, Deserialize, Debug, Clone)]
pub struct RealCase {
    pub which: u8,
    pub room: String,
    pub user: String,
    pub event: String,
    pub alias: String,
    pub s1: String,
    pub s2: String,
    pub via: Vec<String>,
    pub n: u32,
}

fn real_oracle(c: &RealCase, cx: &mut CaseCtx) -> Result<(), String> {
    use ruma_client_api as capi;
    use ruma_common::{serde::Raw, OwnedEventId, OwnedRoomId, OwnedRoomOrAliasId, OwnedTransactionId};
    let v = [MatrixVersion::V1_1, MatrixVersion::V1_11];
    let (Ok(room), Ok(user), Ok(event)) = (OwnedRoomId::try_from(c.room.as_str()), OwnedUserId::try_from(c.user.as_str()), OwnedEventId::try_from(c.event.as_str())) else {
        cx.class("id_rejected_by_parser");
        return Ok(());
    };
    if c.room.len() <= 1 || c.event.len() <= 1 {
        cx.class("degenerate_empty_id_excluded");
        return Ok(());
    }
    cx.nontrivial_if(reserved(&c.room) || reserved(&c.event) || reserved(&c.s1) || reserved(&c.s2) || !c.via.is_empty());
    cx.class_if(reserved(&c.room) || reserved(&c.event) || reserved(&c.s1), "reserved_char_in_field");
    let content: Raw<ruma_events::AnyMessageLikeEventContent> = Raw::from_json(serde_json::value::to_raw_value(&json!({"msgtype": "m.text", "body": c.s2})).unwrap());
    match c.which % 13 {
        0 => {
            if c.s1.is_empty() {
                return Ok(());
            }
            let req = capi::message::send_message_event::v3::Request::new_raw(room, OwnedTransactionId::from(c.s1.as_str()), ruma_events::MessageLikeEventType::from("m.room.message"), content);
            request_roundtrip_eq(req, &v, cx)?;
            cx.class("real_client");
        }
        1 => {
            let state: Raw<ruma_events::AnyStateEventContent> = Raw::from_json(serde_json::value::to_raw_value(&json!({"topic": c.s2})).unwrap());
            let req = capi::state::send_state_event::v3::Request::new_raw(room, ruma_events::StateEventType::from("m.room.topic"), c.s1.clone(), state);
            request_roundtrip_eq(req, &v, cx)?;
            cx.class("real_client");
        }
        2 => {
            let req = capi::state::get_state_events_for_key::v3::Request::new(room, ruma_events::StateEventType::from(if c.n % 2 == 0 { "m.room.member" } else { "org.example.t" }), c.s1.clone());
            request_roundtrip_eq(req, &v, cx)?;
            cx.class("real_client");
        }
        3 => {
            let target: OwnedRoomOrAliasId = match (c.n % 2, OwnedRoomAliasId::try_from(c.alias.as_str())) {
                (0, Ok(a)) => a.into(),
                _ => room.into(),
            };
            let mut req = capi::membership::join_room_by_id_or_alias::v3::Request::new(target);
            req.via = c.via.iter().filter_map(|s| OwnedServerName::try_from(s.as_str()).ok()).collect();
            if !c.s2.is_empty() {
                req.reason = Some(c.s2.clone());
            }
            request_roundtrip_eq(req, &v, cx)?;
            cx.class("real_client");
        }
        4 => {
            let req = capi::room::get_room_event::v3::Request::new(room, event);
            request_roundtrip_eq(req, &v, cx)?;
            cx.class("real_client");
        }
        5 => {
            let req = ruma_federation_api::event::get_event::v1::Request::new(event);
            request_roundtrip_fed(req, &v, cx)?;
            cx.class("real_federation");
        }
        6 => {
            let req = ruma_appservice_api::query::query_user_id::v1::Request::new(user);
            request_roundtrip_any(req, &v, SendAccessToken::Appservice("tok"), cx)?;
            cx.class("real_appservice");
        }
        7 => {
            let req = capi::profile::get_display_name::v3::Request::new(user);
            request_roundtrip_eq(req, &v, cx)?;
            cx.class("real_client");
        }
        8 => {
            let req = capi::alias::get_alias::v3::Request::new(match OwnedRoomAliasId::try_from(c.alias.as_str()) {
                Ok(a) => a,
                Err(_) => return Ok(()),
            });
            request_roundtrip_eq(req, &v, cx)?;
            cx.class("real_client");
            // the SSO redirect: a real response with a declared 302 status and header fields
            let ascii = |s: &str| s.chars().filter(|ch| ch.is_ascii_graphic()).collect::<String>();
            let mut resp = capi::session::sso_login::v3::Response::new(format!("https://sso.example/{}", ascii(&c.s2)));
            resp.cookie = if c.n % 2 == 0 { Some(format!("k={}", ascii(&c.s1))) } else { None };
            let want = format!("{resp:?}");
            if let Some(r2) = response_roundtrip(resp, cx)? {
                if format!("{r2:?}") != want {
                    return Err(format!("sso_login response changed on the wire: sent {want}, received {r2:?}"));
                }
                cx.class("non_200_success_status");
            }
        }
        9 => {
            // client error as a response, incl. M_LIMIT_EXCEEDED with whole-second Retry-After
            use capi::error::{Error as CErr, ErrorBody, ErrorKind, RetryAfter};
            // every error kind that carries data of its own, with the data present and absent
            let kind = match c.n % 13 {
                0 => ErrorKind::LimitExceeded { retry_after: Some(RetryAfter::Delay(std::time::Duration::from_secs((c.n / 13 % 1000) as u64))) },
                1 => ErrorKind::LimitExceeded { retry_after: None },
                2 => ErrorKind::forbidden(),
                3 => ErrorKind::WrongRoomKeysVersion { current_version: Some(c.s1.clone()) },
                4 => ErrorKind::WrongRoomKeysVersion { current_version: None },
                5 => ErrorKind::BadStatus { status: Some(http::StatusCode::BAD_GATEWAY), body: Some(c.s1.clone()) },
                6 => ErrorKind::BadStatus { status: None, body: None },
                7 => ErrorKind::IncompatibleRoomVersion { room_version: ruma_common::RoomVersionId::V7 },
                8 => ErrorKind::ResourceLimitExceeded { admin_contact: c.s1.clone() },
                9 => ErrorKind::UnknownToken { soft_logout: true },
                10 => ErrorKind::UnknownToken { soft_logout: false },
                11 => ErrorKind::UserLocked,
                _ => ErrorKind::NotFound,
            };
            let err = CErr::new(http::StatusCode::from_u16([429u16, 403, 404, 400][(c.n % 4) as usize]).unwrap(), ErrorBody::Standard { kind, message: c.s2.clone() });
            let http1 = err.clone().try_into_http_response::<Vec<u8>>().map_err(|e| format!("error response encoding failed: {e}"))?;
            let (parts, body) = http1.into_parts();
            let mut b = http::Response::builder().status(parts.status);
            for (k, val) in parts.headers.iter() {
                b = b.header(k, val);
            }
            use ruma_common::api::EndpointError;
            let err2 = CErr::from_http_response(b.body(body.clone()).unwrap());
            let http2 = err2.clone().try_into_http_response::<Vec<u8>>().map_err(|e| format!("error response re-encoding failed: {e}"))?;
            if http2.status() != parts.status || *http2.body() != body || http2.headers().get(http::header::RETRY_AFTER) != parts.headers.get(http::header::RETRY_AFTER) {
                return Err(format!("client error response changed on the wire: sent {err:?}, received {err2:?}"));
            }
            // ... and re-encoding alike is not enough: the received error must say what the sent one said
            if format!("{:?}", err2.body) != format!("{:?}", err.body) {
                return Err(format!("client error response lost or changed data on the wire: sent {:?}, received {:?}; body {:?}", err.body, err2.body, String::from_utf8_lossy(&body)));
            }
            cx.class("real_error_response");
        }
        11 => {
            // media download requests: query fields with documented defaults (timeout 20 s, flags)
            // around their default values; the received request must equal the one sent
            let ms = [0u64, 1, 19_999, 20_000, 20_001, 20_500, 20_999, 21_000, 60_000, 120_000][(c.n / 4) as usize % 10];
            let server = user.server_name().to_owned();
            let media = "AbCdEf0123".to_owned();
            let mut req = capi::authenticated_media::get_content::v1::Request::new(media.clone(), server.clone());
            req.timeout_ms = std::time::Duration::from_millis(ms);
            let want = format!("{req:?}");
            if let Some((r2, _)) = request_roundtrip(req, &v, cx)? {
                if format!("{r2:?}") != want {
                    return Err(format!("the received media download request differs from the one sent: sent {want}, received {r2:?}"));
                }
            }
            let mut req = capi::authenticated_media::get_content_thumbnail::v1::Request::new(media.clone(), server.clone(), js_int::uint!(32), js_int::uint!(32));
            req.timeout_ms = std::time::Duration::from_millis(ms);
            req.animated = [None, Some(true), Some(false)][(c.n % 3) as usize];
            let want = format!("{req:?}");
            if let Some((r2, _)) = request_roundtrip(req, &v, cx)? {
                if format!("{r2:?}") != want {
                    return Err(format!("the received thumbnail request differs from the one sent: sent {want}, received {r2:?}"));
                }
            }
            let mut req = ruma_federation_api::authenticated_media::get_content::v1::Request::new(media);
            req.timeout_ms = std::time::Duration::from_millis(ms);
            request_roundtrip_fed(req.clone(), &v, cx)?;
            let http1 = ruma_common::api::OutgoingRequest::try_into_http_request::<Vec<u8>>(req.clone(), "https://hs.example", SendAccessToken::None, &v).map_err(|e| e.to_string())?;
            let r2 = <ruma_federation_api::authenticated_media::get_content::v1::Request as IncomingRequest>::try_from_http_request(http1, &["AbCdEf0123"]).map_err(|e| format!("federation media request rejected by the receiving side: {e}"))?;
            if format!("{r2:?}") != format!("{req:?}") {
                return Err(format!("the received federation media request differs from the one sent: sent {req:?}, received {r2:?}"));
            }
            cx.class("real_media_download_requests");
            cx.class_if((20_000..21_000).contains(&ms), "timeout_within_a_second_of_the_default");
        }
        _ => {
            use ruma_push_gateway_api::send_event_notification::v1 as pg;
            let mut notif = pg::Notification::new(vec![pg::Device::new(c.s1.clone(), c.s2.clone())]);
            notif.event_id = Some(event);
            notif.room_id = Some(room);
            notif.sender = Some(user);
            let req = pg::Request::new(notif);
            request_roundtrip_any(req, &v, SendAccessToken::None, cx)?;
            cx.class("real_push_gateway");
        }
    }
    Ok(())
}

/// Two messages that encode alike can still differ (a field dropped on the way out is absent from
/// both encodings): the received value must also print like the one sent.
fn request_roundtrip_eq<R>(req: R, versions: &[MatrixVersion], cx: &mut CaseCtx) -> Result<(), String>
where
    R: OutgoingRequest + IncomingRequest + std::fmt::Debug,
{
    let want = format!("{req:?}");
    if let Some((req2, http1)) = request_roundtrip(req, versions, cx)? {
        if format!("{req2:?}") != want {
            return Err(format!("the received request differs from the one sent although both encode alike: sent {want}, received {req2:?}; uri {}", http1.uri()));
        }
    }
    Ok(())
}

fn request_roundtrip_fed<R>(req: R, versions: &[MatrixVersion], cx: &mut CaseCtx) -> Result<(), String>
where
    R: OutgoingRequest + IncomingRequest + std::fmt::Debug,
{
    request_roundtrip_any(req, versions, SendAccessToken::None, cx)
}

fn request_roundtrip_any<R>(req: R, versions: &[MatrixVersion], token: SendAccessToken<'_>, cx: &mut CaseCtx) -> Result<(), String>
where
    R: OutgoingRequest + IncomingRequest + std::fmt::Debug,
{
    let m = <R as OutgoingRequest>::METADATA;
    let Ok(http1) = req.clone().try_into_http_request::<Vec<u8>>("https://hs.example", token, versions) else {
        cx.class("not_accepted_by_encoder");
        return Ok(());
    };
    if http1.method() != m.method {
        return Err(format!("request method {} differs from METADATA.method {}", http1.method(), m.method));
    }
    let path = http1.uri().path().to_owned();
    let args = route(&m, &path).ok_or_else(|| format!("the encoded path {path:?} does not match any path of the endpoint's metadata"))?;
    let req2 = R::try_from_http_request(http1.clone(), &args).map_err(|e| format!("the receiving side rejects the encoded request: {e}; uri {}; original {req:?}", http1.uri()))?;
    let http2 = req2.clone().try_into_http_request::<Vec<u8>>("https://hs.example", token, versions).map_err(|e| format!("re-encoding failed: {e}"))?;
    http_eq(&http1, &http2).map_err(|e| format!("re-encoding the received request gives a different HTTP message: {e}; original {req:?}, received {req2:?}"))?;
    if format!("{req2:?}") != format!("{req:?}") {
        return Err(format!("the received request differs from the one sent although both encode alike: sent {req:?}, received {req2:?}; uri {}", http1.uri()));
    }
    Ok(())
}

fn real_case() -> impl Strategy<Value = RealCase> {
    let hostile = || "[a-zA-Z0-9%/?#+&= \"é.-]{1,8}";
    (
        0u8..13,
        prop_oneof![vf_ref::idgen::room_id(), hostile().prop_map(|l| format!("!{l}:x.y"))],
        prop_oneof![vf_ref::idgen::user_id(), "[!-9;-~]{1,8}".prop_map(|l| format!("@{l}:x.y"))],
        prop_oneof![vf_ref::idgen::event_id(), hostile().prop_map(|l| format!("${l}"))],
        prop_oneof![vf_ref::idgen::room_alias_id(), hostile().prop_map(|l| format!("#{l}:x.y"))],
        field_string(),
        field_string(),
        prop::collection::vec(vf_ref::idgen::server_name(), 0..3),
        any::<u32>(),
    )
        .prop_map(|(which, room, user, event, alias, s1, s2, via, n)| RealCase { which, room, user, event, alias, s1, s2, via, n })
}

// ---------------------------------------------------------------------------------------------
// (d) X-Matrix

#[derive(Serialize, Deserialize, Debug, Clone)]
pub struct XmCase {
    pub origin: String,
    pub destination: Option<String>,
    pub key_version: String,
    pub sig: Vec<u8>,
    pub text: Option<String>,
}

fn xm_oracle(c: &XmCase, cx: &mut CaseCtx) -> Result<(), String> {
    if let Some(t) = &c.text {
        // arbitrary header text: parse must return, and a parsed value must re-format to the same value
        cx.class("xmatrix_text");
        if let Ok(x) = XMatrix::parse(t) {
            let again = XMatrix::parse(x.to_string()).map_err(|e| format!("parsed X-Matrix header {t:?} re-formats to {:?} which does not parse: {e}", x.to_string()))?;
            if again.origin != x.origin || again.destination != x.destination || again.key != x.key || again.sig != x.sig {
                return Err(format!("parsed X-Matrix header {t:?} changes when re-formatted and parsed"));
            }
            let _ = http::HeaderValue::from(&x);
            cx.class("xmatrix_text_parsed");
        }
        cx.nontrivial();
        return Ok(());
    }
    let (Ok(origin), Ok(key)) = (OwnedServerName::try_from(c.origin.as_str()), OwnedServerSigningKeyId::try_from(format!("ed25519:{}", c.key_version))) else {
        cx.class("id_rejected_by_parser");
        return Ok(());
    };
    let destination = match &c.destination {
        Some(d) => match OwnedServerName::try_from(d.as_str()) {
            Ok(d) => Some(d),
            Err(_) => return Ok(()),
        },
        None => None,
    };
    let sig = Base64::new(c.sig.clone());
    let x = match destination.clone() {
        Some(d) => XMatrix::new(origin.clone(), d, key.clone(), sig.clone()),
        None => {
            let mut x = XMatrix::new(origin.clone(), origin.clone(), key.clone(), sig.clone());
            x.destination = None;
            x
        }
    };
    let text = x.to_string();
    let hv = http::HeaderValue::from(&x);
    let back = XMatrix::parse(&text).map_err(|e| format!("X-Matrix header {text:?} does not parse back: {e}"))?;
    let back2 = XMatrix::try_from(&hv).map_err(|e| format!("X-Matrix HeaderValue does not parse back: {e}"))?;
    for b in [&back, &back2] {
        if b.origin != origin || b.destination != destination || b.key != key || b.sig != sig {
            return Err(format!("X-Matrix round trip changed the value: {text:?} -> origin {:?} destination {:?} key {:?}", b.origin, b.destination, b.key));
        }
    }
    cx.class("xmatrix_value");
    cx.nontrivial_if(c.origin.contains(':') || c.origin.contains('[') || destination.is_some());
    Ok(())
}

fn xm_case() -> impl Strategy<Value = XmCase> {
    let value = (vf_ref::idgen::server_name(), prop::option::of(vf_ref::idgen::server_name()), "[A-Za-z0-9_]{1,10}", prop::collection::vec(any::<u8>(), 0..70)).prop_map(|(origin, destination, key_version, sig)| XmCase { origin, destination, key_version, sig, text: None });
    let parts = prop::collection::vec(
        prop_oneof![
            Just("origin=a.b".to_owned()), Just("origin=\"a.b:80\"".to_owned()), Just("destination=c.d".to_owned()), Just("key=\"ed25519:k1\"".to_owned()), Just("key=ed25519:k1".to_owned()), Just("sig=dGVzdA".to_owned()),
            Just("sig=\"dGVzdA==\"".to_owned()), Just("unknown=1".to_owned()), Just("ORIGIN=x.y".to_owned()), Just("sig=".to_owned()), Just("origin".to_owned()), Just("=".to_owned()), Just("key=\"a\\\"b\"".to_owned()), "[a-z=\", ]{0,6}",
        ],
        0..7,
    );
    let text = (prop_oneof![Just("X-Matrix "), Just("x-matrix "), Just("X-Matrix"), Just("Bearer "), Just("")], parts, prop_oneof![Just(","), Just(", "), Just(" , "), Just(" ")]).prop_map(|(scheme, parts, sep)| XmCase { origin: String::new(), destination: None, key_version: String::new(), sig: vec![], text: Some(format!("{scheme}{}", parts.join(sep))) });
    // well-formed parameter lists in arbitrary order, spelling and quoting (must parse)
    let shuffled = (vf_ref::idgen::server_name(), prop::option::of(vf_ref::idgen::server_name()), "[A-Za-z0-9_]{1,6}", prop::collection::vec(any::<u8>(), 1..40), any::<[u8; 4]>(), any::<u8>(), prop::option::of("[a-z]{1,4}=[a-z0-9]{1,4}")).prop_map(|(origin, dest, kv, sig, order, style, extra)| {
        let q = |v: String, i: u8| if (style >> i) & 1 == 1 || v.contains(':') || v.contains('[') { format!("\"{v}\"") } else { v };
        let name = |n: &str, i: u8| if (style >> (i + 4)) & 1 == 1 { n.to_uppercase() } else { n.to_owned() };
        let mut params = vec![
            (order[0], format!("{}={}", name("origin", 0), q(origin, 0))),
            (order[1], format!("{}={}", name("key", 1), q(format!("ed25519:{kv}"), 1))),
            (order[2], format!("{}={}", name("sig", 2), q(vf_ref::hash::b64(&sig, false), 2))),
        ];
        if let Some(d) = dest {
            params.push((order[3], format!("{}={}", name("destination", 3), q(d, 3))));
        }
        if let Some(e) = extra {
            params.push((order[3] ^ 0x55, e));
        }
        params.sort();
        let sep = [",", ", ", " ,", " , "][(style % 4) as usize];
        XmCase { origin: String::new(), destination: None, key_version: String::new(), sig: vec![], text: Some(format!("X-Matrix {}", params.into_iter().map(|p| p.1).collect::<Vec<_>>().join(sep))) }
    });
    prop_oneof![3 => value, 1 => text, 2 => shuffled]
}

pub fn run(ck: &mut Check) {
    ck.rule(
        "(a) G1: synthetic endpoints declared with the public macros, one per field-attribute kind (path: String / user id / room alias / u32; query: String, Option, Vec, u32, bool; query_all map; required and optional headers; body fields with skip_serializing_if and a nested struct; newtype body; raw body) with field values over a reserved alphabet (/ % ? # + & = ; , space quote backslash, percent triplets, non-ASCII, '.' and '..'), empty and multi-valued vectors, optionals present/absent; requests travel request -> HTTP -> router (split path, match the metadata's templates, percent-decode placeholders with an independent decoder) -> request' -> HTTP and must be identical field by field and byte by byte; responses likewise. \
         (b) G1: real client, federation, appservice and push-gateway endpoints and the client error response (M_LIMIT_EXCEEDED with whole-second Retry-After) with hostile identifiers. (c) G2: for every endpoint METADATA scanned from the tree at check time x every subset of the 15 known Matrix versions, make_endpoint_url against the reference selection; Authorization header per AuthScheme x token mode. (d) G1: X-Matrix values and header texts. \
         Non-trivial = reserved character in a path/query field, empty or multi-valued query, endpoint with >= 2 stable paths or a deprecation.",
    );
    ck.assume("field values the encoder refuses (IntoHttpError, e.g. a header value with control characters) are 'not accepted by the encoder': skipped and counted");
    ck.assume("an empty string as a path argument cannot be routed and is excluded by construction (counted)");
    let mut scanned = all_metadata();
    scanned.extend(synthetic_histories());
    let list = std::sync::Arc::new(scanned);
    ck.extra("endpoints_scanned", json!(list.len()));
    // (c)
    {
        let thorough = ck.thorough();
        // quick: every distinct history shape x all subsets; thorough: every endpoint x all subsets
        let mut reps: Vec<usize> = vec![];
        let mut seen = std::collections::BTreeSet::new();
        for (i, (_, m)) in list.iter().enumerate() {
            let shape = format!("{:?}|{}|{:?}|{:?}", m.history.stable_paths().map(|x| x.0).collect::<Vec<_>>(), m.history.unstable_paths().count() > 0, m.history.deprecated_in(), m.history.removed_in());
            if thorough || seen.insert(shape) {
                reps.push(i);
            }
        }
        ck.extra("distinct_history_shapes_or_endpoints_enumerated", json!(reps.len()));
        let reps = std::sync::Arc::new(reps);
        let l2 = list.clone();
        ck.exhaustive(
            "version_selection_all_subsets",
            true,
            move |s, n| {
                let reps = reps.clone();
                let total = reps.len() as u64 * 32768;
                (0..total).skip(s as usize).step_by(n as usize).map(move |i| SelCase { endpoint: reps[(i / 32768) as usize], versions: (i % 32768) as u16 })
            },
            move |c, cx| sel_oracle_with(&l2, c, cx),
        );
        ck.floor("version_selection_all_subsets", "ge_2_stable_paths", 1000);
        ck.floor("version_selection_all_subsets", "deprecated_endpoint", 1000);
        ck.floor("version_selection_all_subsets", "removed_endpoint", 1000);
        ck.floor("version_selection_all_subsets", "selection_error", 100);
        let l3 = list.clone();
        ck.exhaustive("authorization_header_all_endpoints", true, |s, _| (0..1u8).filter(move |_| s == 0), move |_c, cx| {
            cx.nontrivial();
            auth_oracle(&l3, cx)
        });
    }
    let n = ck.n(300_000, 4_000_000);
    ck.prop("synthetic_endpoints", n, synth_case, synth_oracle);
    for cls in ["synthetic_request_roundtrip", "reserved_char_in_field", "percent_in_field", "empty_multi_valued_query", "multi_valued_query", "non_200_success_status", "json_body_respelled"] {
        ck.floor("synthetic_endpoints", cls, 2000);
    }
    let n = ck.n(150_000, 2_000_000);
    ck.prop("real_endpoints", n, real_case, real_oracle);
    for cls in ["real_client", "real_federation", "real_appservice", "real_push_gateway", "real_error_response", "reserved_char_in_field", "non_200_success_status"] {
        ck.floor("real_endpoints", cls, 500);
    }
    let n = ck.n(150_000, 2_000_000);
    ck.prop("x_matrix", n, xm_case, xm_oracle);
    ck.floor("x_matrix", "xmatrix_value", 5000);
    // (e) the Content-Disposition header field of the media endpoints
    let n = ck.n(100_000, 2_000_000);
    ck.prop(
        "content_disposition_header",
        n,
        || {
            let filename = prop_oneof![
                3 => "[a-zA-Z0-9._-]{0,12}",
                3 => "[a-zA-Z0-9 ._\\\\\"';=,()/-]{0,12}",
                2 => "[a-z]{0,4}(\\\\|\"|\\\\\\\\|\\\\\"){1,3}",
                2 => "[a-z \u{e9}\u{20ac}\u{1F600}%'*]{1,10}",
                1 => "\\PC{0,8}",
            ];
            (0u8..4, prop::option::weighted(0.85, filename), any::<bool>()).prop_map(|(ty, filename, via_response)| CdCase { ty, filename, via_response })
        },
        cd_oracle,
    );
    ck.floor("content_disposition_header", "filename_with_backslash_or_quote", 5000);
    ck.floor("content_disposition_header", "filename_ends_with_backslash", 1000);
    ck.floor("content_disposition_header", "filename_non_ascii", 5000);
    ck.floor("x_matrix", "xmatrix_text_parsed", 200);
}
