//! Generators for PDU-shaped JSON objects (room events as they travel over federation), written
//! from the server-server specification's PDU schemas. Used by C03, C04, C05.

use std::collections::BTreeMap;

use proptest::prelude::*;
use serde::{Deserialize, Serialize};

use crate::{
    cjson::{self, V},
    redact::{CONTENT_KEYS, SPECIAL_TYPES, TOP_KEYS},
};

pub const SERVERS: [&str; 3] = ["a.example", "b.example:8448", "c.example"];

pub fn user(server: usize, n: u8) -> String {
    format!("@u{n}:{}", SERVERS[server % 3])
}

fn s(x: &str) -> V {
    V::Str(x.to_owned())
}

fn obj<const N: usize>(kv: [(&str, V); N]) -> V {
    V::Obj(kv.into_iter().map(|(k, v)| (k.to_owned(), v)).collect())
}

/// Type names that are NOT one of the specially redacted types but look like one: suffix only,
/// repeated prefix, case change, extra characters. All of them redact like an unknown type.
pub fn near_miss_types() -> Vec<String> {
    let mut out = vec![];
    for t in SPECIAL_TYPES {
        let x = t.trim_start_matches("m.room.");
        out.extend([
            x.to_owned(),
            format!("m.room.m.room.{x}"),
            format!("m.room.{x}."),
            format!("m.room.{x}s"),
            format!("m.room.{}", x.to_uppercase()),
            t.to_uppercase(),
            format!("room.{x}"),
            format!("m.{x}"),
            format!(" {t}"),
            format!("{t} "),
            format!("org.example.{x}"),
            format!("{t}.{x}"),
        ]);
    }
    out
}

pub fn event_type() -> impl Strategy<Value = String> {
    prop_oneof![
        2 => any::<u16>().prop_map(|i| {
            let l = near_miss_types();
            l[(i as usize * l.len()) >> 16].clone()
        }),
        6 => (0usize..SPECIAL_TYPES.len()).prop_map(|i| SPECIAL_TYPES[i].to_owned()),
        2 => Just("m.room.message".to_owned()),
        1 => Just("m.room.topic".to_owned()),
        1 => Just("m.room.server_acl".to_owned()),
        1 => "[a-z]{1,5}\\.[a-z]{1,6}",
    ]
}

/// Content following the type's schema, with optional extra/unknown keys and nested values.
pub fn content_for(ty: &str) -> BoxedStrategy<BTreeMap<String, V>> {
    let extras = prop::collection::vec(((0usize..CONTENT_KEYS.len()).prop_map(|i| CONTENT_KEYS[i].to_owned()), cjson::value(2)), 0..4);
    let base: BoxedStrategy<Vec<(String, V)>> = match ty {
        "m.room.member" => (
            prop_oneof![3 => Just("join"), 2 => Just("invite"), 1 => Just("leave"), 1 => Just("ban"), 1 => Just("knock")],
            prop::option::of("[a-zA-Z é]{0,8}"),
            any::<bool>(),
            prop::option::weighted(0.35, (0usize..3, 0u8..5)),
            prop::option::weighted(0.3, (any::<bool>(), "[a-z]{1,6}", cjson::value(1))),
        )
            .prop_map(|(membership, dn, reason, auth, tpi)| {
                let mut c = vec![("membership".to_owned(), s(membership))];
                if let Some(d) = dn {
                    c.push(("displayname".to_owned(), s(&d)));
                }
                if reason {
                    c.push(("reason".to_owned(), s("because")));
                }
                if membership == "join" {
                    if let Some((srv, n)) = auth {
                        c.push(("join_authorised_via_users_server".to_owned(), s(&user(srv, n))));
                    }
                }
                // third_party_invite belongs on invites; other memberships sometimes carry it too
                // (redaction and the required-signer rule must cope with it there as well)
                if membership == "invite" || reason {
                    if let Some((with_signed, dn, extra)) = tpi {
                        let mut t = BTreeMap::new();
                        t.insert("display_name".to_owned(), s(&dn));
                        if with_signed {
                            t.insert("signed".to_owned(), obj([("mxid", s("@u1:a.example")), ("token", s("tok")), ("signatures", obj([("id.example", obj([("ed25519:0", s("c2ln"))]))]))]));
                        }
                        t.insert("x_extra".to_owned(), extra);
                        c.push(("third_party_invite".to_owned(), V::Obj(t)));
                    }
                }
                c
            })
            .boxed(),
        "m.room.create" => (prop::option::of((0usize..3, 0u8..5)), prop::option::of(prop_oneof![Just("1"), Just("6"), Just("11")]), prop::option::of(any::<bool>()), any::<bool>())
            .prop_map(|(creator, rv, fed, pred)| {
                let mut c = vec![];
                if let Some((srv, n)) = creator {
                    c.push(("creator".to_owned(), s(&user(srv, n))));
                }
                if let Some(rv) = rv {
                    c.push(("room_version".to_owned(), s(rv)));
                }
                if let Some(f) = fed {
                    c.push(("m.federate".to_owned(), V::Bool(f)));
                }
                if pred {
                    c.push(("predecessor".to_owned(), obj([("room_id", s("!old:a.example")), ("event_id", s("$last"))])));
                }
                c
            })
            .boxed(),
        "m.room.join_rules" => (prop_oneof![Just("public"), Just("invite"), Just("knock"), Just("restricted"), Just("knock_restricted"), Just("private")], any::<bool>())
            .prop_map(|(jr, allow)| {
                let mut c = vec![("join_rule".to_owned(), s(jr))];
                if allow {
                    c.push(("allow".to_owned(), V::Arr(vec![obj([("type", s("m.room_membership")), ("room_id", s("!other:b.example"))])])));
                }
                c
            })
            .boxed(),
        "m.room.power_levels" => prop::collection::vec(
            (
                prop_oneof![
                    Just("ban"), Just("events"), Just("events_default"), Just("invite"), Just("kick"), Just("redact"), Just("state_default"), Just("users"), Just("users_default"),
                    Just("notifications")
                ],
                -5i64..105,
            ),
            0..8,
        )
        .prop_map(|kv| {
            kv.into_iter()
                .map(|(k, n)| {
                    let v = match k {
                        "events" => obj([("m.room.name", V::Int(n))]),
                        "users" => obj([("@u0:a.example", V::Int(n))]),
                        "notifications" => obj([("room", V::Int(n))]),
                        _ => V::Int(n),
                    };
                    (k.to_owned(), v)
                })
                .collect()
        })
        .boxed(),
        "m.room.aliases" => prop::collection::vec("[a-z]{1,5}", 0..3).prop_map(|a| vec![("aliases".to_owned(), V::Arr(a.into_iter().map(|x| s(&format!("#{x}:a.example"))).collect()))]).boxed(),
        "m.room.history_visibility" => prop_oneof![Just("shared"), Just("joined"), Just("invited"), Just("world_readable")].prop_map(|h| vec![("history_visibility".to_owned(), s(h))]).boxed(),
        "m.room.redaction" => (any::<bool>(), any::<bool>())
            .prop_map(|(redacts, reason)| {
                let mut c = vec![];
                if redacts {
                    c.push(("redacts".to_owned(), s("$target")));
                }
                if reason {
                    c.push(("reason".to_owned(), s("spam")));
                }
                c
            })
            .boxed(),
        "m.room.message" => ("[ -~é\u{1F600}]{0,20}", any::<bool>())
            .prop_map(|(body, fmt)| {
                let mut c = vec![("msgtype".to_owned(), s("m.text")), ("body".to_owned(), s(&body))];
                if fmt {
                    c.push(("format".to_owned(), s("org.matrix.custom.html")));
                    c.push(("formatted_body".to_owned(), s("<b>x</b>")));
                }
                c
            })
            .boxed(),
        _ => prop::collection::vec(("[a-z_.]{1,8}", cjson::value(2)), 0..4).boxed(),
    };
    (base, extras)
        .prop_map(|(base, extras)| {
            let mut m: BTreeMap<String, V> = base.into_iter().collect();
            for (k, v) in extras {
                // extras never overwrite schema fields (keeps the event well-formed)
                m.entry(k).or_insert(v);
            }
            m
        })
        .boxed()
}

#[derive(Clone, Debug, Serialize, Deserialize)]
pub struct Pdu {
    /// room version 1..=11
    pub version: u8,
    pub event: BTreeMap<String, V>,
}

fn hash_id(url_safe: bool) -> impl Strategy<Value = String> {
    if url_safe { "[A-Za-z0-9_-]{43}" } else { "[A-Za-z0-9+/]{43}" }.prop_map(|h| format!("${h}"))
}

/// Well-formed PDUs: everything a verifier needs is present and typed as the spec says; plus
/// random extra top-level keys (spec-listed unprotected ones and unspecified ones).
pub fn pdu() -> impl Strategy<Value = Pdu> {
    (1u8..=11, event_type()).prop_flat_map(|(version, ty)| {
        let content = content_for(&ty);
        let ids = || prop::collection::vec(hash_id(version >= 4), 0..3);
        (
            Just(version),
            Just(ty),
            content,
            (0usize..3, 0u8..5),                          // sender
            (0usize..3, "[a-zA-Z0-9]{1,8}"),              // event id server + localpart (v1/2)
            prop::option::of(prop_oneof![Just(String::new()), (0usize..3, 0u8..5).prop_map(|(a, b)| user(a, b)), "[a-z]{1,4}"]), // state_key
            (ids(), ids(), 0i64..100, 0i64..2_000_000_000_000i64),
            prop::collection::vec(((0usize..TOP_KEYS.len()).prop_map(|i| TOP_KEYS[i].to_owned()), cjson::value(2)), 0..5),
            prop::option::of(prop_oneof![
                3 => cjson::value(2),
                // what a homeserver adds for clients: untrusted data that must influence neither hashes nor redaction
                1 => Just(obj([("age", V::Int(1234)), ("redacted_because", obj([("type", s("m.room.redaction")), ("sender", s("@u1:a.example")), ("content", obj([("reason", s("spam"))]))]))])),
                1 => Just(obj([("redacted_because", s("not even an object")), ("transaction_id", s("t1"))])),
            ]), // unsigned
            any::<bool>(),
        )
            .prop_map(|(version, ty, content, sender, (eid_srv, eid_local), state_key, (prev, auth, depth, ts), extras, unsigned, with_event_id)| {
                let mut e: BTreeMap<String, V> = BTreeMap::new();
                for (k, v) in extras {
                    // extras may be spec-listed keys with arbitrary values only where that does
                    // not make the PDU malformed for verification: restrict to non-structural keys
                    if matches!(k.as_str(), "origin" | "membership" | "prev_state" | "redacts" | "age_ts" | "x_unspecified" | "zz_unspecified") {
                        e.insert(k, v);
                    }
                }
                e.insert("type".into(), s(&ty));
                e.insert("content".into(), V::Obj(content));
                e.insert("sender".into(), s(&user(sender.0, sender.1)));
                e.insert("room_id".into(), s("!room:a.example"));
                e.insert("origin_server_ts".into(), V::Int(ts));
                e.insert("depth".into(), V::Int(depth));
                if version <= 2 {
                    e.insert("event_id".into(), s(&format!("${eid_local}:{}", SERVERS[eid_srv])));
                    e.insert("prev_events".into(), V::Arr(prev.iter().map(|p| V::Arr(vec![s(p), obj([("sha256", s("aGFzaA"))])])).collect()));
                    e.insert("auth_events".into(), V::Arr(auth.iter().map(|p| V::Arr(vec![s(p), obj([("sha256", s("aGFzaA"))])])).collect()));
                } else {
                    if with_event_id {
                        // not part of the v3+ PDU format, but commonly carried around with it
                        e.insert("event_id".into(), s(&format!("${}", "A".repeat(43))));
                    }
                    e.insert("prev_events".into(), V::Arr(prev.iter().map(|p| s(p)).collect()));
                    e.insert("auth_events".into(), V::Arr(auth.iter().map(|p| s(p)).collect()));
                }
                if let Some(sk) = state_key {
                    e.insert("state_key".into(), s(&sk));
                }
                if let Some(u) = unsigned {
                    e.insert("unsigned".into(), match u {
                        V::Obj(m) => V::Obj(m),
                        other => obj([("age", V::Int(1)), ("x", other)]),
                    });
                }
                Pdu { version, event: e }
            })
    })
}

/// Loose event objects for redaction: any subset of specified and unspecified keys at top level
/// and in content, arbitrary nested values, occasionally malformed (`type` missing / not a string,
/// `content` not an object).
pub fn loose_event() -> impl Strategy<Value = Pdu> {
    (1u8..=11, event_type()).prop_flat_map(|(version, ty)| {
        let top = prop::collection::vec(((0usize..TOP_KEYS.len()).prop_map(|i| TOP_KEYS[i].to_owned()), cjson::value(2)), 0..12);
        let ckeys = prop::collection::vec(((0usize..CONTENT_KEYS.len()).prop_map(|i| CONTENT_KEYS[i].to_owned()), cjson::value(2)), 0..10);
        (Just(version), Just(ty.clone()), top, content_for(&ty), ckeys, 0u8..40, prop::option::weighted(0.3, cjson::value(1))).prop_map(
            |(version, ty, top, schema_content, ckeys, malform, tpi_signed)| {
                let mut e: BTreeMap<String, V> = top.into_iter().collect();
                let mut content = schema_content;
                for (k, v) in ckeys {
                    content.insert(k, v);
                }
                if let Some(sv) = tpi_signed {
                    if ty == "m.room.member" {
                        content.insert("third_party_invite".into(), obj([("signed", sv), ("display_name", s("x"))]));
                    }
                }
                e.insert("type".into(), s(&ty));
                e.insert("content".into(), V::Obj(content));
                match malform {
                    0 => {
                        e.remove("type");
                    }
                    1 => {
                        e.insert("type".into(), V::Int(3));
                    }
                    2 => {
                        e.insert("content".into(), s("not an object"));
                    }
                    3 => {
                        e.remove("content");
                    }
                    4 => {
                        e.insert("content".into(), V::Arr(vec![]));
                    }
                    _ => {}
                }
                Pdu { version, event: e }
            },
        )
    })
}

/// The G2 table objects: for each version x type an object containing EVERY key the spec mentions
/// (top level and content) plus unspecified keys at each level.
pub fn full_table() -> Vec<Pdu> {
    let mut out = vec![];
    let mut types: Vec<String> = SPECIAL_TYPES.iter().map(|s| (*s).to_owned()).collect();
    types.extend(["m.room.message", "m.room.server_acl", "org.example.unknown"].map(String::from));
    types.extend(near_miss_types());
    for version in 1u8..=11 {
        for ty in &types {
            let mut content = BTreeMap::new();
            for (i, k) in CONTENT_KEYS.iter().enumerate() {
                let v = match *k {
                    "third_party_invite" => obj([("signed", obj([("token", s("t")), ("mxid", s("@a:b"))])), ("display_name", s("d")), ("x_unspecified", V::Int(1))]),
                    "users" | "events" | "notifications" => obj([("k", V::Int(i as i64))]),
                    "allow" | "aliases" => V::Arr(vec![s("x"), obj([("n", V::Null)])]),
                    _ => s(&format!("content-{k}")),
                };
                content.insert((*k).to_owned(), v);
            }
            let mut e = BTreeMap::new();
            for (i, k) in TOP_KEYS.iter().enumerate() {
                let v = match *k {
                    "type" => s(ty),
                    "content" => V::Obj(content.clone()),
                    "unsigned" => obj([("age", V::Int(5)), ("redacted_because", obj([("x", V::Int(1))]))]),
                    "hashes" => obj([("sha256", s("aGFzaA"))]),
                    "signatures" => obj([("a.example", obj([("ed25519:1", s("c2ln"))]))]),
                    "prev_events" | "auth_events" | "prev_state" => V::Arr(vec![s("$e1"), V::Arr(vec![V::Int(1)])]),
                    "depth" | "origin_server_ts" | "age_ts" => V::Int(i as i64 * 1000),
                    _ => s(&format!("top-{k}")),
                };
                e.insert((*k).to_owned(), v);
            }
            out.push(Pdu { version, event: e });
        }
    }
    out
}
