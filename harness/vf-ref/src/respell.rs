//! Re-spelling of a JSON value: the same value as different text (key order, escaped string
//! spellings, inter-token whitespace). Used for "the text's spelling does not matter" relations.

use serde_json::Value;

/// A JSON string literal for `s` where, depending on `mode`, characters are written as escapes
/// (`\uXXXX` incl. surrogate pairs, `\/`, short escapes).
pub fn spell_str(s: &str, mode: u8, ctr: &mut u32) -> String {
    let density = (mode & 7) as u32;
    let mut out = String::from("\"");
    for ch in s.chars() {
        *ctr = ctr.wrapping_add(1);
        let h = (ctr.wrapping_mul(2654435761).rotate_left(9)) ^ (mode as u32).wrapping_mul(40503);
        let must = (ch as u32) < 0x20 || ch == '"' || ch == '\\';
        if !(must || (density > 0 && h % 8 < density)) {
            out.push(ch);
            continue;
        }
        let short = match ch {
            '"' => Some("\\\""),
            '\\' => Some("\\\\"),
            '/' => Some("\\/"),
            '\n' => Some("\\n"),
            '\t' => Some("\\t"),
            '\r' => Some("\\r"),
            '\u{8}' => Some("\\b"),
            '\u{c}' => Some("\\f"),
            _ => None,
        };
        if let (Some(sh), true) = (short, (h >> 8) % 2 == 0 || density == 0) {
            out.push_str(sh);
            continue;
        }
        let mut buf = [0u16; 2];
        for unit in ch.encode_utf16(&mut buf) {
            if (h >> 9) % 2 == 0 {
                out.push_str(&format!("\\u{unit:04x}"));
            } else {
                out.push_str(&format!("\\u{unit:04X}"));
            }
        }
    }
    out.push('"');
    out
}

/// `v` as JSON text: object keys reversed / rotated by `salt`, strings escaped with density
/// `mode & 7`, whitespace between tokens when `mode & 8`. `mode == 0 && salt == 0` is serde_json's
/// own compact spelling.
pub fn respell(v: &Value, salt: u8, mode: u8, ctr: &mut u32) -> String {
    let ws = |n: u32| if mode & 8 == 0 { "" } else { [" ", "\n", "\t ", "", "\r\n"][(n % 5) as usize] };
    match v {
        Value::Object(m) => {
            let mut keys: Vec<&String> = m.keys().collect();
            if salt % 3 == 1 {
                keys.reverse();
            } else if salt % 3 == 2 && !keys.is_empty() {
                let r = (salt as usize / 3) % keys.len();
                keys.rotate_left(r);
            }
            let parts: Vec<String> = keys
                .iter()
                .map(|k| {
                    let ks = spell_str(k, mode, ctr);
                    let n = *ctr;
                    format!("{}{ks}{}:{}{}", ws(n), ws(n / 5), ws(n / 25), respell(&m[*k], salt.wrapping_add(1), mode, ctr))
                })
                .collect();
            format!("{{{}{}}}", parts.join(","), ws(*ctr / 7))
        }
        Value::Array(a) => format!("[{}{}]", a.iter().map(|x| respell(x, salt, mode, ctr)).collect::<Vec<_>>().join(","), ws(*ctr / 3)),
        Value::String(st) => spell_str(st, mode, ctr),
        other => serde_json::to_string(other).unwrap(),
    }
}
