//! SHA-256 (FIPS 180-4) and unpadded base64 (RFC 4648, standard and URL-safe alphabets), written
//! from the standards; self-tested against `ring::digest` by the checks that use them.

const K: [u32; 64] = [
    0x428a2f98, 0x71374491, 0xb5c0fbcf, 0xe9b5dba5, 0x3956c25b, 0x59f111f1, 0x923f82a4, 0xab1c5ed5, 0xd807aa98, 0x12835b01, 0x243185be, 0x550c7dc3, 0x72be5d74, 0x80deb1fe,
    0x9bdc06a7, 0xc19bf174, 0xe49b69c1, 0xefbe4786, 0x0fc19dc6, 0x240ca1cc, 0x2de92c6f, 0x4a7484aa, 0x5cb0a9dc, 0x76f988da, 0x983e5152, 0xa831c66d, 0xb00327c8, 0xbf597fc7,
    0xc6e00bf3, 0xd5a79147, 0x06ca6351, 0x14292967, 0x27b70a85, 0x2e1b2138, 0x4d2c6dfc, 0x53380d13, 0x650a7354, 0x766a0abb, 0x81c2c92e, 0x92722c85, 0xa2bfe8a1, 0xa81a664b,
    0xc24b8b70, 0xc76c51a3, 0xd192e819, 0xd6990624, 0xf40e3585, 0x106aa070, 0x19a4c116, 0x1e376c08, 0x2748774c, 0x34b0bcb5, 0x391c0cb3, 0x4ed8aa4a, 0x5b9cca4f, 0x682e6ff3,
    0x748f82ee, 0x78a5636f, 0x84c87814, 0x8cc70208, 0x90befffa, 0xa4506ceb, 0xbef9a3f7, 0xc67178f2,
];

pub fn sha256(msg: &[u8]) -> [u8; 32] {
    let mut h: [u32; 8] = [0x6a09e667, 0xbb67ae85, 0x3c6ef372, 0xa54ff53a, 0x510e527f, 0x9b05688c, 0x1f83d9ab, 0x5be0cd19];
    let mut m = msg.to_vec();
    let bitlen = (msg.len() as u64).wrapping_mul(8);
    m.push(0x80);
    while m.len() % 64 != 56 {
        m.push(0);
    }
    m.extend_from_slice(&bitlen.to_be_bytes());
    for chunk in m.chunks(64) {
        let mut w = [0u32; 64];
        for i in 0..16 {
            w[i] = u32::from_be_bytes([chunk[4 * i], chunk[4 * i + 1], chunk[4 * i + 2], chunk[4 * i + 3]]);
        }
        for i in 16..64 {
            let s0 = w[i - 15].rotate_right(7) ^ w[i - 15].rotate_right(18) ^ (w[i - 15] >> 3);
            let s1 = w[i - 2].rotate_right(17) ^ w[i - 2].rotate_right(19) ^ (w[i - 2] >> 10);
            w[i] = w[i - 16].wrapping_add(s0).wrapping_add(w[i - 7]).wrapping_add(s1);
        }
        let [mut a, mut b, mut c, mut d, mut e, mut f, mut g, mut hh] = h;
        for i in 0..64 {
            let s1 = e.rotate_right(6) ^ e.rotate_right(11) ^ e.rotate_right(25);
            let ch = (e & f) ^ ((!e) & g);
            let t1 = hh.wrapping_add(s1).wrapping_add(ch).wrapping_add(K[i]).wrapping_add(w[i]);
            let s0 = a.rotate_right(2) ^ a.rotate_right(13) ^ a.rotate_right(22);
            let maj = (a & b) ^ (a & c) ^ (b & c);
            let t2 = s0.wrapping_add(maj);
            hh = g;
            g = f;
            f = e;
            e = d.wrapping_add(t1);
            d = c;
            c = b;
            b = a;
            a = t1.wrapping_add(t2);
        }
        for (x, y) in h.iter_mut().zip([a, b, c, d, e, f, g, hh]) {
            *x = x.wrapping_add(y);
        }
    }
    let mut out = [0u8; 32];
    for (i, x) in h.iter().enumerate() {
        out[4 * i..4 * i + 4].copy_from_slice(&x.to_be_bytes());
    }
    out
}

const STD: &[u8; 64] = b"ABCDEFGHIJKLMNOPQRSTUVWXYZabcdefghijklmnopqrstuvwxyz0123456789+/";
const URL: &[u8; 64] = b"ABCDEFGHIJKLMNOPQRSTUVWXYZabcdefghijklmnopqrstuvwxyz0123456789-_";

/// Unpadded base64.
pub fn b64(data: &[u8], url_safe: bool) -> String {
    let al = if url_safe { URL } else { STD };
    let mut out = String::with_capacity(data.len() * 4 / 3 + 3);
    for ch in data.chunks(3) {
        let n = (ch[0] as u32) << 16 | (*ch.get(1).unwrap_or(&0) as u32) << 8 | *ch.get(2).unwrap_or(&0) as u32;
        out.push(al[(n >> 18) as usize & 63] as char);
        out.push(al[(n >> 12) as usize & 63] as char);
        if ch.len() > 1 {
            out.push(al[(n >> 6) as usize & 63] as char);
        }
        if ch.len() > 2 {
            out.push(al[n as usize & 63] as char);
        }
    }
    out
}

/// Decodes unpadded or padded base64 in the given alphabet (strict about characters).
pub fn b64_decode(s: &str, url_safe: bool) -> Option<Vec<u8>> {
    let al = if url_safe { URL } else { STD };
    let s = s.trim_end_matches('=');
    let mut out = Vec::with_capacity(s.len() * 3 / 4);
    let mut acc = 0u32;
    let mut bits = 0;
    for b in s.bytes() {
        let v = al.iter().position(|x| *x == b)? as u32;
        acc = (acc << 6) | v;
        bits += 6;
        if bits >= 8 {
            bits -= 8;
            out.push((acc >> bits) as u8);
            acc &= (1 << bits) - 1;
        }
    }
    Some(out)
}

#[cfg(test)]
mod tests {
    #[test]
    fn vectors() {
        let h = super::sha256(b"abc");
        assert_eq!(super::b64(&h, false), "ungWv48Bz+pBQUDeXa4iI7ADYaOWF3qctBD/YfIAFa0");
        assert_eq!(super::sha256(b"")[0], 0xe3);
        assert_eq!(super::b64_decode("ungWv48Bz+pBQUDeXa4iI7ADYaOWF3qctBD/YfIAFa0", false).unwrap(), h.to_vec());
    }
}
