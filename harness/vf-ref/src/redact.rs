//! Reference redaction algorithm, transcribed from the "Redactions" sections of the room version
//! specifications (v1, and the changes listed for v6, v8, v9 and v11).

use std::collections::BTreeMap;

use crate::cjson::V;

/// Top-level keys an event keeps when redacted in room version `v` (1..=11).
pub fn top_level_kept(v: u8, key: &str) -> bool {
    match key {
        "event_id" | "type" | "room_id" | "sender" | "state_key" | "content" | "hashes" | "signatures" | "depth" | "prev_events" | "auth_events" | "origin_server_ts" => true,
        // v11: "the top-level origin, membership, and prev_state properties are no longer protected"
        "origin" | "membership" | "prev_state" => v < 11,
        _ => false,
    }
}

/// Content keys kept for event type `ty` in room version `v`. `third_party_invite` of member
/// events (v11) is handled separately because only its `signed` member survives.
pub fn content_kept(v: u8, ty: &str, key: &str) -> bool {
    match ty {
        "m.room.member" => key == "membership" || (key == "join_authorised_via_users_server" && v >= 9),
        // v11: "m.room.create now keeps the entire content"
        "m.room.create" => v >= 11 || key == "creator",
        // v8: join_rules keeps allow
        "m.room.join_rules" => key == "join_rule" || (key == "allow" && v >= 8),
        "m.room.power_levels" => matches!(key, "ban" | "events" | "events_default" | "kick" | "redact" | "state_default" | "users" | "users_default") || (key == "invite" && v >= 11),
        // v6: aliases no longer special
        "m.room.aliases" => key == "aliases" && v < 6,
        "m.room.history_visibility" => key == "history_visibility",
        // v11: redaction keeps redacts in content
        "m.room.redaction" => key == "redacts" && v >= 11,
        _ => false,
    }
}

#[derive(Debug, Clone, PartialEq, Eq)]
pub enum RedactError {
    /// `type` missing or not a string, or `content` present but not an object.
    Malformed,
}

/// Outcome: the redacted object, plus whether the unspecified corner "v11 member event whose
/// `third_party_invite` has no `signed`" was met (then `third_party_invite` may be absent or `{}`).
pub struct Redacted {
    pub event: BTreeMap<String, V>,
    pub tpi_without_signed: bool,
    /// v11 member event whose third_party_invite is not an object (malformed: error or drop)
    pub tpi_not_object: bool,
}

pub fn redact_content(v: u8, ty: &str, content: &BTreeMap<String, V>) -> (BTreeMap<String, V>, bool, bool) {
    let mut out = BTreeMap::new();
    let (mut without_signed, mut not_object) = (false, false);
    for (k, val) in content {
        if ty == "m.room.member" && k == "third_party_invite" && v >= 11 {
            match val {
                V::Obj(tpi) => match tpi.get("signed") {
                    Some(s) => {
                        out.insert(k.clone(), V::Obj([("signed".to_owned(), s.clone())].into_iter().collect()));
                    }
                    None => without_signed = true,
                },
                _ => not_object = true,
            }
        } else if content_kept(v, ty, k) {
            out.insert(k.clone(), val.clone());
        }
    }
    (out, without_signed, not_object)
}

pub fn redact(v: u8, event: &BTreeMap<String, V>) -> Result<Redacted, RedactError> {
    let ty = match event.get("type") {
        Some(V::Str(t)) => t.as_str(),
        _ => return Err(RedactError::Malformed),
    };
    let mut out = BTreeMap::new();
    let (mut without_signed, mut not_object) = (false, false);
    for (k, val) in event {
        if !top_level_kept(v, k) {
            continue;
        }
        if k == "content" {
            match val {
                V::Obj(c) => {
                    let (c2, a, b) = redact_content(v, ty, c);
                    without_signed = a;
                    not_object = b;
                    out.insert(k.clone(), V::Obj(c2));
                }
                _ => return Err(RedactError::Malformed),
            }
        } else {
            out.insert(k.clone(), val.clone());
        }
    }
    Ok(Redacted { event: out, tpi_without_signed: without_signed, tpi_not_object: not_object })
}

pub const SPECIAL_TYPES: [&str; 7] = ["m.room.member", "m.room.create", "m.room.join_rules", "m.room.power_levels", "m.room.aliases", "m.room.history_visibility", "m.room.redaction"];

/// Every top-level key any room version's redaction text mentions, plus common unprotected ones.
pub const TOP_KEYS: [&str; 20] = [
    "event_id", "type", "room_id", "sender", "state_key", "content", "hashes", "signatures", "depth", "prev_events", "prev_state", "auth_events", "origin", "origin_server_ts",
    "membership", "unsigned", "redacts", "age_ts", "x_unspecified", "zz_unspecified",
];

/// Every content key any version mentions for any special type, plus ordinary and unspecified ones.
pub const CONTENT_KEYS: [&str; 32] = [
    "membership", "join_authorised_via_users_server", "third_party_invite", "displayname", "avatar_url", "reason", "is_direct", "creator", "room_version", "m.federate",
    "predecessor", "type", "join_rule", "allow", "ban", "events", "events_default", "invite", "kick", "redact", "state_default", "users", "users_default", "notifications",
    "aliases", "history_visibility", "redacts", "body", "msgtype", "signed", "x_unspecified", "zz_unspecified",
];
