//! Grammar-derived generators and reference predicates for Matrix identifiers
//! (spec appendix "Identifier Grammar"). No ruma code is used here.

use std::net::{Ipv4Addr, Ipv6Addr};

use proptest::prelude::*;

/// DNS-ish host name: labels of [A-Za-z0-9-], joined by '.'.
pub fn dns_name() -> impl Strategy<Value = String> {
    prop::collection::vec("[a-z0-9]([a-zA-Z0-9-]{0,8}[a-z0-9])?", 1..4).prop_map(|l| l.join("."))
}

pub fn ipv4() -> impl Strategy<Value = String> {
    any::<[u8; 4]>().prop_map(|b| Ipv4Addr::from(b).to_string())
}

pub fn ipv6_bracketed() -> impl Strategy<Value = String> {
    prop_oneof![
        any::<[u16; 8]>().prop_map(|s| Ipv6Addr::from(s)),
        // sparse addresses exercise the `::` compression and embedded IPv4 forms
        (any::<u16>(), any::<u16>(), 0u8..8).prop_map(|(a, b, pos)| {
            let mut s = [0u16; 8];
            s[pos as usize] = a;
            s[7] = b;
            Ipv6Addr::from(s)
        }),
        any::<[u8; 4]>().prop_map(|b| Ipv4Addr::from(b).to_ipv6_mapped()),
        Just(Ipv6Addr::UNSPECIFIED),
        Just(Ipv6Addr::LOCALHOST),
    ]
    .prop_map(|a| format!("[{a}]"))
}

/// Port text: 1 to 5 ASCII digits, value <= 65535, optionally with leading zeros.
pub fn port_text() -> impl Strategy<Value = String> {
    (prop_oneof![0u32..=65535, Just(0u32), Just(80), Just(8448), Just(65535)], 1usize..=5).prop_map(|(v, w)| {
        let s = v.to_string();
        if s.len() >= w {
            s
        } else {
            format!("{v:0w$}")
        }
    })
}

pub fn host() -> impl Strategy<Value = String> {
    prop_oneof![5 => dns_name(), 1 => ipv4(), 2 => ipv6_bracketed()]
}

/// Server name in the spec grammar (sufficient grammar S).
pub fn server_name() -> impl Strategy<Value = String> {
    (host(), prop::option::weighted(0.4, port_text())).prop_map(|(h, p)| match p {
        Some(p) => format!("{h}:{p}"),
        None => h,
    })
}

/// Current-grammar user localpart.
pub fn user_localpart_strict() -> impl Strategy<Value = String> {
    "[a-z0-9._=/+-]{1,12}"
}
/// Historical user localpart: printable ASCII without ':'.
pub fn user_localpart_historical() -> impl Strategy<Value = String> {
    "[!-9;-~]{1,12}"
}
/// Opaque localpart for room ids / aliases / v1 event ids: anything without ':' and NUL.
pub fn opaque_localpart() -> impl Strategy<Value = String> {
    prop_oneof![
        3 => "[a-zA-Z0-9]{1,18}",
        2 => "[!-9;-~]{1,12}",
        1 => "[a-z%/?#+&= é\u{1F600}\u{0080}\u{07FF}]{1,8}",
    ]
}

pub fn user_id() -> impl Strategy<Value = String> {
    (prop_oneof![3 => user_localpart_strict().boxed(), 1 => user_localpart_historical().boxed()], server_name()).prop_map(|(l, s)| format!("@{l}:{s}"))
}
pub fn room_id() -> impl Strategy<Value = String> {
    (opaque_localpart(), server_name()).prop_map(|(l, s)| format!("!{l}:{s}"))
}
pub fn room_alias_id() -> impl Strategy<Value = String> {
    (opaque_localpart(), server_name()).prop_map(|(l, s)| format!("#{l}:{s}"))
}
pub fn event_id_v1() -> impl Strategy<Value = String> {
    (opaque_localpart(), server_name()).prop_map(|(l, s)| format!("${l}:{s}"))
}
/// Hash-form event id (room version 3: standard base64 alphabet, 4+: URL-safe), 43 chars.
pub fn event_id_hash() -> impl Strategy<Value = String> {
    prop_oneof!["[A-Za-z0-9+/]{43}", "[A-Za-z0-9_-]{43}"].prop_map(|h| format!("${h}"))
}
pub fn event_id() -> impl Strategy<Value = String> {
    prop_oneof![event_id_v1(), event_id_hash()]
}
pub fn mxc_uri() -> impl Strategy<Value = String> {
    (server_name(), "[A-Za-z0-9_-]{1,24}").prop_map(|(s, m)| format!("mxc://{s}/{m}"))
}

// ---------------------------------------------------------------------------------------------
// Reference predicates.

#[derive(Debug, Clone, Copy, PartialEq, Eq)]
pub enum Verdict {
    /// The string is outside the necessary structure: must be rejected.
    MustReject,
    /// The string is in the recommended grammar: must be accepted.
    MustAccept,
    /// Between the two: not asserted.
    Unasserted,
}

/// Splits `host[:port]`, returning (host, Option<port text>) or None when the structure is
/// impossible (no closing bracket, junk after the host).
fn split_server_name(s: &str) -> Option<(&str, Option<&str>)> {
    let end = if s.starts_with('[') { s.find(']')? + 1 } else { s.find(':').unwrap_or(s.len()) };
    let host = &s[..end];
    let rest = &s[end..];
    if rest.is_empty() {
        Some((host, None))
    } else {
        Some((host, Some(rest.strip_prefix(':')?)))
    }
}

fn host_ok(h: &str) -> bool {
    if let Some(inner) = h.strip_prefix('[') {
        match inner.strip_suffix(']') {
            Some(a) => a.parse::<Ipv6Addr>().is_ok(),
            None => false,
        }
    } else {
        !h.is_empty() && h.bytes().all(|b| b.is_ascii_alphanumeric() || b == b'-' || b == b'.')
    }
}

/// Necessary: non-empty hostname / IPv4 / bracketed IPv6 and optional port of 1-5 digits.
/// Sufficient: additionally the port value fits 16 bits.
pub fn server_name_verdict(s: &str) -> Verdict {
    let Some((host, port)) = split_server_name(s) else { return Verdict::MustReject };
    if !host_ok(host) {
        return Verdict::MustReject;
    }
    match port {
        None => Verdict::MustAccept,
        Some(p) => {
            if p.is_empty() || p.len() > 5 || !p.bytes().all(|b| b.is_ascii_digit()) {
                Verdict::MustReject
            } else if p.parse::<u32>().map(|v| v <= 65535).unwrap_or(false) {
                Verdict::MustAccept
            } else {
                Verdict::Unasserted
            }
        }
    }
}

/// Expected `(host, port)` decomposition of an accepted server name.
pub fn server_name_parts(s: &str) -> Option<(&str, Option<u32>)> {
    let (h, p) = split_server_name(s)?;
    Some((h, match p {
        Some(p) => Some(p.parse::<u32>().ok()?),
        None => None,
    }))
}

fn and(a: Verdict, b: Verdict) -> Verdict {
    use Verdict::*;
    match (a, b) {
        (MustReject, _) | (_, MustReject) => MustReject,
        (MustAccept, MustAccept) => MustAccept,
        _ => Unasserted,
    }
}

/// `<sigil>localpart:server` with the generic rules: <= 255 bytes, sigil, a colon, no NUL and
/// no colon in the localpart (the localpart ends at the first colon by definition).
pub fn delimited_id_verdict(s: &str, sigil: char, require_nonempty_localpart_for_accept: bool) -> Verdict {
    if s.len() > 255 || !s.starts_with(sigil) {
        return Verdict::MustReject;
    }
    let Some(colon) = s.find(':') else { return Verdict::MustReject };
    let local = &s[1..colon];
    if local.contains('\0') {
        return Verdict::MustReject;
    }
    let v = server_name_verdict(&s[colon + 1..]);
    if local.is_empty() && require_nonempty_localpart_for_accept {
        and(v, Verdict::Unasserted)
    } else {
        v
    }
}

pub fn user_id_verdict(s: &str) -> Verdict {
    delimited_id_verdict(s, '@', true)
}
pub fn room_alias_id_verdict(s: &str) -> Verdict {
    delimited_id_verdict(s, '#', true)
}
/// Room ids: sigil, <= 255 bytes, no NUL are necessary. `!opaque:server` is sufficient. Room
/// ids without a server part are documented as accepted by ruma and not asserted here.
pub fn room_id_verdict(s: &str) -> Verdict {
    if s.len() > 255 || !s.starts_with('!') || s.contains('\0') {
        return Verdict::MustReject;
    }
    match s.find(':') {
        Some(c) if c > 1 => match server_name_verdict(&s[c + 1..]) {
            Verdict::MustAccept => Verdict::MustAccept,
            _ => Verdict::Unasserted,
        },
        _ => Verdict::Unasserted,
    }
}
/// Event ids: sigil and <= 255 bytes necessary; the v1 form needs a valid server name after
/// the first colon; `$` + 43 base64 characters is the hash form.
pub fn event_id_verdict(s: &str) -> Verdict {
    if s.len() > 255 || !s.starts_with('$') {
        return Verdict::MustReject;
    }
    match s.find(':') {
        Some(c) => {
            let v = server_name_verdict(&s[c + 1..]);
            if c == 1 {
                and(v, Verdict::Unasserted)
            } else {
                v
            }
        }
        None => {
            let h = &s[1..];
            if h.len() == 43 && (h.bytes().all(|b| b.is_ascii_alphanumeric() || b == b'+' || b == b'/') || h.bytes().all(|b| b.is_ascii_alphanumeric() || b == b'-' || b == b'_')) {
                Verdict::MustAccept
            } else {
                Verdict::Unasserted
            }
        }
    }
}
pub fn room_or_alias_id_verdict(s: &str) -> Verdict {
    if s.starts_with('#') {
        room_alias_id_verdict(s)
    } else if s.starts_with('!') {
        room_id_verdict(s)
    } else {
        Verdict::MustReject
    }
}

/// mxc://server/media: (server verdict) and media id of [A-Za-z0-9_-]. An empty media id and a
/// server name of 250+ bytes (ruma stores the slash index in a u8; the spec states no bound) are
/// not asserted.
pub fn mxc_verdict(s: &str) -> Verdict {
    let Some(rest) = s.strip_prefix("mxc://") else { return Verdict::MustReject };
    let Some(slash) = rest.find('/') else { return Verdict::MustReject };
    let (server, media) = (&rest[..slash], &rest[slash + 1..]);
    if !media.bytes().all(|b| b.is_ascii_alphanumeric() || b == b'-' || b == b'_') {
        return Verdict::MustReject;
    }
    let v = server_name_verdict(server);
    if media.is_empty() || server.len() > 249 {
        and(v, Verdict::Unasserted)
    } else {
        v
    }
}
