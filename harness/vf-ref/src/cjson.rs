//! Reference model of Matrix canonical JSON (spec appendix "Canonical JSON"), written from the
//! specification text: value model with ordered containers, encoder (code-point key sort, minimal
//! escapes, integers only), and a generator that produces a value together with one arbitrary
//! *spelling* of it as JSON text.

use std::collections::BTreeMap;

use proptest::prelude::*;
use serde::{Deserialize, Serialize};

pub const MAX_INT: i64 = (1 << 53) - 1;
pub const MIN_INT: i64 = -MAX_INT;

/// Reference JSON value (integers only). Objects are ordered maps keyed by String, whose `Ord`
/// is byte-wise UTF-8 order == Unicode code point order.
#[derive(Clone, Debug, PartialEq, Eq, Serialize, Deserialize)]
pub enum V {
    Null,
    Bool(bool),
    Int(i64),
    Str(String),
    Arr(Vec<V>),
    Obj(BTreeMap<String, V>),
}

impl V {
    pub fn obj(&self) -> Option<&BTreeMap<String, V>> {
        match self {
            V::Obj(m) => Some(m),
            _ => None,
        }
    }
    pub fn obj_mut(&mut self) -> Option<&mut BTreeMap<String, V>> {
        match self {
            V::Obj(m) => Some(m),
            _ => None,
        }
    }
    pub fn as_str(&self) -> Option<&str> {
        match self {
            V::Str(s) => Some(s),
            _ => None,
        }
    }
    pub fn as_int(&self) -> Option<i64> {
        match self {
            V::Int(i) => Some(*i),
            _ => None,
        }
    }
    pub fn get(&self, k: &str) -> Option<&V> {
        self.obj().and_then(|m| m.get(k))
    }
    /// Whether every integer is inside the canonical range.
    pub fn representable(&self) -> bool {
        match self {
            V::Int(i) => (MIN_INT..=MAX_INT).contains(i),
            V::Arr(a) => a.iter().all(V::representable),
            V::Obj(m) => m.values().all(V::representable),
            _ => true,
        }
    }
    pub fn depth(&self) -> usize {
        match self {
            V::Arr(a) => 1 + a.iter().map(V::depth).max().unwrap_or(0),
            V::Obj(m) => 1 + m.values().map(V::depth).max().unwrap_or(0),
            _ => 0,
        }
    }
    pub fn from_serde(v: &serde_json::Value) -> Option<V> {
        Some(match v {
            serde_json::Value::Null => V::Null,
            serde_json::Value::Bool(b) => V::Bool(*b),
            serde_json::Value::Number(n) => V::Int(n.as_i64()?),
            serde_json::Value::String(s) => V::Str(s.clone()),
            serde_json::Value::Array(a) => V::Arr(a.iter().map(V::from_serde).collect::<Option<_>>()?),
            serde_json::Value::Object(m) => V::Obj(m.iter().map(|(k, v)| Some((k.clone(), V::from_serde(v)?))).collect::<Option<_>>()?),
        })
    }
    pub fn to_serde(&self) -> serde_json::Value {
        match self {
            V::Null => serde_json::Value::Null,
            V::Bool(b) => serde_json::Value::Bool(*b),
            V::Int(i) => serde_json::Value::Number((*i).into()),
            V::Str(s) => serde_json::Value::String(s.clone()),
            V::Arr(a) => serde_json::Value::Array(a.iter().map(V::to_serde).collect()),
            V::Obj(m) => serde_json::Value::Object(m.iter().map(|(k, v)| (k.clone(), v.to_serde())).collect()),
        }
    }
}

/// Canonical string encoding: `"`, `\` and C0 controls escaped, everything else raw UTF-8.
pub fn canon_str(s: &str, out: &mut Vec<u8>) {
    out.push(b'"');
    for c in s.chars() {
        match c {
            '"' => out.extend_from_slice(b"\\\""),
            '\\' => out.extend_from_slice(b"\\\\"),
            '\u{08}' => out.extend_from_slice(b"\\b"),
            '\u{0c}' => out.extend_from_slice(b"\\f"),
            '\n' => out.extend_from_slice(b"\\n"),
            '\r' => out.extend_from_slice(b"\\r"),
            '\t' => out.extend_from_slice(b"\\t"),
            c if (c as u32) < 0x20 => out.extend_from_slice(format!("\\u{:04x}", c as u32).as_bytes()),
            c => {
                let mut b = [0u8; 4];
                out.extend_from_slice(c.encode_utf8(&mut b).as_bytes());
            }
        }
    }
    out.push(b'"');
}

/// The canonical JSON bytes of a value (precondition: `v.representable()`).
pub fn canon(v: &V) -> Vec<u8> {
    let mut out = Vec::new();
    canon_into(v, &mut out);
    out
}

pub fn canon_into(v: &V, out: &mut Vec<u8>) {
    match v {
        V::Null => out.extend_from_slice(b"null"),
        V::Bool(true) => out.extend_from_slice(b"true"),
        V::Bool(false) => out.extend_from_slice(b"false"),
        V::Int(i) => out.extend_from_slice(i.to_string().as_bytes()),
        V::Str(s) => canon_str(s, out),
        V::Arr(a) => {
            out.push(b'[');
            for (i, x) in a.iter().enumerate() {
                if i > 0 {
                    out.push(b',');
                }
                canon_into(x, out);
            }
            out.push(b']');
        }
        V::Obj(m) => {
            // BTreeMap<String, _> iterates in byte order of the UTF-8 keys == code point order
            out.push(b'{');
            for (i, (k, x)) in m.iter().enumerate() {
                if i > 0 {
                    out.push(b',');
                }
                canon_str(k, out);
                out.push(b':');
                canon_into(x, out);
            }
            out.push(b'}');
        }
    }
}

/// `canon` of an object without the given top-level keys.
pub fn canon_without(obj: &BTreeMap<String, V>, drop: &[&str]) -> Vec<u8> {
    let m: BTreeMap<String, V> = obj.iter().filter(|(k, _)| !drop.contains(&k.as_str())).map(|(k, v)| (k.clone(), v.clone())).collect();
    canon(&V::Obj(m))
}

// ---------------------------------------------------------------------------------------------
// Spelled values: a value together with one concrete JSON text for it.

/// One character with the way it is written in the text:
/// 0 raw (if legal), 1 `\uXXXX` lower-case hex, 2 `\uXXXX` upper-case hex, 3 short escape
/// (`\n`, `\"`, `\/` ...) if one exists. Inapplicable styles fall back to a legal one.
pub type SChar = (char, u8);

#[derive(Clone, Debug, Serialize, Deserialize)]
pub enum S {
    Null,
    Bool(bool),
    /// integer or other number text, written verbatim
    Num(String),
    Str(Vec<SChar>),
    Arr(Vec<S>, u8),
    /// entries in textual order; duplicate keys allowed (the last occurrence carries the value)
    Obj(Vec<(Vec<SChar>, S)>, u8),
}

fn ws(seed: u8, slot: usize) -> &'static str {
    const W: [&str; 8] = ["", "", "", " ", "\n", "\t ", "\r\n", "  "];
    W[((seed as usize).wrapping_mul(31).wrapping_add(slot * 7)) % 8]
}

fn spell_str(cs: &[SChar], out: &mut String) {
    out.push('"');
    for (c, style) in cs {
        let cp = *c as u32;
        let must_escape = cp < 0x20 || *c == '"' || *c == '\\';
        let short = match c {
            '"' => Some("\\\""),
            '\\' => Some("\\\\"),
            '/' => Some("\\/"),
            '\u{08}' => Some("\\b"),
            '\u{0c}' => Some("\\f"),
            '\n' => Some("\\n"),
            '\r' => Some("\\r"),
            '\t' => Some("\\t"),
            _ => None,
        };
        let hex = |upper: bool, out: &mut String| {
            let mut units = [0u16; 2];
            for u in c.encode_utf16(&mut units) {
                if upper {
                    out.push_str(&format!("\\u{:04X}", u));
                } else {
                    out.push_str(&format!("\\u{:04x}", u));
                }
            }
        };
        let st = style % 4;
        if st == 0 && !must_escape {
            out.push(*c);
        } else if (st == 3 || st == 0) && short.is_some() {
            out.push_str(short.unwrap());
        } else if st == 2 {
            hex(true, out);
        } else if st == 1 || must_escape {
            hex(false, out);
        } else {
            out.push(*c);
        }
    }
    out.push('"');
}

impl S {
    /// The JSON text this spelling denotes.
    pub fn text(&self) -> String {
        let mut out = String::new();
        self.write(&mut out);
        out
    }
    fn write(&self, out: &mut String) {
        match self {
            S::Null => out.push_str("null"),
            S::Bool(b) => out.push_str(if *b { "true" } else { "false" }),
            S::Num(t) => out.push_str(t),
            S::Str(cs) => spell_str(cs, out),
            S::Arr(items, seed) => {
                out.push('[');
                out.push_str(ws(*seed, 0));
                for (i, x) in items.iter().enumerate() {
                    if i > 0 {
                        out.push(',');
                        out.push_str(ws(*seed, i * 2));
                    }
                    x.write(out);
                    out.push_str(ws(*seed, i * 2 + 1));
                }
                out.push(']');
            }
            S::Obj(entries, seed) => {
                out.push('{');
                out.push_str(ws(*seed, 0));
                for (i, (k, x)) in entries.iter().enumerate() {
                    if i > 0 {
                        out.push(',');
                        out.push_str(ws(*seed, i * 3));
                    }
                    spell_str(k, out);
                    out.push_str(ws(*seed, i * 3 + 1));
                    out.push(':');
                    out.push_str(ws(*seed, i * 3 + 2));
                    x.write(out);
                    out.push_str(ws(*seed, i * 3 + 3));
                }
                out.push('}');
            }
        }
    }
    /// The value denoted, `None` if some number is not an integer literal that fits i64/u64
    /// semantics of canonical JSON (fractions, exponents, negative zero, out of i64 range).
    pub fn value(&self) -> Option<V> {
        Some(match self {
            S::Null => V::Null,
            S::Bool(b) => V::Bool(*b),
            S::Num(t) => V::Int(int_literal(t)?),
            S::Str(cs) => V::Str(cs.iter().map(|c| c.0).collect()),
            S::Arr(items, _) => V::Arr(items.iter().map(S::value).collect::<Option<_>>()?),
            S::Obj(entries, _) => {
                let mut m = BTreeMap::new();
                for (k, x) in entries {
                    // last occurrence wins
                    m.insert(k.iter().map(|c| c.0).collect::<String>(), x.value()?);
                }
                V::Obj(m)
            }
        })
    }
    pub fn has_dup_keys(&self) -> bool {
        match self {
            S::Arr(items, _) => items.iter().any(S::has_dup_keys),
            S::Obj(entries, _) => {
                let mut seen = std::collections::BTreeSet::new();
                entries.iter().any(|(k, x)| !seen.insert(k.iter().map(|c| c.0).collect::<String>()) || x.has_dup_keys())
            }
            _ => false,
        }
    }
    /// Some object has >= 2 distinct keys whose textual order differs from code point order.
    pub fn has_unsorted_object(&self) -> bool {
        match self {
            S::Arr(items, _) => items.iter().any(S::has_unsorted_object),
            S::Obj(entries, _) => {
                let keys: Vec<String> = entries.iter().map(|(k, _)| k.iter().map(|c| c.0).collect()).collect();
                keys.windows(2).any(|w| w[0] > w[1]) || entries.iter().any(|(_, x)| x.has_unsorted_object())
            }
            _ => false,
        }
    }
    pub fn any_char(&self, f: &dyn Fn(char, u8) -> bool) -> bool {
        match self {
            S::Str(cs) => cs.iter().any(|(c, s)| f(*c, *s)),
            S::Arr(items, _) => items.iter().any(|x| x.any_char(f)),
            S::Obj(entries, _) => entries.iter().any(|(k, x)| k.iter().any(|(c, s)| f(*c, *s)) || x.any_char(f)),
            _ => false,
        }
    }
    pub fn any_key_char(&self, f: &dyn Fn(char) -> bool) -> bool {
        match self {
            S::Arr(items, _) => items.iter().any(|x| x.any_key_char(f)),
            S::Obj(entries, _) => entries.iter().any(|(k, x)| k.iter().any(|(c, _)| f(*c)) || x.any_key_char(f)),
            _ => false,
        }
    }
    pub fn any_num(&self, f: &dyn Fn(&str) -> bool) -> bool {
        match self {
            S::Num(t) => f(t),
            S::Arr(items, _) => items.iter().any(|x| x.any_num(f)),
            S::Obj(entries, _) => entries.iter().any(|(_, x)| x.any_num(f)),
            _ => false,
        }
    }
    /// A different spelling of the same value: key order reversed/rotated, escapes re-styled,
    /// whitespace re-seeded, duplicates collapsed or introduced.
    pub fn respell(&self, salt: u8) -> S {
        match self {
            S::Str(cs) => S::Str(cs.iter().enumerate().map(|(i, (c, s))| (*c, s.wrapping_add(salt).wrapping_add(i as u8))).collect()),
            S::Arr(items, seed) => S::Arr(items.iter().map(|x| x.respell(salt.wrapping_add(1))).collect(), seed.wrapping_add(salt)),
            S::Obj(entries, seed) => {
                // collapse duplicates to the last occurrence, then permute
                let mut last: Vec<(Vec<SChar>, S)> = vec![];
                for (k, x) in entries {
                    let ks: String = k.iter().map(|c| c.0).collect();
                    last.retain(|(k2, _)| k2.iter().map(|c| c.0).collect::<String>() != ks);
                    last.push((k.clone(), x.clone()));
                }
                let mut out: Vec<(Vec<SChar>, S)> = last
                    .iter()
                    .map(|(k, x)| (k.iter().enumerate().map(|(i, (c, s))| (*c, s.wrapping_add(salt).wrapping_add(i as u8))).collect(), x.respell(salt.wrapping_add(1))))
                    .collect();
                if salt % 2 == 0 {
                    out.reverse();
                } else if !out.is_empty() {
                    let r = (salt as usize) % out.len();
                    out.rotate_left(r);
                }
                if salt % 3 == 0 && !out.is_empty() {
                    // introduce a shadowed duplicate in front
                    let (k, _) = out[out.len() - 1].clone();
                    out.insert(0, (k, S::Num("7".into())));
                }
                S::Obj(out, seed.wrapping_add(salt))
            }
            other => other.clone(),
        }
    }
}

/// Integer literal per the JSON grammar: `-`? (0 | [1-9][0-9]*), without fraction/exponent,
/// not negative zero, fitting i64.
pub fn int_literal(t: &str) -> Option<i64> {
    let digits = t.strip_prefix('-').unwrap_or(t);
    if digits.is_empty() || !digits.bytes().all(|b| b.is_ascii_digit()) || (digits.len() > 1 && digits.starts_with('0')) {
        return None;
    }
    if t == "-0" {
        return None;
    }
    t.parse::<i64>().ok()
}

// --- strategies --------------------------------------------------------------------------------

pub fn any_char_weighted() -> impl Strategy<Value = char> {
    prop_oneof![
        8 => proptest::char::range('a', 'z'),
        2 => proptest::char::range('A', 'Z'),
        2 => proptest::char::range('0', '9'),
        3 => proptest::char::range('\u{0}', '\u{1f}'),
        3 => prop_oneof![Just('"'), Just('\\'), Just('/'), Just('\u{7f}'), Just(' '), Just('.'), Just('_')],
        2 => proptest::char::range('\u{80}', '\u{7ff}'),
        2 => prop_oneof![Just('\u{2028}'), Just('\u{2029}'), Just('\u{fffd}'), Just('\u{ffff}'), Just('\u{d7ff}'), Just('\u{e000}'), Just('日'), Just('本')],
        1 => proptest::char::range('\u{800}', '\u{d7ff}'),
        1 => proptest::char::range('\u{e000}', '\u{ffff}'),
        2 => proptest::char::range('\u{10000}', '\u{10ffff}'),
    ]
}

pub fn schars(max: usize) -> impl Strategy<Value = Vec<SChar>> {
    prop::collection::vec((any_char_weighted(), 0u8..4), 0..=max)
}

/// Integer texts inside the canonical range, with a boundary class.
pub fn int_in_range() -> impl Strategy<Value = i64> {
    prop_oneof![
        6 => -1000i64..1000,
        2 => MIN_INT..=MAX_INT,
        2 => prop_oneof![Just(MAX_INT), Just(MIN_INT), Just(MAX_INT - 1), Just(MIN_INT + 1), Just(0i64), Just(-1i64), Just(i64::from(i32::MAX)) , Just(i64::from(i32::MIN) - 1), Just(4294967296i64)],
    ]
}

/// Number texts that canonical JSON cannot represent.
pub fn unrepresentable_num() -> impl Strategy<Value = String> {
    prop_oneof![
        Just("1.0".to_owned()),
        Just("1.5".to_owned()),
        Just("0.0".to_owned()),
        Just("1e2".to_owned()),
        Just("1E0".to_owned()),
        Just("1e-2".to_owned()),
        Just("-0".to_owned()),
        Just("-0.0".to_owned()),
        Just("-0e0".to_owned()),
        Just("9007199254740992".to_owned()),
        Just("-9007199254740992".to_owned()),
        Just("9007199254740993".to_owned()),
        Just("-9007199254740993".to_owned()),
        Just("9223372036854775807".to_owned()),
        Just("-9223372036854775808".to_owned()),
        Just("9223372036854775808".to_owned()),
        Just("18446744073709551615".to_owned()),
        Just("18446744073709551616".to_owned()),
        Just("-9223372036854775809".to_owned()),
        Just("1e400".to_owned()),
        Just("123456789012345678901234567890".to_owned()),
        (MAX_INT + 1..=i64::MAX).prop_map(|i| i.to_string()),
        (i64::MIN..MIN_INT).prop_map(|i| i.to_string()),
        (-1000i64..1000, 1u32..1000).prop_map(|(a, b)| format!("{a}.{b}")),
        (1i64..1000, 0u32..5).prop_map(|(a, b)| format!("{a}e{b}")),
    ]
}

/// Spelled JSON documents whose value is representable (root may be any JSON value).
pub fn spelled(depth: u32, key_len: usize, allow_dups: bool) -> impl Strategy<Value = S> {
    let leaf = prop_oneof![
        1 => Just(S::Null),
        1 => any::<bool>().prop_map(S::Bool),
        3 => int_in_range().prop_map(|i| S::Num(i.to_string())),
        3 => schars(8).prop_map(S::Str),
    ];
    leaf.prop_recursive(depth, 40, 6, move |inner| {
        prop_oneof![
            1 => (prop::collection::vec(inner.clone(), 0..5), any::<u8>()).prop_map(|(v, s)| S::Arr(v, s)),
            3 => (prop::collection::vec((schars(key_len), inner.clone()), 0..6), any::<u8>(), prop::collection::vec((any::<u16>(), any::<u16>()), 0..2)).prop_map(move |(mut entries, seed, dups)| {
                // make keys unique first (keep first), then optionally add duplicates at chosen positions
                let mut seen = std::collections::BTreeSet::new();
                entries.retain(|(k, _)| seen.insert(k.iter().map(|c| c.0).collect::<String>()));
                if allow_dups && !entries.is_empty() {
                    for (a, b) in dups {
                        let src = vf_engine::pick_idx(a, entries.len());
                        let at = vf_engine::pick_idx(b, entries.len() + 1);
                        let (k, _) = entries[src].clone();
                        // re-style the duplicate key's escapes so that it is spelled differently
                        let k2: Vec<SChar> = k.iter().map(|(c, s)| (*c, s.wrapping_add(1))).collect();
                        entries.insert(at, (k2, S::Num((a as i64 % 100).to_string())));
                    }
                }
                S::Obj(entries, seed)
            }),
        ]
    })
}

/// Spelled objects (root is an object).
pub fn spelled_object(depth: u32, allow_dups: bool) -> impl Strategy<Value = S> {
    (prop::collection::vec((schars(6), spelled(depth, 6, allow_dups)), 0..7), any::<u8>(), prop::collection::vec((any::<u16>(), any::<u16>()), 0..2)).prop_map(move |(mut entries, seed, dups)| {
        let mut seen = std::collections::BTreeSet::new();
        entries.retain(|(k, _)| seen.insert(k.iter().map(|c| c.0).collect::<String>()));
        if allow_dups && !entries.is_empty() {
            for (a, b) in dups {
                let src = vf_engine::pick_idx(a, entries.len());
                let at = vf_engine::pick_idx(b, entries.len() + 1);
                let (k, _) = entries[src].clone();
                let k2: Vec<SChar> = k.iter().map(|(c, s)| (*c, s.wrapping_add(1))).collect();
                entries.insert(at, (k2, S::Num((a as i64 % 100).to_string())));
            }
        }
        S::Obj(entries, seed)
    })
}

/// Plain random values in canonical range (no spelling).
pub fn value(depth: u32) -> impl Strategy<Value = V> {
    spelled(depth, 6, false).prop_map(|s| s.value().expect("representable by construction"))
}

/// Replaces the `n`-th number leaf (in traversal order, modulo count) by `text`; returns false
/// if there is no number leaf.
pub fn poison_number(s: &mut S, n: usize, text: &str) -> bool {
    fn count(s: &S) -> usize {
        match s {
            S::Num(_) => 1,
            S::Arr(items, _) => items.iter().map(count).sum(),
            S::Obj(entries, _) => entries.iter().map(|(_, x)| count(x)).sum(),
            _ => 0,
        }
    }
    fn set(s: &mut S, n: &mut usize, text: &str) -> bool {
        match s {
            S::Num(t) => {
                if *n == 0 {
                    *t = text.to_owned();
                    return true;
                }
                *n -= 1;
                false
            }
            S::Arr(items, _) => items.iter_mut().any(|x| set(x, n, text)),
            S::Obj(entries, _) => entries.iter_mut().any(|(_, x)| set(x, n, text)),
            _ => false,
        }
    }
    let c = count(s);
    if c == 0 {
        return false;
    }
    let mut k = n % c;
    set(s, &mut k, text)
}
