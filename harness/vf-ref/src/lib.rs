pub mod cjson;
pub mod idgen;
