pub mod cjson;
pub mod idgen;
pub mod hash;
pub mod redact;
pub mod pdu;
pub mod respell;
