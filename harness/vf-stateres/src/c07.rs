//! C07 Resolved state equals the spec's state resolution v2 result.

use std::collections::{BTreeMap, BTreeSet, HashMap, HashSet};

use js_int::Int;
use proptest::prelude::*;
use ruma_common::{MilliSecondsSinceUnixEpoch, OwnedEventId};
use ruma_state_res::lexicographical_topological_sort;
use serde::{Deserialize, Serialize};
use vf_engine::{pick_idx, CaseCtx, Check};

use crate::room::{self, history, ref_resolve_traced, ref_resolve_variant, ruma_resolve, History, Room, SMap};

pub fn instance_sets(r: &Room, pick: &[u16]) -> Option<(Vec<String>, Vec<SMap>, Vec<BTreeSet<String>>)> {
    let mut nodes: Vec<String> = vec![];
    for p in pick.iter().take(4) {
        let id = r.order[pick_idx(*p, r.order.len())].clone();
        if !nodes.contains(&id) {
            nodes.push(id);
        }
    }
    if nodes.len() < 2 {
        return None;
    }
    let sets: Vec<SMap> = nodes.iter().map(|n| r.state_after[n].clone()).collect();
    let chains: Vec<BTreeSet<String>> = sets.iter().map(|s| r.auth_chain(s)).collect();
    Some((nodes, sets, chains))
}

fn show(m: &SMap, r: &Room) -> String {
    m.iter().map(|((t, k), id)| format!("{}|{k}={id}({})", t.trim_start_matches("m.room."), r.events[id].content)).collect::<Vec<_>>().join(", ")
}

pub fn oracle(h: &History, cx: &mut CaseCtx) -> Result<(), String> {
    let r = Room::build(h);
    cx.class_if(r.merges > 0, "history_with_merge_event");
    cx.class_if(!h.initial_power_levels, "no_initial_power_levels");
    let mut any_nt = false;
    for pick in &h.picks {
        let Some((nodes, sets, chains)) = instance_sets(&r, pick) else { continue };
        let (want, trace) = ref_resolve_traced(&r, &sets);
        let got = ruma_resolve(&r, &sets, &chains).map_err(|e| format!("resolve returned an error on an honest history: {e}"))?;
        cx.more_evals(1);
        cx.class("instance");
        cx.class_if(trace.conflicted > 0, "conflicted");
        cx.class_if(trace.power_events > 0, "conflicted_power_event");
        cx.class_if(trace.auth_diff_not_in_conflicted, "auth_diff_not_in_conflicted");
        cx.class_if(trace.rejected_in_iterative_auth > 0, "event_rejected_in_iterative_auth");
        cx.class_if(trace.no_pl_ancestor_in_mainline_phase, "no_pl_ancestor_event_in_mainline_phase");
        cx.class_if(trace.tie_pl_ts, "tie_pl_ts");
        let ban_vs_join = sets.iter().any(|s| s.iter().any(|((t, _), id)| t == "m.room.member" && r.events[id].membership() == Some("ban"))) && trace.conflicted > 0;
        cx.class_if(ban_vs_join, "ban_vs_join_race");
        if trace.closure_differs_from_conflicted_path_closure {
            // the spec's "events from the auth chain that are in the full conflicted set" read as
            // the whole chain vs. only through conflicted events (Synapse's reading): not asserted
            cx.class("power_closure_reading_differs_unasserted");
            continue;
        }
        any_nt |= trace.conflicted > 0 && (trace.power_events > 0 || trace.auth_diff_not_in_conflicted);
        if got != want && trace.no_pl_ancestor_in_mainline_phase && got == ref_resolve_variant(&r, &sets, true).0 {
            let witness = serde_json::json!({"version": h.version, "merged_nodes": nodes, "differing_keys": want.keys().filter(|k| want.get(*k) != got.get(*k)).map(|k| format!("{}|{}", k.0, k.1)).collect::<Vec<_>>()});
            if cx.known_finding("mainline_depth_conflation", witness) {
                continue;
            }
        }
        if got != want {
            let diff: Vec<String> = want.keys().chain(got.keys()).collect::<BTreeSet<_>>().into_iter().filter(|k| want.get(*k) != got.get(*k)).map(|k| {
                let d = |m: &SMap| m.get(k).map(|id| format!("{id} {} ts={} by {}", r.events[id].content, r.events[id].ts, r.events[id].sender)).unwrap_or_else(|| "absent".into());
                format!("({}, {:?}): resolve gives {} / the specification gives {}", k.0, k.1, d(&got), d(&want))
            }).collect();
            return Err(format!(
                "room version {} rules, merging the states after {:?}: {} ; conflicted events {}, power events {}, {} ; state sets: {}",
                h.version,
                nodes,
                diff.join(" ; "),
                trace.conflicted,
                trace.power_events,
                if trace.no_pl_ancestor_in_mainline_phase { "an event without power-level ancestor is sorted by mainline" } else { "" },
                sets.iter().map(|s| format!("[{}]", show(s, &r))).collect::<Vec<_>>().join(" | ")
            ));
        }
    }
    cx.nontrivial_if(any_nt);
    Ok(())
}

// ---------------------------------------------------------------------------------------------
// lexicographical_topological_sort directly

#[derive(Serialize, Deserialize, Debug, Clone)]
pub struct SortCase {
    /// node i has edges to (depends on) the listed smaller-or-other nodes; (pl, ts, id rank)
    pub nodes: Vec<(Vec<u8>, i8, u8, u8)>,
}

fn sort_oracle(c: &SortCase, cx: &mut CaseCtx) -> Result<(), String> {
    let n = c.nodes.len();
    if n == 0 {
        return Ok(());
    }
    // ids: rank decides the order of ids; make unique
    let ids: Vec<OwnedEventId> = c.nodes.iter().enumerate().map(|(i, x)| OwnedEventId::try_from(format!("${}{}", (b'a' + x.3 % 6) as char, i)).unwrap()).collect();
    let mut graph: HashMap<OwnedEventId, HashSet<OwnedEventId>> = HashMap::new();
    let mut deps: BTreeMap<usize, BTreeSet<usize>> = BTreeMap::new();
    for (i, x) in c.nodes.iter().enumerate() {
        // edges only to lower indices: acyclic by construction
        let d: BTreeSet<usize> = x.0.iter().map(|j| *j as usize).filter(|j| *j < i).collect();
        graph.insert(ids[i].clone(), d.iter().map(|j| ids[*j].clone()).collect());
        deps.insert(i, d);
    }
    let key: HashMap<OwnedEventId, (Int, MilliSecondsSinceUnixEpoch)> = c.nodes.iter().enumerate().map(|(i, x)| (ids[i].clone(), (Int::from(x.1 as i32), MilliSecondsSinceUnixEpoch(js_int::UInt::from(x.2 as u32))))).collect();
    let got = lexicographical_topological_sort(&graph, |id| Ok(key[id])).map_err(|e| format!("sort failed: {e}"))?;
    // reference: among ready nodes always the greatest power level, then earliest timestamp, then smallest id
    let mut remaining: BTreeSet<usize> = (0..n).collect();
    let mut want: Vec<OwnedEventId> = vec![];
    let mut tie = false;
    while !remaining.is_empty() {
        let ready: Vec<usize> = remaining.iter().copied().filter(|i| deps[i].iter().all(|d| !remaining.contains(d))).collect();
        let best = *ready.iter().min_by_key(|i| (-(c.nodes[**i].1 as i32), c.nodes[**i].2, ids[**i].clone())).unwrap();
        if ready.iter().filter(|i| c.nodes[**i].1 == c.nodes[best].1 && c.nodes[**i].2 == c.nodes[best].2).count() > 1 {
            tie = true;
        }
        remaining.remove(&best);
        want.push(ids[best].clone());
    }
    cx.class_if(tie, "tie_pl_ts");
    cx.class_if(deps.values().any(|d| !d.is_empty()), "has_edges");
    cx.nontrivial_if(n >= 3);
    if got != want {
        return Err(format!("lexicographical_topological_sort gives {:?}, expected {:?}; nodes (deps, pl, ts) {:?}", got, want, c.nodes.iter().map(|x| (&x.0, x.1, x.2)).collect::<Vec<_>>()));
    }
    Ok(())
}

fn sort_space(max_n: usize, shard: u64, nshards: u64) -> impl Iterator<Item = SortCase> {
    // all DAGs on <= max_n nodes (edges to lower indices) x pl in {0,50,100} x ts in {0,1} x id rank in {0,1}
    let mut all = vec![];
    for n in 1..=max_n {
        let edge_slots: Vec<(usize, usize)> = (0..n).flat_map(|i| (0..i).map(move |j| (i, j))).collect();
        let per_node = 3 * 2 * 2;
        let total_keys = (per_node as u64).pow(n as u32);
        for mask in 0u64..(1 << edge_slots.len()) {
            for k in 0..total_keys {
                let mut nodes: Vec<(Vec<u8>, i8, u8, u8)> = (0..n).map(|_| (vec![], 0, 0, 0)).collect();
                for (b, (i, j)) in edge_slots.iter().enumerate() {
                    if mask >> b & 1 == 1 {
                        nodes[*i].0.push(*j as u8);
                    }
                }
                let mut kk = k;
                for node in nodes.iter_mut() {
                    let v = kk % per_node as u64;
                    kk /= per_node as u64;
                    node.1 = [0i8, 50, 100][(v % 3) as usize];
                    node.2 = ((v / 3) % 2) as u8;
                    node.3 = ((v / 6) % 2) as u8;
                }
                all.push(SortCase { nodes });
            }
        }
    }
    all.into_iter().skip(shard as usize).step_by(nshards as usize)
}

pub fn run(ck: &mut Check) {
    ck.rule(
        "G1 (stateful): simulated rooms under the authorization rules of room versions 2-11: a fixed prefix (create, creator join, optional initial power levels, join rules) then up to 40 operations - events by 5 users on 3 servers on any branch head (joins, leaves, invites, kicks, bans, unbans, knocks, user-level, field and events / notifications entry edits, power levels without a whole map, join-rule changes, ordinary state with several state keys), forks and merge events (state before a merge = reference resolution of its parents); only events valid on their own branch are created; timestamps adversarial (tiny domain in a third of histories), event IDs salted so that ID order is independent of creation order. \
         Instances: any 2-4 DAG nodes; state sets = state after each node, auth chains = full recursive auth chain of each set. Oracle: reference implementation of state resolution v2 from the spec text over ordered maps (authorization sub-routine: the reference authorization rules of C08, `refauth`; ruma's auth_check stands in only where the specification leaves a verdict open); resolve(...) must return exactly the reference map. \
         G2: lexicographical_topological_sort on all DAGs up to a node bound x all (power level, timestamp, id order) assignments, against 'always the minimum ready node'. Non-trivial = conflicted set non-empty and (a conflicted power event or non-empty auth difference outside it).",
    );
    ck.assume("instances where 'events of the auth chain inside the full conflicted set' differs between walking the whole chain and walking only through conflicted events (Synapse's reading) are counted, not asserted");
    let n = ck.n(100_000, 1_500_000);
    ck.prop("room_histories", n, || history(40), oracle);
    for (cls, min) in [("instance", 30000), ("conflicted", 20000), ("conflicted_power_event", 10000), ("auth_diff_not_in_conflicted", 5000), ("event_rejected_in_iterative_auth", 2000), ("no_pl_ancestor_event_in_mainline_phase", 1000), ("tie_pl_ts", 5000), ("ban_vs_join_race", 2000), ("history_with_merge_event", 2000)] {
        ck.floor("room_histories", cls, min);
    }
    let max_n = if ck.thorough() { 4 } else { 3 };
    ck.exhaustive("topological_sort_small_dags", true, move |s, n| sort_space(max_n, s, n), sort_oracle);
    let n = ck.n(60_000, 1_000_000);
    ck.prop(
        "topological_sort_random_dags",
        n,
        || prop::collection::vec((prop::collection::vec(0u8..14, 0..4), prop_oneof![Just(0i8), Just(50), Just(100), -5i8..5], 0u8..3, 0u8..6), 1..15).prop_map(|nodes| SortCase { nodes }),
        sort_oracle,
    );
    ck.floor("topological_sort_random_dags", "tie_pl_ts", 1000);
    let _ = room::USERS;
}
