//! Event carrier: one plain-data event used both by the reference models and (through the
//! `Event` trait) by ruma-state-res.

use std::{collections::BTreeMap, sync::Arc};

use ruma_common::{EventId, MilliSecondsSinceUnixEpoch, OwnedEventId, OwnedRoomId, OwnedUserId, RoomId, UserId};
use ruma_events::{StateEventType, TimelineEventType};
use ruma_state_res::Event;
use serde::{Deserialize, Serialize};
use serde_json::{value::RawValue, Value};

/// Plain-data event (what generators produce and replay files store).
#[derive(Clone, Debug, Serialize, Deserialize, PartialEq)]
pub struct Ev {
    pub id: String,
    pub room_id: String,
    pub sender: String,
    pub ts: u64,
    pub ty: String,
    pub state_key: Option<String>,
    pub content: Value,
    pub prev: Vec<String>,
    pub auth: Vec<String>,
    pub redacts: Option<String>,
}

impl Ev {
    pub fn key(&self) -> Option<(String, String)> {
        self.state_key.as_ref().map(|k| (self.ty.clone(), k.clone()))
    }
    pub fn membership(&self) -> Option<&str> {
        self.content.get("membership").and_then(|m| m.as_str())
    }
}

/// The same event in the shape ruma-state-res consumes.
#[derive(Debug)]
pub struct Pdu {
    pub id: OwnedEventId,
    room_id: OwnedRoomId,
    sender: OwnedUserId,
    ts: MilliSecondsSinceUnixEpoch,
    ty: TimelineEventType,
    content: Box<RawValue>,
    state_key: Option<String>,
    prev: Vec<OwnedEventId>,
    auth: Vec<OwnedEventId>,
    redacts: Option<OwnedEventId>,
}

pub type PduRef = Arc<Pdu>;

impl Pdu {
    pub fn from_ev(e: &Ev) -> Result<PduRef, String> {
        let id = |s: &str| OwnedEventId::try_from(s).map_err(|x| format!("event id {s:?}: {x}"));
        Ok(Arc::new(Pdu {
            id: id(&e.id)?,
            room_id: OwnedRoomId::try_from(e.room_id.as_str()).map_err(|x| format!("room id {:?}: {x}", e.room_id))?,
            sender: OwnedUserId::try_from(e.sender.as_str()).map_err(|x| format!("sender {:?}: {x}", e.sender))?,
            ts: MilliSecondsSinceUnixEpoch(js_int::UInt::try_from(e.ts).map_err(|x| x.to_string())?),
            ty: TimelineEventType::from(e.ty.as_str()),
            content: serde_json::value::to_raw_value(&e.content).map_err(|x| x.to_string())?,
            state_key: e.state_key.clone(),
            prev: e.prev.iter().map(|s| id(s)).collect::<Result<_, _>>()?,
            auth: e.auth.iter().map(|s| id(s)).collect::<Result<_, _>>()?,
            redacts: e.redacts.as_deref().map(id).transpose()?,
        }))
    }
}

impl Event for Pdu {
    type Id = OwnedEventId;
    fn event_id(&self) -> &Self::Id {
        &self.id
    }
    fn room_id(&self) -> &RoomId {
        &self.room_id
    }
    fn sender(&self) -> &UserId {
        &self.sender
    }
    fn origin_server_ts(&self) -> MilliSecondsSinceUnixEpoch {
        self.ts
    }
    fn event_type(&self) -> &TimelineEventType {
        &self.ty
    }
    fn content(&self) -> &RawValue {
        &self.content
    }
    fn state_key(&self) -> Option<&str> {
        self.state_key.as_deref()
    }
    fn prev_events(&self) -> Box<dyn DoubleEndedIterator<Item = &Self::Id> + '_> {
        Box::new(self.prev.iter())
    }
    fn auth_events(&self) -> Box<dyn DoubleEndedIterator<Item = &Self::Id> + '_> {
        Box::new(self.auth.iter())
    }
    fn redacts(&self) -> Option<&Self::Id> {
        self.redacts.as_ref()
    }
}

/// Room state as the reference models see it: ordered map (type, state_key) -> event.
pub type RefState = BTreeMap<(String, String), Ev>;

pub fn state_type(t: &str) -> StateEventType {
    StateEventType::from(t)
}

pub fn eid(s: &str) -> &EventId {
    <&EventId>::try_from(s).expect("event id")
}
