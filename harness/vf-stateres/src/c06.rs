//! C06 State resolution is deterministic and independent of input and hash-map order.

use std::collections::BTreeSet;

use proptest::prelude::*;
use serde::{Deserialize, Serialize};
use vf_engine::{CaseCtx, Check};

use crate::{
    c07::instance_sets,
    room::{history, ref_resolve_traced, ref_resolve_variant, ruma_resolve, History, Room, SMap},
};

#[derive(Serialize, Deserialize, Debug, Clone)]
pub struct DetCase {
    pub history: History,
    /// repetitions per thread
    pub reps: u8,
}

fn permutations(n: usize) -> Vec<Vec<usize>> {
    fn rec(cur: &mut Vec<usize>, used: &mut Vec<bool>, n: usize, out: &mut Vec<Vec<usize>>) {
        if cur.len() == n {
            out.push(cur.clone());
            return;
        }
        for i in 0..n {
            if !used[i] {
                used[i] = true;
                cur.push(i);
                rec(cur, used, n, out);
                cur.pop();
                used[i] = false;
            }
        }
    }
    let mut out = vec![];
    rec(&mut vec![], &mut vec![false; n], n, &mut out);
    out
}

fn oracle_with(threads: usize, reps_scale: usize, c: &DetCase, cx: &mut CaseCtx) -> Result<(), String> {
    let r = Room::build(&c.history);
    let mut nt = false;
    for pick in &c.history.picks {
        let Some((nodes, sets, chains)) = instance_sets(&r, pick) else { continue };
        let (reference, trace) = ref_resolve_traced(&r, &sets);
        let base = ruma_resolve(&r, &sets, &chains).map_err(|e| format!("resolve failed: {e}"))?;
        cx.class("instance");
        cx.class_if(trace.tie_pl_ts, "tie_pl_ts");
        cx.class_if(trace.conflicted >= 2, "ge_2_conflicted");
        nt |= trace.conflicted >= 2 && trace.tie_pl_ts;
        let asserted_vs_reference = !trace.closure_differs_from_conflicted_path_closure;
        if asserted_vs_reference && base != reference && trace.no_pl_ancestor_in_mainline_phase && base == ref_resolve_variant(&r, &sets, true).0 {
            // C07's open known finding (mainline position of events without power-levels
            // ancestor); determinism is still checked against `base` below
            cx.class("differs_from_reference_by_c07_known_finding");
        } else if asserted_vs_reference && base != reference {
            return Err(format!("resolve differs from the fixed-point reference for the states after {nodes:?} (see C07)"));
        }
        // every permutation of the state sets, auth chains permuted consistently and independently
        let perms = permutations(sets.len());
        let mut evals = 0u64;
        for (pi, p) in perms.iter().enumerate() {
            let ps: Vec<SMap> = p.iter().map(|i| sets[*i].clone()).collect();
            let pc: Vec<BTreeSet<String>> = p.iter().map(|i| chains[*i].clone()).collect();
            let out = ruma_resolve(&r, &ps, &pc).map_err(|e| format!("resolve failed: {e}"))?;
            evals += 1;
            if out != base {
                return Err(format!("resolve depends on the order of the state sets: order {p:?} of the states after {nodes:?} gives a different map ({} entries differ)", diff_count(&out, &base)));
            }
            // auth chains in another order than the state sets (the spec function is order-free in both)
            let q = &perms[(pi * 7 + 3) % perms.len()];
            let qc: Vec<BTreeSet<String>> = q.iter().map(|i| chains[*i].clone()).collect();
            let out = ruma_resolve(&r, &ps, &qc).map_err(|e| format!("resolve failed: {e}"))?;
            evals += 1;
            if out != base {
                return Err(format!("resolve depends on the order of the auth-chain sets: state sets {p:?}, auth chains {q:?} of the states after {nodes:?}"));
            }
        }
        // duplicated state sets
        {
            let mut ds = sets.clone();
            ds.push(sets[0].clone());
            let mut dc = chains.clone();
            dc.push(chains[0].clone());
            let out = ruma_resolve(&r, &ds, &dc).map_err(|e| format!("resolve failed: {e}"))?;
            evals += 1;
            if out != base {
                return Err(format!("passing one state set twice changes the result for the states after {nodes:?}"));
            }
        }
        // single set / identical sets are returned unchanged
        for k in 1..=3usize {
            let ss: Vec<SMap> = (0..k).map(|_| sets[0].clone()).collect();
            let sc: Vec<BTreeSet<String>> = (0..k).map(|_| chains[0].clone()).collect();
            let out = ruma_resolve(&r, &ss, &sc).map_err(|e| format!("resolve failed: {e}"))?;
            evals += 1;
            if out != sets[0] {
                return Err(format!("resolving {k} identical state set(s) does not return that set unchanged (state after {})", nodes[0]));
            }
        }
        // repeated runs on fresh threads: std's RandomState draws new hasher keys per thread
        // and per map, which is the hash-iteration-order quantifier of the property
        let reps = (c.reps as usize % 4 + 1) * reps_scale;
        let results: Vec<Result<Vec<SMap>, String>> = std::thread::scope(|sc| {
            let hs: Vec<_> = (0..threads)
                .map(|_| {
                    sc.spawn(|| {
                        let mut outs = vec![];
                        for _ in 0..reps {
                            outs.push(ruma_resolve(&r, &sets, &chains)?);
                        }
                        Ok(outs)
                    })
                })
                .collect();
            hs.into_iter().map(|h| h.join().unwrap_or_else(|_| Err("thread panicked".into()))).collect()
        });
        for res in results {
            for out in res? {
                evals += 1;
                if out != base {
                    return Err(format!("resolve is not deterministic: two runs on the same input (states after {nodes:?}) differ in {} entries", diff_count(&out, &base)));
                }
            }
        }
        cx.more_evals(evals);
    }
    cx.nontrivial_if(nt);
    Ok(())
}

fn diff_count(a: &SMap, b: &SMap) -> usize {
    a.keys().chain(b.keys()).collect::<BTreeSet<_>>().into_iter().filter(|k| a.get(*k) != b.get(*k)).count()
}

pub fn run(ck: &mut Check) {
    ck.rule(
        "The room-history generator of C07 (timestamps from {0,1,2} in a third of the histories to force ties); for each merge instance: every permutation of the state-set list (<= 4 sets) with the auth-chain list permuted consistently and independently, a duplicated state set, 1-3 identical sets, and R repeated runs on T fresh threads (std's RandomState draws fresh hasher keys per thread and per map: the hash-iteration quantifier is sampled, not enumerated). \
         All runs must return the same map, equal to the fixed-point reference of C07. Non-trivial = instance with >= 2 conflicted events and a tie in (power level, timestamp).",
    );
    ck.assume("hash iteration orders are sampled through OS-seeded RandomState on fresh threads; no hook forces a particular order");
    let thorough = ck.thorough();
    let (threads, scale) = if thorough { (16, 8) } else { (4, 2) };
    let n = ck.n(2_500, 60_000);
    ck.prop("determinism", n, || (history(40), any::<u8>()).prop_map(|(history, reps)| DetCase { history, reps }), move |c, cx| oracle_with(threads, scale, c, cx));
    ck.floor("determinism", "instance", 2000);
    ck.floor("determinism", "tie_pl_ts", 1000);
    ck.floor("determinism", "ge_2_conflicted", 1500);
}
