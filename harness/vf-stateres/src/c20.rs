//! C20 Power-level helper predicates agree with the authorization rules.

use proptest::prelude::*;
use ruma_common::{
    push::{FlattenedJson, PushCondition, PushConditionPowerLevelsCtx, PushConditionRoomCtx},
    serde::Raw,
    OwnedRoomId, OwnedUserId, UserId,
};
use ruma_events::{
    room::power_levels::{NotificationPowerLevelType, PowerLevelAction, PowerLevelUserAction, RoomPowerLevels, RoomPowerLevelsEventContent},
    MessageLikeEventType, StateEventType,
};
use serde::{Deserialize, Serialize};
use serde_json::{json, Value};
use vf_engine::{CaseCtx, Check};

use crate::c08::{ruma_decides, ruma_state, Sc, CREATOR};

const ACTOR: &str = "@actor:hs1";
const TARGET: &str = "@target:hs2.example";

#[derive(Serialize, Deserialize, Debug, Clone)]
pub struct PlCase {
    pub version: u8,
    /// power-levels content as JSON (levels possibly spelled as strings before v10)
    pub content: Value,
    /// ban | kick | unban | invite | message | state | notify
    pub action: String,
    /// membership of the target where applicable
    pub target_membership: String,
    /// probed event type for message / state
    pub probe_type: String,
    pub actor_is_target: bool,
}

fn uid(s: &str) -> &UserId {
    <&UserId>::try_from(s).expect("user id")
}

fn oracle(c: &PlCase, cx: &mut CaseCtx) -> Result<(), String> {
    let Ok(typed) = serde_json::from_value::<RoomPowerLevelsEventContent>(c.content.clone()) else {
        cx.class("content_not_deserialisable_skipped");
        return Ok(());
    };
    let pl = RoomPowerLevels::from(typed);
    let actor = uid(ACTOR);
    let target = if c.actor_is_target { actor } else { uid(TARGET) };
    let target_s = if c.actor_is_target { ACTOR } else { TARGET };
    // minimal room
    let mut s = Sc::new(c.version);
    s.member(CREATOR, "join");
    s.join_rule("public");
    s.pl(c.content.clone());
    s.member(ACTOR, "join");
    let auth = |s: &mut Sc, e: crate::ev::Ev| -> Result<bool, String> {
        let rs = ruma_state(&s.state.values().cloned().collect::<Vec<_>>())?;
        Ok(ruma_decides(s.v, &e, &rs)?.is_ok())
    };
    let (helper, rules, what): (bool, bool, String) = match c.action.as_str() {
        "ban" => {
            if !c.actor_is_target {
                s.member(TARGET, &c.target_membership);
            }
            let e = s.event("m.room.member", Some(target_s), ACTOR, json!({"membership": "ban"}));
            let h = pl.user_can_ban_user(actor, target);
            if pl.user_can_do_to_user(actor, target, PowerLevelUserAction::Ban) != h {
                return Err("user_can_do_to_user(Ban) disagrees with user_can_ban_user".into());
            }
            // the target-less helper: holds iff the user could ban someone of lower level
            if pl.user_can_ban(actor) != (pl.for_user(actor) >= pl.ban) || pl.user_can_do(actor, PowerLevelAction::Ban) != pl.user_can_ban(actor) {
                return Err("user_can_ban / user_can_do(Ban) inconsistent".into());
            }
            (h, auth(&mut s, e)?, "user_can_ban_user".into())
        }
        "kick" => {
            s.member(TARGET, &c.target_membership);
            let e = s.event("m.room.member", Some(TARGET), ACTOR, json!({"membership": "leave"}));
            let h = pl.user_can_kick_user(actor, uid(TARGET));
            if pl.user_can_do_to_user(actor, uid(TARGET), PowerLevelUserAction::Kick) != h || pl.user_can_do(actor, PowerLevelAction::Kick) != pl.user_can_kick(actor) {
                return Err("kick dispatchers disagree".into());
            }
            (h, auth(&mut s, e)?, "user_can_kick_user".into())
        }
        "unban" => {
            s.member(TARGET, "ban");
            let e = s.event("m.room.member", Some(TARGET), ACTOR, json!({"membership": "leave"}));
            let h = pl.user_can_unban_user(actor, uid(TARGET));
            if pl.user_can_do_to_user(actor, uid(TARGET), PowerLevelUserAction::Unban) != h || pl.user_can_do(actor, PowerLevelAction::Unban) != pl.user_can_unban(actor) {
                return Err("unban dispatchers disagree".into());
            }
            (h, auth(&mut s, e)?, "user_can_unban_user".into())
        }
        "invite" => {
            s.member(TARGET, &c.target_membership);
            let e = s.event("m.room.member", Some(TARGET), ACTOR, json!({"membership": "invite"}));
            let h = pl.user_can_invite(actor);
            if pl.user_can_do(actor, PowerLevelAction::Invite) != h || pl.user_can_do_to_user(actor, uid(TARGET), PowerLevelUserAction::Invite) != h {
                return Err("invite dispatchers disagree".into());
            }
            (h, auth(&mut s, e)?, "user_can_invite".into())
        }
        "message" => {
            let e = s.event(&c.probe_type, None, ACTOR, json!({"body": "x"}));
            let t = MessageLikeEventType::from(c.probe_type.as_str());
            let h = pl.user_can_send_message(actor, t.clone());
            if pl.user_can_do(actor, PowerLevelAction::SendMessage(t.clone())) != h || (pl.for_user(actor) >= pl.for_message(t)) != h {
                return Err("send-message dispatchers disagree".into());
            }
            (h, auth(&mut s, e)?, format!("user_can_send_message({})", c.probe_type))
        }
        "state" => {
            let e = s.event(&c.probe_type, Some(""), ACTOR, json!({"x": 1}));
            let t = StateEventType::from(c.probe_type.as_str());
            let h = pl.user_can_send_state(actor, t.clone());
            if pl.user_can_do(actor, PowerLevelAction::SendState(t.clone())) != h || (pl.for_user(actor) >= pl.for_state(t)) != h {
                return Err("send-state dispatchers disagree".into());
            }
            (h, auth(&mut s, e)?, format!("user_can_send_state({})", c.probe_type))
        }
        "notify" => {
            let h = pl.user_can_trigger_room_notification(actor);
            if pl.user_can_do(actor, PowerLevelAction::TriggerNotification(NotificationPowerLevelType::Room)) != h {
                return Err("notification dispatcher disagrees".into());
            }
            let ctx = PushConditionRoomCtx {
                room_id: OwnedRoomId::try_from("!r:hs1").unwrap(),
                member_count: js_int::uint!(3),
                user_id: OwnedUserId::try_from("@someone.else:hs1").unwrap(),
                user_display_name: "x".into(),
                power_levels: Some(PushConditionPowerLevelsCtx::from(pl.clone())),
            };
            let ev: Raw<Value> = Raw::from_json(serde_json::value::to_raw_value(&json!({"type": "m.room.message", "sender": ACTOR, "content": {"body": "@room"}})).unwrap());
            let cond = PushCondition::SenderNotificationPermission { key: "room".into() }.applies(&FlattenedJson::from_raw(&ev), &ctx);
            (h, cond, "user_can_trigger_room_notification vs sender_notification_permission".into())
        }
        other => return Err(format!("harness: unknown action {other}")),
    };
    // classification: boundary = actor's level equals a threshold, or equals the target's level
    let al = i64::from(pl.for_user(actor));
    let thresholds = [i64::from(pl.ban), i64::from(pl.kick), i64::from(pl.invite), i64::from(pl.state_default), i64::from(pl.events_default), i64::from(pl.notifications.room)];
    let boundary = thresholds.contains(&al) || al == i64::from(pl.for_user(target)) || pl.events.values().any(|v| i64::from(*v) == al);
    cx.class_if(boundary, "boundary_level");
    cx.class_if(helper, "helper_yes");
    cx.class_if(!helper, "helper_no");
    cx.class(match c.action.as_str() {
        "ban" => "act_ban",
        "kick" => "act_kick",
        "unban" => "act_unban",
        "invite" => "act_invite",
        "message" => "act_message",
        "state" => "act_state",
        _ => "act_notify",
    });
    cx.class_if(c.content.to_string().contains("\"5") || c.content.to_string().contains("\"4"), "string_levels");
    cx.nontrivial_if(boundary);
    if helper != rules {
        return Err(format!("room version {}: {what} = {helper} but the {} {} it; power levels {} target membership {}", c.version, if c.action == "notify" { "push condition" } else { "authorization rules" }, if rules { "accept" } else { "reject" }, c.content, c.target_membership));
    }
    Ok(())
}

fn lvl(x: i64, string: bool) -> Value {
    if string {
        json!(x.to_string())
    } else {
        json!(x)
    }
}

fn cells() -> Vec<PlCase> {
    let l = 50i64;
    let around = [None, Some(l - 1), Some(l), Some(l + 1)];
    let mut out = vec![];
    for v in 3..=11u8 {
        for string in [false, true] {
            if string && v >= 10 {
                continue;
            }
            for actor_via_default in [false, true] {
                let base = |target_level: Option<i64>| {
                    let mut users = serde_json::Map::new();
                    users.insert(CREATOR.into(), lvl(100, string));
                    let mut c = serde_json::Map::new();
                    if actor_via_default {
                        c.insert("users_default".into(), lvl(l, string));
                    } else {
                        users.insert(ACTOR.into(), lvl(l, string));
                    }
                    if let Some(t) = target_level {
                        users.insert(TARGET.into(), lvl(t, string));
                    }
                    c.insert("users".into(), Value::Object(users));
                    Value::Object(c)
                };
                let with = |mut c: Value, f: &str, x: Option<i64>| {
                    if let Some(x) = x {
                        c[f] = lvl(x, string);
                    }
                    c
                };
                for tl in around {
                    for th in around {
                        for tm in ["join", "leave", "invite", "none"] {
                            out.push(PlCase { version: v, content: with(base(tl), "ban", th), action: "ban".into(), target_membership: tm.into(), probe_type: String::new(), actor_is_target: false });
                        }
                        for tm in ["join", "invite"] {
                            out.push(PlCase { version: v, content: with(base(tl), "kick", th), action: "kick".into(), target_membership: tm.into(), probe_type: String::new(), actor_is_target: false });
                        }
                        for th2 in around {
                            out.push(PlCase { version: v, content: with(with(base(tl), "ban", th), "kick", th2), action: "unban".into(), target_membership: "ban".into(), probe_type: String::new(), actor_is_target: false });
                        }
                    }
                    out.push(PlCase { version: v, content: base(tl), action: "ban".into(), target_membership: "join".into(), probe_type: String::new(), actor_is_target: true });
                }
                for th in around {
                    for tm in ["none", "leave"] {
                        out.push(PlCase { version: v, content: with(base(None), "invite", th), action: "invite".into(), target_membership: tm.into(), probe_type: String::new(), actor_is_target: false });
                    }
                    for entry in around {
                        for (action, ty, field) in [("message", "m.room.message", "events_default"), ("message", "m.reaction", "events_default"), ("state", "m.room.topic", "state_default"), ("state", "org.example.state", "state_default")] {
                            let mut c = with(base(None), field, th);
                            if let Some(e) = entry {
                                c["events"] = json!({ty: lvl(e, string)});
                            }
                            out.push(PlCase { version: v, content: c, action: action.into(), target_membership: String::new(), probe_type: ty.into(), actor_is_target: false });
                        }
                    }
                    let mut c = base(None);
                    if let Some(t) = th {
                        c["notifications"] = json!({"room": lvl(t, string)});
                    }
                    out.push(PlCase { version: v, content: c, action: "notify".into(), target_membership: String::new(), probe_type: String::new(), actor_is_target: false });
                }
            }
        }
    }
    out
}

fn random_case() -> impl Strategy<Value = PlCase> {
    let level = || prop_oneof![3 => 48i64..53, 1 => -2i64..3, 1 => 98i64..102];
    (
        3u8..=11,
        prop::collection::vec((prop_oneof![Just("ban"), Just("kick"), Just("invite"), Just("redact"), Just("state_default"), Just("events_default"), Just("users_default")], level()), 0..7),
        prop::option::of(level()),
        prop::option::of(level()),
        prop::collection::vec((prop_oneof![Just("m.room.message"), Just("m.room.topic"), Just("m.reaction"), Just("org.example.state")], level()), 0..3),
        prop::option::of(level()),
        (0u8..7, any::<bool>(), any::<u8>()),
    )
        .prop_map(|(version, fields, actor, target, events, notif, (act, string, tm))| {
            let string = string && version < 10;
            let mut c = json!({"users": {CREATOR: lvl(100, string)}});
            for (f, x) in fields {
                c[f] = lvl(x, string);
            }
            if let Some(a) = actor {
                c["users"][ACTOR] = lvl(a, string);
            }
            if let Some(t) = target {
                c["users"][TARGET] = lvl(t, string);
            }
            if !events.is_empty() {
                c["events"] = json!({});
                for (t, x) in events {
                    c["events"][t] = lvl(x, string);
                }
            }
            if let Some(n) = notif {
                c["notifications"] = json!({"room": lvl(n, string)});
            }
            let action = ["ban", "kick", "unban", "invite", "message", "state", "notify"][act as usize % 7];
            let target_membership = match action {
                "ban" => ["join", "leave", "invite", "none"][tm as usize % 4],
                "kick" => ["join", "invite"][tm as usize % 2],
                "unban" => "ban",
                "invite" => ["none", "leave"][tm as usize % 2],
                _ => "",
            };
            let probe_type = match action {
                "message" => ["m.room.message", "m.reaction"][tm as usize % 2],
                "state" => ["m.room.topic", "org.example.state"][tm as usize % 2],
                _ => "",
            };
            PlCase { version, content: c, action: action.into(), target_membership: target_membership.into(), probe_type: probe_type.into(), actor_is_target: false }
        })
}

pub fn run(ck: &mut Check) {
    ck.rule(
        "G2: for room versions 3-11, the actor at level 50 (through a users entry or through users_default), each threshold the action reads (ban, kick, invite, state_default / events_default, an events entry for the probed type, notifications.room) absent or just below / at / above the actor's level, the target's entry absent / below / equal / above, integer and (before v10) string spellings, every target membership the action applies to; \
         G1: random full power-level contents. For each cell a minimal room is built (create by a third user, the power-levels event, actor joined, target as required) and the helper's answer is compared with ruma's auth_check on the corresponding event (ban, kick, unban, invite, message event, state event) or with the sender_notification_permission push condition. \
         Non-trivial = the actor's level equals a threshold or the target's level.",
    );
    ck.assume("kick / unban with actor == target are not generated (the corresponding event is a self-leave, a different rule); redaction helpers and user_can_change_user_power_level are outside the property's list");
    ck.assume("power-level contents the typed RoomPowerLevelsEventContent cannot deserialise are skipped and counted");
    let all = std::sync::Arc::new(cells());
    ck.extra("cells", json!(all.len()));
    {
        let all = all.clone();
        ck.exhaustive(
            "threshold_cells",
            true,
            move |s, n| {
                let all = all.clone();
                (0..all.len()).skip(s as usize).step_by(n as usize).map(move |i| all[i].clone())
            },
            oracle,
        );
    }
    for cls in ["act_ban", "act_kick", "act_unban", "act_invite", "act_message", "act_state", "act_notify", "helper_yes", "helper_no", "boundary_level", "string_levels"] {
        ck.floor("threshold_cells", cls, 100);
    }
    let n = ck.n(600_000, 10_000_000);
    ck.prop("random_power_levels", n, random_case, oracle);
    ck.floor("random_power_levels", "boundary_level", 5000);
}
