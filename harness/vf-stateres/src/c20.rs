//! C20 Power-level helper predicates agree with the authorization rules.

use proptest::prelude::*;
use ruma_common::{
    push::{FlattenedJson, PushCondition, PushConditionPowerLevelsCtx, PushConditionRoomCtx},
    serde::Raw,
    OwnedRoomId, OwnedUserId, UserId,
};
use ruma_events::{
    room::power_levels::{NotificationPowerLevelType, PowerLevelAction, PowerLevelUserAction, RoomPowerLevels, RoomPowerLevelsEventContent},
    MessageLikeEventType, StateEventType,
};
use serde::{Deserialize, Serialize};
use serde_json::{json, Value};
use vf_engine::{CaseCtx, Check};

use crate::c08::{ruma_decides, ruma_state, Sc, CREATOR};

const ACTOR: &str = "@actor:hs1";
const TARGET: &str = "@target:hs2.example";

#[derive(Serialize, Deserialize, Debug, Clone)]
pub struct PlCase {
    pub version: u8,
    /// power-levels content as JSON (levels possibly spelled as strings before v10)
    pub content: Value,
    /// ban | kick | unban | invite | message | state | notify
    pub action: String,
    /// membership of the target where applicable
    pub target_membership: String,
    /// probed event type for message / state
    pub probe_type: String,
    pub actor_is_target: bool,
    /// the acting user is the room creator (whose level comes from `users` / `users_default`
    /// like anybody else's once a power-levels event exists)
    #[serde(default)]
    pub actor_is_creator: bool,
    #[serde(default)]
    pub target_is_creator: bool,
}

fn uid(s: &str) -> &UserId {
    <&UserId>::try_from(s).expect("user id")
}

fn oracle(c: &PlCase, cx: &mut CaseCtx) -> Result<(), String> {
    let Ok(typed) = serde_json::from_value::<RoomPowerLevelsEventContent>(c.content.clone()) else {
        cx.class("content_not_deserialisable_skipped");
        return Ok(());
    };
    let pl = RoomPowerLevels::from(typed);
    let actor_s = if c.actor_is_creator { CREATOR } else { ACTOR };
    let actor = uid(actor_s);
    let target_s = if c.actor_is_target {
        actor_s
    } else if c.target_is_creator && !c.actor_is_creator {
        CREATOR
    } else {
        TARGET
    };
    let target = uid(target_s);
    // the creator has joined at room creation: "never was a member" does not exist for them
    let tm: &str = if target_s == CREATOR && c.target_membership == "none" { "leave" } else { &c.target_membership };
    cx.class_if(c.actor_is_creator || target_s == CREATOR, "creator_involved");
    cx.class_if(c.content.get("users").is_none(), "no_users_map");
    cx.class_if(c.content.get("users").is_none() && (c.actor_is_creator || target_s == CREATOR), "creator_without_users_map");
    // minimal room
    let mut s = Sc::new(c.version);
    s.member(CREATOR, "join");
    s.join_rule("public");
    s.pl(c.content.clone());
    s.member(actor_s, "join");
    let auth = |s: &mut Sc, e: crate::ev::Ev| -> Result<bool, String> {
        let rs = ruma_state(&s.state.values().cloned().collect::<Vec<_>>())?;
        Ok(ruma_decides(s.v, &e, &rs)?.is_ok())
    };
    let (helper, rules, what): (bool, bool, String) = match c.action.as_str() {
        "ban" => {
            if !c.actor_is_target {
                s.member(target_s, tm);
            }
            let e = s.event("m.room.member", Some(target_s), actor_s, json!({"membership": "ban"}));
            let h = pl.user_can_ban_user(actor, target);
            if pl.user_can_do_to_user(actor, target, PowerLevelUserAction::Ban) != h {
                return Err("user_can_do_to_user(Ban) disagrees with user_can_ban_user".into());
            }
            // the target-less helper: holds iff the user could ban someone of lower level
            if pl.user_can_ban(actor) != (pl.for_user(actor) >= pl.ban) || pl.user_can_do(actor, PowerLevelAction::Ban) != pl.user_can_ban(actor) {
                return Err("user_can_ban / user_can_do(Ban) inconsistent".into());
            }
            (h, auth(&mut s, e)?, "user_can_ban_user".into())
        }
        "kick" => {
            s.member(target_s, tm);
            let e = s.event("m.room.member", Some(target_s), actor_s, json!({"membership": "leave"}));
            let h = pl.user_can_kick_user(actor, target);
            if pl.user_can_do_to_user(actor, target, PowerLevelUserAction::Kick) != h || pl.user_can_do(actor, PowerLevelAction::Kick) != pl.user_can_kick(actor) {
                return Err("kick dispatchers disagree".into());
            }
            (h, auth(&mut s, e)?, "user_can_kick_user".into())
        }
        "unban" => {
            s.member(target_s, "ban");
            let e = s.event("m.room.member", Some(target_s), actor_s, json!({"membership": "leave"}));
            let h = pl.user_can_unban_user(actor, target);
            if pl.user_can_do_to_user(actor, target, PowerLevelUserAction::Unban) != h || pl.user_can_do(actor, PowerLevelAction::Unban) != pl.user_can_unban(actor) {
                return Err("unban dispatchers disagree".into());
            }
            (h, auth(&mut s, e)?, "user_can_unban_user".into())
        }
        "invite" => {
            s.member(target_s, tm);
            let e = s.event("m.room.member", Some(target_s), actor_s, json!({"membership": "invite"}));
            let h = pl.user_can_invite(actor);
            if pl.user_can_do(actor, PowerLevelAction::Invite) != h || pl.user_can_do_to_user(actor, target, PowerLevelUserAction::Invite) != h {
                return Err("invite dispatchers disagree".into());
            }
            (h, auth(&mut s, e)?, "user_can_invite".into())
        }
        "message" => {
            let e = s.event(&c.probe_type, None, actor_s, json!({"body": "x"}));
            let t = MessageLikeEventType::from(c.probe_type.as_str());
            let h = pl.user_can_send_message(actor, t.clone());
            if pl.user_can_do(actor, PowerLevelAction::SendMessage(t.clone())) != h || (pl.for_user(actor) >= pl.for_message(t)) != h {
                return Err("send-message dispatchers disagree".into());
            }
            (h, auth(&mut s, e)?, format!("user_can_send_message({})", c.probe_type))
        }
        "state" => {
            // the corresponding event: one whose content gives the type-specific rules nothing to object to
            let (key, content) = match c.probe_type.as_str() {
                "m.room.power_levels" => (String::new(), c.content.clone()),
                "m.room.join_rules" => (String::new(), json!({"join_rule": "public"})),
                "m.room.history_visibility" => (String::new(), json!({"history_visibility": "shared"})),
                "m.room.third_party_invite" => ("tok".to_owned(), json!({"display_name": "d", "key_validity_url": "https://id.example/valid", "public_key": "abc"})),
                "m.room.aliases" => (crate::refauth::domain(actor_s).to_owned(), json!({"aliases": []})),
                _ => (String::new(), json!({"x": 1})),
            };
            let e = s.event(&c.probe_type, Some(&key), actor_s, content);
            let t = StateEventType::from(c.probe_type.as_str());
            let h = pl.user_can_send_state(actor, t.clone());
            if pl.user_can_do(actor, PowerLevelAction::SendState(t.clone())) != h || (pl.for_user(actor) >= pl.for_state(t)) != h {
                return Err("send-state dispatchers disagree".into());
            }
            (h, auth(&mut s, e)?, format!("user_can_send_state({})", c.probe_type))
        }
        "notify" => {
            let h = pl.user_can_trigger_room_notification(actor);
            if pl.user_can_do(actor, PowerLevelAction::TriggerNotification(NotificationPowerLevelType::Room)) != h {
                return Err("notification dispatcher disagrees".into());
            }
            let ctx = PushConditionRoomCtx {
                room_id: OwnedRoomId::try_from("!r:hs1").unwrap(),
                member_count: js_int::uint!(3),
                user_id: OwnedUserId::try_from("@someone.else:hs1").unwrap(),
                user_display_name: "x".into(),
                power_levels: Some(PushConditionPowerLevelsCtx::from(pl.clone())),
            };
            let ev: Raw<Value> = Raw::from_json(serde_json::value::to_raw_value(&json!({"type": "m.room.message", "sender": actor_s, "content": {"body": "@room"}})).unwrap());
            let cond = PushCondition::SenderNotificationPermission { key: "room".into() }.applies(&FlattenedJson::from_raw(&ev), &ctx);
            (h, cond, "user_can_trigger_room_notification vs sender_notification_permission".into())
        }
        other => return Err(format!("harness: unknown action {other}")),
    };
    // classification: boundary = actor's level equals a threshold, or equals the target's level
    let al = i64::from(pl.for_user(actor));
    let thresholds = [i64::from(pl.ban), i64::from(pl.kick), i64::from(pl.invite), i64::from(pl.state_default), i64::from(pl.events_default), i64::from(pl.notifications.room)];
    let boundary = thresholds.contains(&al) || al == i64::from(pl.for_user(target)) || pl.events.values().any(|v| i64::from(*v) == al);
    cx.class_if(boundary, "boundary_level");
    cx.class_if(helper, "helper_yes");
    cx.class_if(!helper, "helper_no");
    cx.class(match c.action.as_str() {
        "ban" => "act_ban",
        "kick" => "act_kick",
        "unban" => "act_unban",
        "invite" => "act_invite",
        "message" => "act_message",
        "state" => "act_state",
        _ => "act_notify",
    });
    cx.class_if(c.content.to_string().contains("\"5") || c.content.to_string().contains("\"4") || c.content.to_string().contains("\" "), "string_levels");
    cx.class_if(c.content.to_string().contains("\" ") || c.content.to_string().contains("\\n\""), "padded_string_levels");
    cx.nontrivial_if(boundary);
    if helper != rules {
        // known finding: room versions 1-5 authorise m.room.aliases by the state key alone (rule 4),
        // whatever the sender's level; the helper has no room-version input to say so
        if c.action == "state" && c.probe_type == "m.room.aliases" && c.version <= 5 && !helper && rules && cx.known_finding("send_state_aliases_before_v6", json!({"version": c.version, "power_levels": c.content})) {
            cx.class("known_aliases_before_v6");
            return Ok(());
        }
        return Err(format!("room version {}: {what} = {helper} but the {} {} it; power levels {} target membership {}", c.version, if c.action == "notify" { "push condition" } else { "authorization rules" }, if rules { "accept" } else { "reject" }, c.content, c.target_membership));
    }
    Ok(())
}

fn lvl(x: i64, string: bool) -> Value {
    if string {
        // before v10 levels may be strings read with Python's int(): surrounding whitespace is
        // part of what both the helpers and the authorization rules must read alike
        match x.rem_euclid(3) {
            0 => json!(format!(" {x} ")),
            1 => json!(x.to_string()),
            _ => json!(format!("{x}\n")),
        }
    } else {
        json!(x)
    }
}

fn cells() -> Vec<PlCase> {
    let l = 50i64;
    let around = [None, Some(l - 1), Some(l), Some(l + 1)];
    let mut out = vec![];
    for v in 3..=11u8 {
        for string in [false, true] {
            if string && v >= 10 {
                continue;
            }
            for actor_via_default in [false, true] {
                let base = |target_level: Option<i64>| {
                    let mut users = serde_json::Map::new();
                    users.insert(CREATOR.into(), lvl(100, string));
                    let mut c = serde_json::Map::new();
                    if actor_via_default {
                        c.insert("users_default".into(), lvl(l, string));
                    } else {
                        users.insert(ACTOR.into(), lvl(l, string));
                    }
                    if let Some(t) = target_level {
                        users.insert(TARGET.into(), lvl(t, string));
                    }
                    c.insert("users".into(), Value::Object(users));
                    Value::Object(c)
                };
                let with = |mut c: Value, f: &str, x: Option<i64>| {
                    if let Some(x) = x {
                        c[f] = lvl(x, string);
                    }
                    c
                };
                for tl in around {
                    for th in around {
                        for tm in ["join", "leave", "invite", "none", "knock"] {
                            if tm == "knock" && v < 7 {
                                continue;
                            }
                            out.push(PlCase { version: v, content: with(base(tl), "ban", th), action: "ban".into(), target_membership: tm.into(), probe_type: String::new(), actor_is_target: false, actor_is_creator: false, target_is_creator: false });
                        }
                        for tm in ["join", "invite", "knock"] {
                            if tm == "knock" && v < 7 {
                                continue;
                            }
                            out.push(PlCase { version: v, content: with(base(tl), "kick", th), action: "kick".into(), target_membership: tm.into(), probe_type: String::new(), actor_is_target: false, actor_is_creator: false, target_is_creator: false });
                        }
                        for th2 in around {
                            out.push(PlCase { version: v, content: with(with(base(tl), "ban", th), "kick", th2), action: "unban".into(), target_membership: "ban".into(), probe_type: String::new(), actor_is_target: false, actor_is_creator: false, target_is_creator: false });
                        }
                    }
                    out.push(PlCase { version: v, content: base(tl), action: "ban".into(), target_membership: "join".into(), probe_type: String::new(), actor_is_target: true, actor_is_creator: false, target_is_creator: false });
                }
                for th in around {
                    for tm in ["none", "leave", "invite", "knock"] {
                        if tm == "knock" && v < 7 {
                            continue;
                        }
                        out.push(PlCase { version: v, content: with(base(None), "invite", th), action: "invite".into(), target_membership: tm.into(), probe_type: String::new(), actor_is_target: false, actor_is_creator: false, target_is_creator: false });
                    }
                    for entry in around {
                        for (action, ty, field) in [("message", "m.room.message", "events_default"), ("message", "m.reaction", "events_default"), ("state", "m.room.topic", "state_default"), ("state", "org.example.state", "state_default"), ("state", "m.room.power_levels", "state_default"), ("state", "m.room.join_rules", "state_default"), ("state", "m.room.history_visibility", "state_default"), ("state", "m.room.third_party_invite", "state_default"), ("state", "m.room.aliases", "state_default")] {
                            let mut c = with(base(None), field, th);
                            if let Some(e) = entry {
                                c["events"] = json!({ty: lvl(e, string)});
                            }
                            out.push(PlCase { version: v, content: c, action: action.into(), target_membership: String::new(), probe_type: ty.into(), actor_is_target: false, actor_is_creator: false, target_is_creator: false });
                        }
                        // an event type with a declared alias: the `events` key and the event's own type
                        // may each use either spelling; helpers and rules must read them alike
                        const CANON: &str = "m.call.sdp_stream_metadata_changed";
                        const ALIAS: &str = "org.matrix.call.sdp_stream_metadata_changed";
                        for (key, ty) in [(CANON, CANON), (ALIAS, CANON), (CANON, ALIAS), (ALIAS, ALIAS)] {
                            let mut c = with(base(None), "events_default", th);
                            if let Some(e) = entry {
                                c["events"] = json!({key: lvl(e, string)});
                            }
                            out.push(PlCase { version: v, content: c, action: "message".into(), target_membership: String::new(), probe_type: ty.into(), actor_is_target: false, actor_is_creator: false, target_is_creator: false });
                        }
                    }
                    let mut c = base(None);
                    if let Some(t) = th {
                        c["notifications"] = json!({"room": lvl(t, string)});
                    }
                    out.push(PlCase { version: v, content: c, action: "notify".into(), target_membership: String::new(), probe_type: String::new(), actor_is_target: false, actor_is_creator: false, target_is_creator: false });
                }
            }
        }
    }
    out
}

/// Cells around the room creator: once a power-levels event exists the creator's level is read
/// from it like anybody else's (`users` entry, else `users_default`, also when `users` is absent).
fn creator_cells() -> Vec<PlCase> {
    let mut out = vec![];
    for v in 3..=11u8 {
        for users in ["absent", "empty", "creator_50", "creator_100", "other_only"] {
            for users_default in [None, Some(49i64), Some(50), Some(51), Some(100), Some(150)] {
                for creator_is_actor in [true, false] {
                    for th in [None, Some(50i64), Some(51), Some(100), Some(101)] {
                        let mut c = serde_json::Map::new();
                        match users {
                            "absent" => {}
                            "empty" => {
                                c.insert("users".into(), json!({}));
                            }
                            "creator_50" => {
                                c.insert("users".into(), json!({CREATOR: 50}));
                            }
                            "creator_100" => {
                                c.insert("users".into(), json!({CREATOR: 100}));
                            }
                            _ => {
                                c.insert("users".into(), json!({ACTOR: 50, TARGET: 50}));
                            }
                        }
                        if let Some(d) = users_default {
                            c.insert("users_default".into(), json!(d));
                        }
                        let base = Value::Object(c);
                        let with = |f: &str| {
                            let mut c = base.clone();
                            if let Some(x) = th {
                                c[f] = json!(x);
                            }
                            c
                        };
                        let mk = |content: Value, action: &str, tm: &str, probe: &str| PlCase {
                            version: v,
                            content,
                            action: action.into(),
                            target_membership: tm.into(),
                            probe_type: probe.into(),
                            actor_is_target: false,
                            actor_is_creator: creator_is_actor,
                            target_is_creator: !creator_is_actor,
                        };
                        out.push(mk(with("ban"), "ban", "join", ""));
                        out.push(mk(with("kick"), "kick", "join", ""));
                        out.push(mk(with("ban"), "unban", "ban", ""));
                        out.push(mk(with("kick"), "unban", "ban", ""));
                        if creator_is_actor {
                            out.push(mk(with("invite"), "invite", "none", ""));
                            out.push(mk(with("events_default"), "message", "", "m.room.message"));
                            out.push(mk(with("state_default"), "state", "", "m.room.topic"));
                            let mut n = base.clone();
                            if let Some(x) = th {
                                n["notifications"] = json!({"room": x});
                            }
                            out.push(mk(n, "notify", "", ""));
                        }
                    }
                }
            }
        }
    }
    out
}

fn random_case() -> impl Strategy<Value = PlCase> {
    let level = || prop_oneof![3 => 48i64..53, 1 => -2i64..3, 1 => 98i64..102];
    (
        3u8..=11,
        prop::collection::vec((prop_oneof![Just("ban"), Just("kick"), Just("invite"), Just("redact"), Just("state_default"), Just("events_default"), Just("users_default")], level()), 0..7),
        prop::option::of(level()),
        prop::option::of(level()),
        prop::collection::vec((prop_oneof![Just("m.room.message"), Just("m.room.topic"), Just("m.reaction"), Just("org.example.state")], level()), 0..3),
        prop::option::of(level()),
        (0u8..7, any::<bool>(), any::<u8>(), 0u8..6, 0u8..5),
    )
        .prop_map(|(version, fields, actor, target, events, notif, (act, string, tm, users_shape, who))| {
            let string = string && version < 10;
            // users map: with the creator at 100 (usual), without the creator, or absent altogether
            let mut c = match users_shape {
                0 => json!({}),
                1 => json!({"users": {}}),
                _ => json!({"users": {CREATOR: lvl(100, string)}}),
            };
            let (actor, target) = if users_shape == 0 { (None, None) } else { (actor, target) };
            for (f, x) in fields {
                c[f] = lvl(x, string);
            }
            if let Some(a) = actor {
                c["users"][ACTOR] = lvl(a, string);
            }
            if let Some(t) = target {
                c["users"][TARGET] = lvl(t, string);
            }
            if !events.is_empty() {
                c["events"] = json!({});
                for (t, x) in events {
                    c["events"][t] = lvl(x, string);
                }
            }
            if let Some(n) = notif {
                c["notifications"] = json!({"room": lvl(n, string)});
            }
            let action = ["ban", "kick", "unban", "invite", "message", "state", "notify"][act as usize % 7];
            let target_membership = match action {
                "ban" => ["join", "leave", "invite", "none"][tm as usize % 4],
                "kick" => ["join", "invite"][tm as usize % 2],
                "unban" => "ban",
                "invite" => ["none", "leave", "invite", if version >= 7 { "knock" } else { "leave" }][tm as usize % 4],
                _ => "",
            };
            let probe_type = match action {
                "message" => ["m.room.message", "m.reaction"][tm as usize % 2],
                "state" => ["m.room.topic", "org.example.state", "m.room.power_levels", "m.room.join_rules", "m.room.history_visibility", "m.room.third_party_invite", "m.room.aliases"][tm as usize % 7],
                _ => "",
            };
            PlCase { version, content: c, action: action.into(), target_membership: target_membership.into(), probe_type: probe_type.into(), actor_is_target: false, actor_is_creator: who == 1, target_is_creator: who == 2 }
        })
}

pub fn run(ck: &mut Check) {
    ck.rule(
        "G2: for room versions 3-11, the actor at level 50 (through a users entry or through users_default), each threshold the action reads (ban, kick, invite, state_default / events_default, an events entry for the probed type, notifications.room) absent or just below / at / above the actor's level, the target's entry absent / below / equal / above, integer and (before v10) string spellings, every target membership the action applies to; \
         G1: random full power-level contents. For each cell a minimal room is built (create by a third user, the power-levels event, actor joined, target as required) and the helper's answer is compared with ruma's auth_check on the corresponding event (ban, kick, unban, invite, message event, state event) or with the sender_notification_permission push condition. \
         Non-trivial = the actor's level equals a threshold or the target's level.",
    );
    ck.assume("kick / unban with actor == target are not generated (the corresponding event is a self-leave, a different rule); redaction helpers and user_can_change_user_power_level are outside the property's list");
    ck.assume("power-level contents the typed RoomPowerLevelsEventContent cannot deserialise are skipped and counted");
    let all = std::sync::Arc::new(cells());
    ck.extra("cells", json!(all.len()));
    {
        let all = all.clone();
        ck.exhaustive(
            "threshold_cells",
            true,
            move |s, n| {
                let all = all.clone();
                (0..all.len()).skip(s as usize).step_by(n as usize).map(move |i| all[i].clone())
            },
            oracle,
        );
    }
    for cls in ["act_ban", "act_kick", "act_unban", "act_invite", "act_message", "act_state", "act_notify", "helper_yes", "helper_no", "boundary_level", "string_levels", "padded_string_levels"] {
        ck.floor("threshold_cells", cls, 100);
    }
    let creator = std::sync::Arc::new(creator_cells());
    ck.extra("creator_cells", json!(creator.len()));
    ck.exhaustive(
        "creator_cells",
        true,
        move |s, n| {
            let all = creator.clone();
            (0..all.len()).skip(s as usize).step_by(n as usize).map(move |i| all[i].clone())
        },
        oracle,
    );
    ck.floor("creator_cells", "creator_without_users_map", 1000);
    let n = ck.n(1_500_000, 10_000_000);
    ck.prop("random_power_levels", n, random_case, oracle);
    ck.floor("random_power_levels", "boundary_level", 5000);
    ck.floor("random_power_levels", "creator_involved", 5000);
    ck.floor("random_power_levels", "no_users_map", 5000);
}
