//! Checks on ruma-state-res (+ ruma-events power-level helpers): C06-C09, C20.
use ruma_common::{room_version_rules::RoomVersionRules, RoomVersionId};
use serde_json::Value;
use vf_engine::Check;

mod c06;
mod c07;
mod c08;
mod c09;
mod c20;
mod ev;
mod refauth;
mod room;

/// Rules for room version "1".."11", obtained through the public id -> rules mapping.
pub fn rules_for(version: u8) -> RoomVersionRules {
    RoomVersionId::try_from(version.to_string().as_str()).expect("version id").rules().expect("known version has rules")
}

/// Decode base64 in either alphabet, padded or not.
pub fn b64_any(s: &str) -> Option<Vec<u8>> {
    vf_ref::hash::b64_decode(s, false).or_else(|| vf_ref::hash::b64_decode(s, true))
}

/// Canonical JSON of a `signed` object without `signatures` and `unsigned` (reference encoder).
pub fn canonical_signed(signed: &Value) -> Vec<u8> {
    match vf_ref::cjson::V::from_serde(signed) {
        Some(vf_ref::cjson::V::Obj(m)) => vf_ref::cjson::canon_without(&m, &["signatures", "unsigned"]),
        _ => vec![],
    }
}

pub fn ed25519_public(seed: &[u8; 32]) -> [u8; 32] {
    use ring::signature::KeyPair as _;
    ring::signature::Ed25519KeyPair::from_seed_unchecked(seed).expect("seed").public_key().as_ref().try_into().expect("32 bytes")
}
pub fn ed25519_sign(seed: &[u8; 32], msg: &[u8]) -> Vec<u8> {
    ring::signature::Ed25519KeyPair::from_seed_unchecked(seed).expect("seed").sign(msg).as_ref().to_vec()
}
pub fn ed25519_verify(public: &[u8], msg: &[u8], sig: &[u8]) -> bool {
    ring::signature::UnparsedPublicKey::new(&ring::signature::ED25519, public).verify(msg, sig).is_ok()
}

fn main() {
    let args: Vec<String> = std::env::args().skip(1).collect();
    let id = args.first().cloned().unwrap_or_default();
    let mut ck = Check::from_env(&id, &args[1.min(args.len())..]);
    match id.as_str() {
        "C06" => c06::run(&mut ck),
        "C07" => c07::run(&mut ck),
        "C08" => c08::run(&mut ck),
        "C09" => c09::run(&mut ck),
        "C20" => c20::run(&mut ck),
        _ => {
            eprintln!("vf-stateres: unknown property {id}");
            std::process::exit(2);
        }
    }
    ck.finish()
}
