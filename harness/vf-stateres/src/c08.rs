//! C08 Event authorization decides exactly as the spec's rules in every room version.
//! (The scenario builder and case enumerations are shared with C09.)

use std::collections::HashMap;

use proptest::prelude::*;
use ruma_state_res::auth_check;
use serde::{Deserialize, Serialize};
use serde_json::{json, Value};
use vf_engine::{CaseCtx, Check};

use crate::{
    ev::{Ev, Pdu, PduRef, RefState},
    refauth::{ref_auth, ref_selection},
    rules_for,
};

#[derive(Serialize, Deserialize, Debug, Clone)]
pub struct AuthCase {
    pub group: String,
    pub version: u8,
    pub event: Ev,
    pub state: Vec<Ev>,
}

pub const HS: [&str; 3] = ["hs1", "hs2.example", "hs3:8448"];
pub const CREATOR: &str = "@creator:hs1";
pub const ROOM: &str = "!r:hs1";

/// Scenario builder.
pub struct Sc {
    pub v: u8,
    pub state: RefState,
    n: u32,
}

impl Sc {
    pub fn new(v: u8) -> Sc {
        let mut s = Sc { v, state: RefState::new(), n: 0 };
        let mut content = json!({"room_version": v.to_string()});
        if v <= 10 {
            content["creator"] = json!(CREATOR);
        }
        s.set("m.room.create", "", CREATOR, content);
        s
    }
    pub fn bare(v: u8) -> Sc {
        Sc { v, state: RefState::new(), n: 0 }
    }
    pub fn id(&mut self) -> String {
        self.n += 1;
        format!("$e{}:hs1", self.n)
    }
    pub fn set(&mut self, ty: &str, key: &str, sender: &str, content: Value) -> Ev {
        let e = Ev { id: self.id(), room_id: ROOM.into(), sender: sender.into(), ts: 1000 + self.n as u64, ty: ty.into(), state_key: Some(key.into()), content, prev: vec!["$p:hs1".into()], auth: vec![], redacts: None };
        self.state.insert((ty.into(), key.into()), e.clone());
        e
    }
    pub fn member(&mut self, user: &str, membership: &str) {
        if membership == "none" {
            return;
        }
        let sender = if matches!(membership, "invite" | "ban") { CREATOR } else { user };
        self.set("m.room.member", user, sender, json!({"membership": membership}));
    }
    pub fn join_rule(&mut self, jr: &str) {
        if jr != "missing" {
            self.set("m.room.join_rules", "", CREATOR, json!({"join_rule": jr}));
        }
    }
    pub fn pl(&mut self, content: Value) {
        self.set("m.room.power_levels", "", CREATOR, content);
    }
    /// Candidate event with auth events selected from the current state per the spec.
    pub fn event(&mut self, ty: &str, key: Option<&str>, sender: &str, content: Value) -> Ev {
        let mut e = Ev { id: self.id(), room_id: ROOM.into(), sender: sender.into(), ts: 5000, ty: ty.into(), state_key: key.map(Into::into), content, prev: vec!["$p:hs1".into()], auth: vec![], redacts: None };
        self.fill_auth(&mut e);
        e
    }
    pub fn fill_auth(&self, e: &mut Ev) {
        e.auth.clear();
        let sel = ref_selection(self.v, e).unwrap_or_else(|| {
            // content outside the selection's domain: cite the always-selected entries
            let mut s = std::collections::BTreeSet::new();
            s.insert(("m.room.create".to_owned(), String::new()));
            s.insert(("m.room.power_levels".to_owned(), String::new()));
            s.insert(("m.room.member".to_owned(), e.sender.clone()));
            s
        });
        for k in sel {
            if let Some(x) = self.state.get(&k) {
                e.auth.push(x.id.clone());
            }
        }
    }
    pub fn case(&self, group: &str, event: Ev) -> AuthCase {
        AuthCase { group: group.into(), version: self.v, event, state: self.state.values().cloned().collect() }
    }
}

pub fn to_state(state: &[Ev]) -> RefState {
    state.iter().filter_map(|e| e.key().map(|k| (k, e.clone()))).collect()
}

pub fn ruma_state(state: &[Ev]) -> Result<HashMap<(String, String), PduRef>, String> {
    let mut m = HashMap::new();
    for e in state {
        if let Some(k) = e.key() {
            m.insert(k, Pdu::from_ev(e)?);
        }
    }
    Ok(m)
}

pub fn ruma_decides(v: u8, event: &Ev, state: &HashMap<(String, String), PduRef>) -> Result<Result<(), String>, String> {
    let rules = rules_for(v).authorization;
    let pdu = Pdu::from_ev(event)?;
    Ok(auth_check(&rules, &*pdu, |ty, key| state.get(&(ty.to_string(), key.to_owned())).cloned()))
}

pub fn oracle(c: &AuthCase, cx: &mut CaseCtx) -> Result<(), String> {
    let state = to_state(&c.state);
    let d = ref_auth(c.version, &c.event, &state);
    let rs = match ruma_state(&c.state) {
        Ok(s) => s,
        Err(_) => {
            cx.class("not_expressible_as_ruma_event");
            return Ok(());
        }
    };
    let got = match ruma_decides(c.version, &c.event, &rs) {
        Ok(g) => g,
        Err(_) => {
            cx.class("not_expressible_as_ruma_event");
            return Ok(());
        }
    };
    cx.class(match c.version {
        1..=2 => "v1-2",
        3..=5 => "v3-5",
        6 => "v6",
        7 => "v7",
        8..=9 => "v8-9",
        10 => "v10",
        _ => "v11",
    });
    cx.class(if d.accept { "spec_accepts" } else { "spec_rejects" });
    if d.silent {
        cx.class("spec_silent");
        return Ok(());
    }
    cx.nontrivial_if(d.reads >= 2);
    if got.is_ok() != d.accept {
        return Err(format!(
            "room version {} [{}]: the authorization rules {} this event (rule {}), ruma {}; event {} | state {}",
            c.version,
            c.group,
            if d.accept { "ACCEPT" } else { "REJECT" },
            d.rule,
            match &got {
                Ok(()) => "accepts it".to_owned(),
                Err(e) => format!("rejects it ({e})"),
            },
            brief_ev(&c.event),
            c.state.iter().map(brief_ev).collect::<Vec<_>>().join(" ; ")
        ));
    }
    Ok(())
}

pub fn brief_ev(e: &Ev) -> String {
    format!("{}[{}] by {} {}", e.ty.trim_start_matches("m.room."), e.state_key.as_deref().unwrap_or("-"), e.sender, e.content)
}

// ---------------------------------------------------------------------------------------------
// Enumerations (G2). Every function returns the complete product of the dimensions it names.

const MEMBERSHIPS: [&str; 6] = ["none", "leave", "join", "invite", "ban", "knock"];
const JOIN_RULES: [&str; 7] = ["missing", "public", "invite", "knock", "restricted", "knock_restricted", "private"];
pub const ALICE: &str = "@alice:hs1";
pub const BOB: &str = "@bob:hs2.example";
pub const CAROL: &str = "@carol:hs1";

pub fn create_cases() -> Vec<AuthCase> {
    let mut out = vec![];
    for v in 1..=11u8 {
        for prev in [false, true] {
            for domain_ok in [true, false] {
                for creator in ["present", "absent", "not-a-string"] {
                    let mut s = Sc::bare(v);
                    let mut content = json!({"room_version": v.to_string()});
                    match creator {
                        "present" => content["creator"] = json!(CREATOR),
                        "not-a-string" => content["creator"] = json!(17),
                        _ => {}
                    }
                    let mut e = s.event("m.room.create", Some(""), CREATOR, content);
                    e.prev = if prev { vec!["$p:hs1".into()] } else { vec![] };
                    if !domain_ok {
                        e.room_id = "!r:elsewhere".into();
                    }
                    out.push(s.case("create", e.clone()));
                    // rule 1 goes by the type alone: a create-typed event with another state key, or
                    // none, is judged by the same rule (and selects no auth events)
                    for key in [None, Some("x"), Some(CREATOR)] {
                        let mut e2 = e.clone();
                        e2.state_key = key.map(Into::into);
                        e2.id = format!("{}k{}", e.id.trim_end_matches(":hs1"), key.map_or(0, str::len)) + ":hs1";
                        out.push(s.case("create/other-state-key", e2));
                    }
                }
            }
        }
    }
    out
}

pub fn prelude_cases() -> Vec<AuthCase> {
    let mut out = vec![];
    for v in 1..=11u8 {
        for create_in_auth in [true, false] {
            for federate in ["absent", "true", "false"] {
                for same_domain in [true, false] {
                    // the federation rule precedes every type-specific rule, also those that end in an
                    // early "allow" (aliases before v6) or have their own rule group
                    for kind in ["message", "join", "aliases", "leave", "topic", "power_levels", "invite"] {
                        let mut s = Sc::bare(v);
                        let mut content = json!({"room_version": v.to_string()});
                        if v <= 10 {
                            content["creator"] = json!(CREATOR);
                        }
                        match federate {
                            "true" => content["m.federate"] = json!(true),
                            "false" => content["m.federate"] = json!(false),
                            _ => {}
                        }
                        s.set("m.room.create", "", CREATOR, content);
                        s.join_rule("public");
                        let user = if same_domain { ALICE } else { BOB };
                        let mut e = match kind {
                            "message" => {
                                s.member(user, "join");
                                s.event("m.room.message", None, user, json!({"body": "x"}))
                            }
                            "join" => s.event("m.room.member", Some(user), user, json!({"membership": "join"})),
                            "aliases" => {
                                s.member(user, "join");
                                s.pl(json!({"state_default": 0, "users": {CREATOR: 100}}));
                                let domain = user.split_once(':').map(|x| x.1).unwrap_or("");
                                s.event("m.room.aliases", Some(domain), user, json!({"aliases": []}))
                            }
                            "leave" => {
                                s.member(user, "join");
                                s.event("m.room.member", Some(user), user, json!({"membership": "leave"}))
                            }
                            "topic" => {
                                s.member(user, "join");
                                s.pl(json!({"state_default": 0, "users": {CREATOR: 100}}));
                                s.event("m.room.topic", Some(""), user, json!({"topic": "t"}))
                            }
                            "power_levels" => {
                                s.member(user, "join");
                                s.pl(json!({"users": {CREATOR: 100, user: 100}}));
                                s.event("m.room.power_levels", Some(""), user, json!({"users": {CREATOR: 100, user: 100}, "ban": 60}))
                            }
                            _ => {
                                s.member(user, "join");
                                s.pl(json!({"invite": 0, "users": {CREATOR: 100}}));
                                s.event("m.room.member", Some(CAROL), user, json!({"membership": "invite"}))
                            }
                        };
                        if !create_in_auth {
                            let cid = s.state[&("m.room.create".to_owned(), String::new())].id.clone();
                            e.auth.retain(|a| *a != cid);
                        }
                        out.push(s.case("prelude", e));
                    }
                }
            }
        }
    }
    out
}

pub fn aliases_cases() -> Vec<AuthCase> {
    let mut out = vec![];
    for v in 1..=11u8 {
        for key in ["none", "sender-domain", "other"] {
            for membership in ["join", "leave"] {
                for state_default in [0i64, 50] {
                    let mut s = Sc::new(v);
                    s.member(BOB, membership);
                    s.pl(json!({"state_default": state_default, "users": {CREATOR: 100}}));
                    let k = match key {
                        "none" => None,
                        "sender-domain" => Some("hs2.example"),
                        _ => Some("other.example"),
                    };
                    let e = s.event("m.room.aliases", k, BOB, json!({"aliases": []}));
                    out.push(s.case("aliases", e));
                }
            }
        }
    }
    out
}

pub fn join_cases() -> Vec<AuthCase> {
    let mut out = vec![];
    for v in 1..=11u8 {
        for prev in ["only-create", "create+other", "other", "none", "other+create"] {
            for target_is_creator in [false, true] {
                for sender_is_target in [true, false] {
                    for cur in MEMBERSHIPS {
                        for jr in JOIN_RULES {
                            for authoriser in ["absent", "joined-can-invite", "joined-cannot-invite", "invited", "not-in-room", "malformed"] {
                                // the authoriser dimension only matters for restricted rules; keep
                                // the full product there and one value elsewhere
                                if !matches!(jr, "restricted" | "knock_restricted") && authoriser != "absent" && authoriser != "joined-can-invite" {
                                    continue;
                                }
                                let mut s = Sc::new(v);
                                let target = if target_is_creator { CREATOR } else { ALICE };
                                s.join_rule(jr);
                                s.member(target, cur);
                                s.pl(json!({"invite": 50, "users": {CREATOR: 100, CAROL: 50, "@dave:hs1": 49}}));
                                let mut content = json!({"membership": "join"});
                                match authoriser {
                                    "joined-can-invite" => {
                                        s.member(CAROL, "join");
                                        content["join_authorised_via_users_server"] = json!(CAROL);
                                    }
                                    "joined-cannot-invite" => {
                                        s.member("@dave:hs1", "join");
                                        content["join_authorised_via_users_server"] = json!("@dave:hs1");
                                    }
                                    "invited" => {
                                        s.member(CAROL, "invite");
                                        content["join_authorised_via_users_server"] = json!(CAROL);
                                    }
                                    "not-in-room" => content["join_authorised_via_users_server"] = json!(CAROL),
                                    "malformed" => content["join_authorised_via_users_server"] = json!("not a user id"),
                                    _ => {}
                                }
                                let sender = if sender_is_target { target } else { CAROL };
                                if !sender_is_target && s.state.get(&("m.room.member".to_owned(), CAROL.to_owned())).is_none() {
                                    s.member(CAROL, "join");
                                }
                                let mut e = s.event("m.room.member", Some(target), sender, content);
                                let cid = s.state[&("m.room.create".to_owned(), String::new())].id.clone();
                                e.prev = match prev {
                                    "only-create" => vec![cid],
                                    "create+other" => vec![cid, "$p:hs1".into()],
                                    "other+create" => vec!["$p:hs1".into(), cid],
                                    "none" => vec![],
                                    _ => vec!["$p:hs1".into()],
                                };
                                out.push(s.case("member/join", e));
                            }
                        }
                    }
                }
            }
        }
    }
    out
}

pub fn invite_cases() -> Vec<AuthCase> {
    let mut out = vec![];
    for v in 1..=11u8 {
        for sender_m in MEMBERSHIPS {
            for target_m in MEMBERSHIPS {
                for pl_mode in ["no-pl", "pl-invite-50", "pl-invite-absent"] {
                    for sender_level in [49i64, 50, 51, 0] {
                        for sender_is_creator in [false, true] {
                            if pl_mode == "no-pl" && sender_level != 0 {
                                continue;
                            }
                            let mut s = Sc::new(v);
                            let sender = if sender_is_creator { CREATOR } else { ALICE };
                            s.member(sender, sender_m);
                            s.member(BOB, target_m);
                            match pl_mode {
                                "pl-invite-50" => s.pl(json!({"invite": 50, "users": {sender: sender_level}})),
                                "pl-invite-absent" => s.pl(json!({"users": {sender: sender_level - 50}})),
                                _ => {}
                            }
                            let e = s.event("m.room.member", Some(BOB), sender, json!({"membership": "invite"}));
                            out.push(s.case("member/invite", e));
                        }
                    }
                }
            }
        }
    }
    out
}

fn sign_third_party(signed: &mut Value, seed: &[u8; 32]) {
    let msg = crate::canonical_signed(signed);
    let sig = crate::ed25519_sign(seed, &msg);
    signed["signatures"] = json!({"id.example": {"ed25519:0": vf_ref::hash::b64(&sig, false)}});
}

pub fn third_party_invite_cases() -> Vec<AuthCase> {
    let mut out = vec![];
    let (k1, k2, k3) = ([1u8; 32], [2u8; 32], [3u8; 32]);
    let pk = |s: &[u8; 32]| vf_ref::hash::b64(&crate::ed25519_public(s), false);
    for v in 1..=11u8 {
        for signed_shape in ["full", "absent", "no-mxid", "no-token", "not-object"] {
            for mxid_matches in [true, false] {
                for token_event in [true, false] {
                    for sender_matches in [true, false] {
                        for signature in ["public_key", "public_keys-entry", "invalid", "other-key", "none"] {
                            for target_banned in [false, true] {
                                let mut s = Sc::new(v);
                                s.member(ALICE, "join");
                                s.member(BOB, if target_banned { "ban" } else { "none" });
                                if token_event {
                                    let tpi_sender = if sender_matches { ALICE } else { CAROL };
                                    s.set("m.room.third_party_invite", "tok", tpi_sender, json!({"display_name": "b", "key_validity_url": "https://id.example/valid", "public_key": pk(&k1), "public_keys": [{"public_key": pk(&k2)}]}));
                                }
                                // an unrelated second token
                                s.set("m.room.third_party_invite", "other", ALICE, json!({"public_key": pk(&k3)}));
                                let mut signed = json!({"mxid": if mxid_matches { BOB } else { CAROL }, "token": "tok"});
                                match signature {
                                    "public_key" => sign_third_party(&mut signed, &k1),
                                    "public_keys-entry" => sign_third_party(&mut signed, &k2),
                                    "other-key" => sign_third_party(&mut signed, &k3),
                                    "invalid" => {
                                        sign_third_party(&mut signed, &k1);
                                        signed["mxid"] = json!(if mxid_matches { BOB } else { CAROL });
                                        signed["extra_after_signing"] = json!(1);
                                    }
                                    _ => signed["signatures"] = json!({}),
                                }
                                let tpi = match signed_shape {
                                    "full" => json!({"display_name": "b", "signed": signed}),
                                    "absent" => json!({"display_name": "b"}),
                                    "no-mxid" => {
                                        signed.as_object_mut().unwrap().remove("mxid");
                                        json!({"display_name": "b", "signed": signed})
                                    }
                                    "no-token" => {
                                        signed.as_object_mut().unwrap().remove("token");
                                        json!({"display_name": "b", "signed": signed})
                                    }
                                    _ => json!({"display_name": "b", "signed": "x"}),
                                };
                                let e = s.event("m.room.member", Some(BOB), ALICE, json!({"membership": "invite", "third_party_invite": tpi}));
                                out.push(s.case("member/third_party_invite", e));
                            }
                        }
                    }
                }
            }
        }
    }
    out
}

pub fn leave_ban_cases() -> Vec<AuthCase> {
    let mut out = vec![];
    for v in 1..=11u8 {
        for kind in ["leave", "ban"] {
            for sender_is_target in [true, false] {
                for sender_m in MEMBERSHIPS {
                    for target_m in MEMBERSHIPS {
                        for pl_mode in ["pl", "no-pl"] {
                            for kick in [Some(49i64), Some(50), Some(51), None] {
                                for ban in [Some(49i64), Some(50), Some(51), None] {
                                    for target_level in [49i64, 50, 51] {
                                        if pl_mode == "no-pl" && (kick != Some(50) || ban != Some(50) || target_level != 50) {
                                            continue;
                                        }
                                        if sender_is_target && (target_m != sender_m || kick != Some(50) || ban != Some(50) || target_level != 50) {
                                            continue;
                                        }
                                        let mut s = Sc::new(v);
                                        let sender = ALICE;
                                        let target = if sender_is_target { ALICE } else { BOB };
                                        s.member(sender, sender_m);
                                        if !sender_is_target {
                                            s.member(target, target_m);
                                        }
                                        if pl_mode == "pl" {
                                            let mut c = json!({"users": {sender: 50, BOB: target_level}});
                                            if let Some(k) = kick {
                                                c["kick"] = json!(k);
                                            }
                                            if let Some(b) = ban {
                                                c["ban"] = json!(b);
                                            }
                                            s.pl(c);
                                        }
                                        let e = s.event("m.room.member", Some(target), sender, json!({"membership": kind}));
                                        out.push(s.case(if kind == "leave" { "member/leave" } else { "member/ban" }, e));
                                    }
                                }
                            }
                        }
                    }
                }
            }
        }
        // the creator without a power-levels event (level 100) kicking / banning
        for kind in ["leave", "ban"] {
            for target_m in MEMBERSHIPS {
                let mut s = Sc::new(v);
                s.member(CREATOR, "join");
                s.member(BOB, target_m);
                let e = s.event("m.room.member", Some(BOB), CREATOR, json!({"membership": kind}));
                out.push(s.case("member/creator-no-pl", e));
            }
        }
    }
    out
}

pub fn knock_cases() -> Vec<AuthCase> {
    let mut out = vec![];
    for v in 1..=11u8 {
        for jr in JOIN_RULES {
            for sender_is_target in [true, false] {
                for cur in MEMBERSHIPS {
                    for membership in ["knock", "x.unknown", "JOIN"] {
                        let mut s = Sc::new(v);
                        s.join_rule(jr);
                        s.member(ALICE, cur);
                        s.member(CAROL, "join");
                        let sender = if sender_is_target { ALICE } else { CAROL };
                        let e = s.event("m.room.member", Some(ALICE), sender, json!({"membership": membership}));
                        out.push(s.case("member/knock+unknown", e));
                    }
                }
            }
        }
        // malformed member events
        for content in [json!({}), json!({"membership": 5}), json!({"membership": null})] {
            let mut s = Sc::new(v);
            s.join_rule("public");
            let e = s.event("m.room.member", Some(ALICE), ALICE, content);
            out.push(s.case("member/malformed", e));
        }
        let mut s = Sc::new(v);
        s.join_rule("public");
        let e = s.event("m.room.member", None, ALICE, json!({"membership": "join"}));
        out.push(s.case("member/malformed", e));
    }
    out
}

pub fn generic_cases() -> Vec<AuthCase> {
    let mut out = vec![];
    for v in 1..=11u8 {
        for (ty, has_key) in [("m.room.message", false), ("m.room.topic", true), ("m.room.third_party_invite", true), ("m.room.redaction", false), ("org.example.custom", true),
            // names that merely look like a specially handled type are ordinary events
            ("member", true), ("m.room.m.room.member", true), ("m.room.members", true), ("M.ROOM.POWER_LEVELS", true), ("m.room.create.", true), ("m.room.join_rule", true), ("room.redaction", false)] {
            for sender_m in MEMBERSHIPS {
                for source in ["events-entry", "default-field", "spec-default", "no-pl"] {
                    for rel in [-1i64, 0, 1] {
                        for key in ["", "own", "other-user", "@not-a-full-id", "plain"] {
                            if !has_key && key != "" {
                                continue;
                            }
                            if sender_m != "join" && (rel != 0 || key != "") {
                                continue;
                            }
                            let mut s = Sc::new(v);
                            s.member(ALICE, sender_m);
                            // sender level L, required level R = L + rel... expressed around 30
                            let required = 30i64;
                            let level = required - rel;
                            match source {
                                "events-entry" => s.pl(json!({"events": {ty: required}, "state_default": 90, "events_default": 90, "invite": required, "redact": 0, "users": {ALICE: level}})),
                                "default-field" => s.pl(json!({"state_default": required, "events_default": required, "invite": required, "redact": 0, "users": {ALICE: level}})),
                                // spec defaults: state 50, events 0, invite 0
                                "spec-default" => {
                                    let base = if ty == "m.room.third_party_invite" { 0 } else if has_key { 50 } else { 0 };
                                    s.pl(json!({"users": {ALICE: base - rel}}))
                                }
                                _ => {}
                            }
                            let k = match key {
                                "own" => Some(ALICE),
                                "other-user" => Some(BOB),
                                "@not-a-full-id" => Some("@not-a-full-id"),
                                "plain" => Some("plain"),
                                _ if has_key => Some(""),
                                _ => None,
                            };
                            let sender = if source == "no-pl" && rel == 1 { CREATOR } else { ALICE };
                            if sender == CREATOR {
                                s.member(CREATOR, sender_m);
                            }
                            let mut e = s.event(ty, k, sender, json!({"body": "x"}));
                            if ty == "m.room.redaction" {
                                e.redacts = Some("$target:hs1".into());
                            }
                            out.push(s.case("generic", e));
                        }
                    }
                }
            }
        }
    }
    out
}

pub fn redaction_cases() -> Vec<AuthCase> {
    let mut out = vec![];
    for v in 1..=11u8 {
        for rel in [-1i64, 0, 1] {
            for same_domain in [true, false] {
                for redact_field in [true, false] {
                    let mut s = Sc::new(v);
                    s.member(ALICE, "join");
                    let redact = 50i64;
                    let mut c = json!({"users": {ALICE: redact - rel}, "events_default": 0});
                    if redact_field {
                        c["redact"] = json!(redact);
                    }
                    s.pl(c);
                    let mut e = s.event("m.room.redaction", None, ALICE, json!({"reason": "r"}));
                    e.redacts = Some(if same_domain { "$t:hs1".to_owned() } else { "$t:hs2.example".to_owned() });
                    out.push(s.case("redaction", e.clone()));
                    // v1-2 compare the domain of the redaction's own event id (not of its sender)
                    // with the domain of the redacted event's id: ids minted by another server
                    for (own, target) in [("hs2.example", "hs2.example"), ("hs2.example", "hs1"), ("hs3.example", "hs2.example"), ("hs1", "hs1:8448")] {
                        let mut e2 = e.clone();
                        e2.id = format!("$red{}:{own}", out.len());
                        e2.redacts = Some(format!("$t:{target}"));
                        out.push(s.case("redaction/id-domains", e2));
                    }
                }
            }
        }
    }
    out
}

/// Power-level changes: one alteration at a time, old/new values around the sender's level.
pub fn power_levels_cases() -> Vec<AuthCase> {
    let mut out = vec![];
    let l = 50i64;
    let vals = [None, Some(l - 1), Some(l), Some(l + 1)];
    for v in 1..=11u8 {
        let base_users = json!({ALICE: l, CREATOR: 100});
        // no previous event
        for content in [json!({}), json!({"users": {ALICE: 100}}), json!({"ban": 1000})] {
            let mut s = Sc::new(v);
            s.member(ALICE, "join");
            let e = s.event("m.room.power_levels", Some(""), CREATOR, content);
            s.member(CREATOR, "join");
            let mut e = e;
            s.fill_auth(&mut e);
            out.push(s.case("power_levels/first", e));
        }
        // scalar fields
        for f in ["users_default", "events_default", "state_default", "ban", "redact", "kick", "invite"] {
            for old in vals {
                for new in vals {
                    let mut s = Sc::new(v);
                    s.member(ALICE, "join");
                    // `events` entry keeps the power_levels event itself sendable at level 50
                    let mut oc = json!({"users": base_users, "events": {"m.room.power_levels": l}});
                    let mut nc = oc.clone();
                    if let Some(o) = old {
                        oc[f] = json!(o);
                    }
                    if let Some(n) = new {
                        nc[f] = json!(n);
                    }
                    s.pl(oc);
                    let e = s.event("m.room.power_levels", Some(""), ALICE, nc);
                    out.push(s.case("power_levels/field", e));
                }
            }
        }
        // map entries
        for m in ["events", "notifications", "users"] {
            for who in ["own", "other"] {
                if m != "users" && who == "own" {
                    continue;
                }
                for old in vals {
                    for new in vals {
                        let mut s = Sc::new(v);
                        s.member(ALICE, "join");
                        let key: &str = match (m, who) {
                            ("users", "own") => ALICE,
                            ("users", _) => BOB,
                            ("events", _) => "m.room.topic",
                            _ => "room",
                        };
                        let mut oc = json!({"users": base_users, "events": {"m.room.power_levels": l}});
                        let mut nc = oc.clone();
                        if m == "notifications" {
                            oc[m] = json!({});
                            nc[m] = json!({});
                        }
                        if let Some(o) = old {
                            oc[m][key] = json!(o);
                        }
                        if let Some(n) = new {
                            nc[m][key] = json!(n);
                        } else if m == "users" && who == "own" {
                            nc[m].as_object_mut().unwrap().remove(key);
                        }
                        if m == "users" && who == "own" && old.is_none() {
                            // the sender's own entry absent before: level comes from users_default
                            oc[m].as_object_mut().unwrap().remove(key);
                            oc["users_default"] = json!(l);
                            nc["users_default"] = json!(l);
                        }
                        s.pl(oc);
                        let e = s.event("m.room.power_levels", Some(""), ALICE, nc);
                        out.push(s.case("power_levels/map-entry", e));
                    }
                }
            }
        }
        // a whole map present on one side only: its entries are added / removed all the same
        for m in ["events", "notifications", "users"] {
            for absent_side in ["old", "new"] {
                for val in [l - 1, l, l + 1] {
                    for extra in [false, true] {
                        let mut s = Sc::new(v);
                        s.member(ALICE, "join");
                        let key: &str = match m {
                            "users" => BOB,
                            "events" => "m.room.topic",
                            _ => "room",
                        };
                        // the sender's level and the level required for the power_levels event come
                        // from the defaults, so that neither depends on the map under test
                        let mut with = json!({"users_default": l, "state_default": l, "users": {CREATOR: 100}, "events": {}});
                        let mut without = with.clone();
                        if m == "users" {
                            // removing the creator's entry is refused for its own reason: leave it out
                            with["users"] = json!({});
                        }
                        with[m] = if m == "notifications" { json!({}) } else { with[m].clone() };
                        with[m][key] = json!(val);
                        if extra {
                            // a second, harmless entry before or after the deciding one
                            let k2 = match m {
                                "users" => "@zed:hs1",
                                "events" => "a.first",
                                _ => "zzz",
                            };
                            with[m][k2] = json!(0);
                        }
                        without.as_object_mut().unwrap().remove(m);
                        let (oc, nc) = if absent_side == "old" { (without, with) } else { (with, without) };
                        s.pl(oc);
                        let e = s.event("m.room.power_levels", Some(""), ALICE, nc);
                        out.push(s.case("power_levels/whole-map", e));
                    }
                }
            }
        }
        // value spellings
        for (name, val) in [("int", json!(50)), ("numeric-string", json!("50")), ("padded-string", json!(" 50 ")), ("plus-string", json!("+50")), ("word-string", json!("abc")), ("float", json!(50.5)), ("bool", json!(true)), ("null", json!(null))] {
            for place in ["field", "events-entry", "users-entry", "notifications-entry"] {
                let mut s = Sc::new(v);
                s.member(ALICE, "join");
                let oc = json!({"users": {ALICE: 60, CREATOR: 100}, "events": {"m.room.power_levels": 50}});
                let mut nc = oc.clone();
                match place {
                    "field" => nc["kick"] = val.clone(),
                    "events-entry" => nc["events"]["m.room.topic"] = val.clone(),
                    "users-entry" => nc["users"][BOB] = val.clone(),
                    _ => nc["notifications"] = json!({"room": val.clone()}),
                }
                s.pl(oc);
                let e = s.event("m.room.power_levels", Some(""), ALICE, nc);
                out.push(s.case(&format!("power_levels/spelling-{name}"), e));
            }
        }
        // invalid user id keys / non-object maps
        for nc in [
            json!({"users": {"not-a-user-id": 1, ALICE: 60}, "events": {"m.room.power_levels": 50}}),
            json!({"users": [1, 2], "events": {"m.room.power_levels": 50}}),
            json!({"users": {ALICE: 60, CREATOR: 100}, "events": "x"}),
            json!({"users": {ALICE: 60, CREATOR: 100}, "events": {"m.room.power_levels": 50}, "notifications": 5}),
        ] {
            let mut s = Sc::new(v);
            s.member(ALICE, "join");
            s.pl(json!({"users": {ALICE: 60, CREATOR: 100}, "events": {"m.room.power_levels": 50}}));
            let e = s.event("m.room.power_levels", Some(""), ALICE, nc);
            out.push(s.case("power_levels/malformed", e));
        }
    }
    out
}

/// Who counts as the room creator (level 100 while no power-levels event exists): `content.creator`
/// of the create event in room versions 1-10, the create event's sender in v11 - the two differ in
/// these cells.
pub fn creator_identity_cases() -> Vec<AuthCase> {
    let mut out = vec![];
    const DAVE: &str = "@dave:hs1";
    for v in 1..=11u8 {
        for with_pl in [false, true] {
            for actor in [CREATOR, DAVE, ALICE] {
                for kind in ["topic", "first_power_levels", "message", "invite", "kick"] {
                    let mut s = Sc::bare(v);
                    let mut content = json!({"room_version": v.to_string()});
                    if v <= 10 {
                        content["creator"] = json!(CREATOR);
                    }
                    // sent by dave, naming @creator as the creator
                    s.set("m.room.create", "", DAVE, content);
                    s.join_rule("public");
                    for u in [CREATOR, DAVE, ALICE, BOB] {
                        s.member(u, "join");
                    }
                    if with_pl {
                        s.pl(json!({"users": {ALICE: 100}}));
                    }
                    let e = match kind {
                        "topic" => s.event("m.room.topic", Some(""), actor, json!({"topic": "t"})),
                        "first_power_levels" => s.event("m.room.power_levels", Some(""), actor, json!({"users": {actor: 100}})),
                        "message" => s.event("m.room.message", None, actor, json!({"body": "x"})),
                        "invite" => s.event("m.room.member", Some(CAROL), actor, json!({"membership": "invite"})),
                        _ => s.event("m.room.member", Some(BOB), actor, json!({"membership": "leave"})),
                    };
                    out.push(s.case("creator_identity", e));
                }
            }
        }
    }
    out
}

pub fn all_cases() -> Vec<AuthCase> {
    let mut all = vec![];
    all.extend(create_cases());
    all.extend(prelude_cases());
    all.extend(aliases_cases());
    all.extend(join_cases());
    all.extend(invite_cases());
    all.extend(third_party_invite_cases());
    all.extend(leave_ban_cases());
    all.extend(knock_cases());
    all.extend(generic_cases());
    all.extend(redaction_cases());
    all.extend(power_levels_cases());
    all.extend(creator_identity_cases());
    let derived = tpi_content_on_other_memberships(&all);
    all.extend(derived);
    all
}

/// Member events whose membership is not `invite` but whose content carries a `third_party_invite`
/// (e.g. copied over from the preceding invite): the specification neither selects the
/// `m.room.third_party_invite` event for them nor lets it influence the decision. Derived from every
/// fifth join / knock / leave / ban cell; a matching token event is added to the state.
pub fn tpi_content_on_other_memberships(base: &[AuthCase]) -> Vec<AuthCase> {
    let mut out = vec![];
    let mut k = 0usize;
    for c in base {
        if c.event.ty != "m.room.member" || c.event.content.get("third_party_invite").is_some() {
            continue;
        }
        if !matches!(c.event.membership(), Some("join" | "knock" | "leave" | "ban")) {
            continue;
        }
        k += 1;
        if k % 5 != 0 {
            continue;
        }
        let target = c.event.state_key.clone().unwrap_or_default();
        for shape in 0..2 {
            let mut n = c.clone();
            n.group = format!("{}+tpi_content", c.group);
            n.event.content["third_party_invite"] = if shape == 0 {
                json!({"display_name": "x", "signed": {"mxid": target, "token": "tok1", "signatures": {"hs1": {"ed25519:1": "AAAA"}}}})
            } else {
                json!({"display_name": "x"})
            };
            let proto = c.state.iter().find(|e| e.ty == "m.room.create").cloned();
            if let Some(mut t) = proto {
                t.id = "$tpitoken:hs1".into();
                t.ty = "m.room.third_party_invite".into();
                t.state_key = Some("tok1".into());
                t.sender = CREATOR.into();
                t.content = json!({"display_name": "x", "key_validity_url": "https://id.example/valid", "public_key": "AAAA", "public_keys": []});
                t.prev = vec!["$p:hs1".into()];
                n.state.push(t);
            }
            out.push(n);
        }
        // `join_authorised_via_users_server` is read only for joins under the restricted rules of
        // room versions 8+: anywhere else neither its presence nor a malformed value matters
        if k % 10 == 0 {
            for (i, val) in [json!(""), json!("bob"), json!(42), json!({}), json!("@carol:hs1")].into_iter().enumerate() {
                let mut n = c.clone();
                n.group = format!("{}+join_authorised_content", c.group);
                n.event.content["join_authorised_via_users_server"] = val;
                n.event.id = format!("{}j{i}", n.event.id);
                out.push(n);
            }
        }
    }
    out
}

/// Random concretisation on top of a cell: rename users/domains consistently, shift all levels by
/// a constant, add irrelevant state and irrelevant content keys.
#[derive(Serialize, Deserialize, Debug, Clone)]
pub struct Concrete {
    pub cell: usize,
    pub shift: i64,
    pub rename: u8,
    pub extra_state: u8,
    pub extra_content: bool,
}

fn rename_str(s: &str, r: u8) -> String {
    if r % 3 == 0 {
        return s.to_owned();
    }
    let (a, b, c) = if r % 3 == 1 { ("@zed", "@yan", "@xiu") } else { ("@al.ice_1", "@b-ob=2", "@c/arol+3") };
    s.replace("@alice", a).replace("@bob", b).replace("@carol", c)
}

fn rename_value(v: &Value, r: u8, shift: i64, in_levels: bool) -> Value {
    match v {
        Value::String(s) => Value::String(rename_str(s, r)),
        Value::Number(n) if in_levels => n.as_i64().map(|i| json!(i + shift)).unwrap_or_else(|| v.clone()),
        Value::Array(a) => Value::Array(a.iter().map(|x| rename_value(x, r, shift, in_levels)).collect()),
        Value::Object(o) => Value::Object(o.iter().map(|(k, x)| (rename_str(k, r), rename_value(x, r, shift, in_levels))).collect()),
        _ => v.clone(),
    }
}

pub fn concretise(base: &AuthCase, c: &Concrete) -> AuthCase {
    // a shift changes levels relative to the spec defaults unless every threshold is explicit;
    // apply it only when a power-levels event defines all thresholds the cell may read
    let explicit = base.state.iter().any(|e| e.ty == "m.room.power_levels" && ["ban", "kick", "invite", "redact", "state_default", "events_default", "users_default"].iter().all(|f| e.content.get(*f).is_some()));
    let shift = if explicit { c.shift } else { 0 };
    let tr = |e: &Ev| -> Ev {
        let is_pl = e.ty == "m.room.power_levels";
        let mut content = rename_value(&e.content, c.rename, shift, is_pl);
        if c.extra_content {
            if let Some(o) = content.as_object_mut() {
                o.insert("org.example.irrelevant".into(), json!({"x": [1, "two"]}));
            }
        }
        Ev { sender: rename_str(&e.sender, c.rename), state_key: e.state_key.as_deref().map(|k| rename_str(k, c.rename)), content, ..e.clone() }
    };
    let mut state: Vec<Ev> = base.state.iter().map(tr).collect();
    for i in 0..(c.extra_state % 4) {
        state.push(Ev {
            id: format!("$x{i}:hs1"),
            room_id: ROOM.into(),
            sender: CREATOR.into(),
            ts: 1,
            ty: ["m.room.topic", "m.room.member", "m.room.name", "m.room.third_party_invite"][i as usize % 4].into(),
            state_key: Some(["", "@erin:hs3:8448", "", "unrelated-token"][i as usize % 4].into()),
            content: [json!({"topic": "t"}), json!({"membership": "join"}), json!({"name": "n"}), json!({"public_key": "AAAA"})][i as usize % 4].clone(),
            prev: vec![],
            auth: vec![],
            redacts: None,
        });
    }
    AuthCase { group: format!("{}+concrete", base.group), version: base.version, event: tr(&base.event), state }
}

pub fn run(ck: &mut Check) {
    ck.rule(
        "G2: per rule group the full product of the dimensions that rule reads, for all 11 room versions (rules obtained through RoomVersionId::rules()): create; create-in-auth-events x m.federate x sender domain; aliases; \
         join (prev_events x target/creator x sender x current membership x 7 join rules x 6 authoriser situations); ordinary invite; third-party invite (signed shapes x mxid x token event x sender x 5 signature situations x ban, signatures made with ring); \
         leave/kick/ban/unban (memberships x kick/ban thresholds and target level below/at/above the sender's); knock and unknown memberships; generic events (required level from events / default field / spec default / no power-levels event x below/at/above x state_key shapes); \
         redaction; power-level changes (each scalar field and each map entry added/changed/removed with old/new below/at/above, value spellings int/string/float, malformed maps). G1: random renaming, level shifts, irrelevant state and content on top of a cell. \
         Oracle: reference implementation of the spec's authorization rules; error messages ignored. Non-trivial = the reference consulted >= 2 state entries.",
    );
    ck.assume("readings where the spec is silent are tagged spec_silent and not asserted: missing join-rules event, added/removed power-level fields counting with their default, malformed member events in state, float or padded-string power levels before v10, malformed m.federate");
    ck.assume("rule 2 (duplicate / superfluous / rejected auth events) is outside the property's list; only 'no m.room.create among auth events' is modelled");
    let cases = std::sync::Arc::new(all_cases());
    ck.extra("cells", json!(cases.len()));
    {
        let cases = cases.clone();
        ck.exhaustive(
            "rule_group_products",
            true,
            move |s, n| {
                let cases = cases.clone();
                (0..cases.len()).skip(s as usize).step_by(n as usize).map(move |i| cases[i].clone())
            },
            oracle,
        );
    }
    for cls in ["v1-2", "v3-5", "v6", "v7", "v8-9", "v10", "v11", "spec_accepts", "spec_rejects"] {
        ck.floor("rule_group_products", cls, 1000);
    }
    let n = ck.n(300_000, 5_000_000);
    let ncells = cases.len();
    let cases2 = cases.clone();
    ck.prop(
        "random_concretisations",
        n,
        move || (0..ncells, -20i64..20, 0u8..3, 0u8..4, any::<bool>()).prop_map(|(cell, shift, rename, extra_state, extra_content)| Concrete { cell, shift, rename, extra_state, extra_content }),
        move |c, cx| {
            let base = &cases2[c.cell.min(cases2.len() - 1)];
            let case = concretise(base, c);
            oracle(&case, cx)
        },
    );
}

#[allow(dead_code)]
pub fn state_of(c: &AuthCase) -> (RefState, Result<HashMap<(String, String), PduRef>, String>) {
    (to_state(&c.state), ruma_state(&c.state))
}
