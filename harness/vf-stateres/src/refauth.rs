//! Reference implementation of the Matrix authorization rules for room versions 1-11, written
//! rule by rule in the order of the specification ("Authorization rules" of each room version),
//! and of the auth-event selection algorithm (server-server API, "Auth events selection").
//! No ruma-state-res code is used.

use std::collections::BTreeSet;

use serde_json::Value;

use crate::ev::{Ev, RefState};

#[derive(Debug, Clone)]
pub struct Decision {
    pub accept: bool,
    /// the outcome hinges on a reading the specification leaves open (counted, not asserted)
    pub silent: bool,
    pub rule: &'static str,
    /// number of distinct state entries the decision consulted
    pub reads: usize,
}

struct Ctx<'a> {
    v: u8,
    state: &'a RefState,
    reads: std::cell::RefCell<BTreeSet<(String, String)>>,
    silent: std::cell::Cell<bool>,
}

type R = Result<&'static str, &'static str>; // Ok(rule that allows) / Err(rule that rejects)

pub fn domain(id: &str) -> &str {
    id.split_once(':').map(|x| x.1).unwrap_or("")
}

impl<'a> Ctx<'a> {
    fn get(&self, ty: &str, key: &str) -> Option<&'a Ev> {
        self.reads.borrow_mut().insert((ty.to_owned(), key.to_owned()));
        self.state.get(&(ty.to_owned(), key.to_owned()))
    }
    fn create(&self) -> Option<&'a Ev> {
        self.get("m.room.create", "")
    }
    fn pl(&self) -> Option<&'a Ev> {
        self.get("m.room.power_levels", "")
    }
    /// membership of a user in the current state; `None` = malformed member event
    fn membership(&self, user: &str) -> Option<&'a str> {
        match self.get("m.room.member", user) {
            None => Some("leave"),
            Some(e) => e.content.get("membership").and_then(|m| m.as_str()),
        }
    }
    fn creator(&self) -> Option<String> {
        let c = self.create()?;
        if self.v >= 11 {
            Some(c.sender.clone())
        } else {
            c.content.get("creator").and_then(|x| x.as_str()).map(str::to_owned)
        }
    }
    /// power level value as the room version reads it
    fn int(&self, v: &Value) -> Option<i64> {
        parse_level(self.v, v, &self.silent)
    }
    fn field(&self, name: &str) -> Option<i64> {
        let default = match name {
            "ban" | "kick" | "redact" | "state_default" => 50,
            _ => 0,
        };
        match self.pl() {
            None => Some(default),
            Some(pl) => match pl.content.get(name) {
                None => Some(default),
                Some(v) => self.int(v),
            },
        }
    }
    fn user_level(&self, user: &str) -> Option<i64> {
        match self.pl() {
            None => Some(if self.creator().as_deref() == Some(user) { 100 } else { 0 }),
            Some(pl) => match pl.content.get("users").and_then(|u| u.get(user)) {
                Some(v) => self.int(v),
                None => match pl.content.get("users_default") {
                    Some(v) => self.int(v),
                    None => Some(0),
                },
            },
        }
    }
    fn join_rule(&self) -> Option<&'a str> {
        self.get("m.room.join_rules", "")?.content.get("join_rule")?.as_str()
    }
}

/// v1-v9: integers, or strings holding an integer (surrounding whitespace and a leading `+`
/// tolerated); v10+: integers only. Floats before v10 are spec-silent.
pub fn parse_level(v: u8, x: &Value, silent: &std::cell::Cell<bool>) -> Option<i64> {
    match x {
        Value::Number(n) => match n.as_i64() {
            Some(i) => Some(i),
            None => {
                if v < 10 {
                    silent.set(true);
                }
                None
            }
        },
        Value::String(s) if v < 10 => {
            let t = s.trim();
            let t = t.strip_prefix('+').unwrap_or(t);
            if t != s.as_str() {
                // whitespace / plus sign: Python int() semantics, not spelled out in the spec
                silent.set(true);
            }
            t.parse::<i64>().ok()
        }
        _ => None,
    }
}

fn is_user_id(s: &str) -> bool {
    s.starts_with('@') && s.len() <= 255 && s.contains(':') && !domain(s).is_empty()
}

pub fn ref_auth(v: u8, e: &Ev, state: &RefState) -> Decision {
    let cx = Ctx { v, state, reads: Default::default(), silent: Default::default() };
    let r = auth(&cx, e);
    let reads = cx.reads.borrow().len();
    match r {
        Ok(rule) => Decision { accept: true, silent: cx.silent.get(), rule, reads },
        Err(rule) => Decision { accept: false, silent: cx.silent.get(), rule, reads },
    }
}

fn auth(cx: &Ctx<'_>, e: &Ev) -> R {
    let v = cx.v;
    // 1. m.room.create
    if e.ty == "m.room.create" {
        if !e.prev.is_empty() {
            return Err("1.1 create event has prev_events");
        }
        let room_domain = e.room_id.split_once(':').map(|x| x.1);
        if room_domain != Some(domain(&e.sender)) {
            return Err("1.2 room_id domain does not match sender domain");
        }
        if v <= 10 && e.content.get("creator").is_none() {
            return Err("1.4 no creator");
        }
        return Ok("1.5 create allowed");
    }
    // 2. auth_events must contain the create event
    let Some(create) = cx.create() else { return Err("2 no create event in state") };
    if !e.auth.contains(&create.id) {
        return Err("2.4 no m.room.create among auth events");
    }
    // 3. m.federate
    match create.content.get("m.federate") {
        None | Some(Value::Bool(true)) => {}
        Some(Value::Bool(false)) => {
            if domain(&e.sender) != domain(&create.sender) {
                return Err("3 room not federated and sender on another server");
            }
        }
        Some(_) => {
            cx.silent.set(true);
            return Err("3 malformed m.federate");
        }
    }
    // 4. m.room.aliases (v1-5)
    if v <= 5 && e.ty == "m.room.aliases" {
        return match &e.state_key {
            None => Err("4.1 aliases without state_key"),
            Some(k) if k != domain(&e.sender) => Err("4.2 aliases state_key is not sender's domain"),
            Some(_) => Ok("4.3 aliases allowed"),
        };
    }
    // 5. m.room.member
    if e.ty == "m.room.member" {
        return member(cx, e, create);
    }
    // 6. sender must be joined
    match cx.membership(&e.sender) {
        Some("join") => {}
        Some(_) => return Err("6 sender not joined"),
        None => {
            cx.silent.set(true);
            return Err("6 sender membership malformed");
        }
    }
    let Some(sender_level) = cx.user_level(&e.sender) else { return Err("malformed power levels (sender level)") };
    // 7. m.room.third_party_invite
    if e.ty == "m.room.third_party_invite" {
        let Some(invite) = cx.field("invite") else { return Err("malformed invite level") };
        return if sender_level >= invite { Ok("7 third_party_invite allowed") } else { Err("7 sender below invite level") };
    }
    // 8. required power level for the event type
    let required = {
        let from_events = cx.pl().and_then(|pl| pl.content.get("events")).and_then(|ev| ev.get(&e.ty));
        match from_events {
            Some(x) => cx.int(x),
            None => cx.field(if e.state_key.is_some() { "state_default" } else { "events_default" }),
        }
    };
    let Some(required) = required else { return Err("malformed required level") };
    if required > sender_level {
        return Err("8 sender below the event type's required level");
    }
    // 9. state_key naming another user
    if let Some(k) = &e.state_key {
        if k.starts_with('@') && *k != e.sender {
            return Err("9 state_key is another user's id");
        }
    }
    // 10. m.room.power_levels
    if e.ty == "m.room.power_levels" {
        return power_levels(cx, e, sender_level);
    }
    // 11. m.room.redaction (v1-2)
    if v <= 2 && e.ty == "m.room.redaction" {
        let Some(redact) = cx.field("redact") else { return Err("malformed redact level") };
        if sender_level >= redact {
            return Ok("11.1 redaction allowed by level");
        }
        let own = e.id.split_once(':').map(|x| x.1);
        let target = e.redacts.as_deref().and_then(|r| r.split_once(':')).map(|x| x.1);
        if own.is_some() && own == target {
            return Ok("11.2 redaction of an event of the same domain");
        }
        return Err("11.3 redaction rejected");
    }
    Ok("12 allowed")
}

fn member(cx: &Ctx<'_>, e: &Ev, create: &Ev) -> R {
    let v = cx.v;
    // 5.1
    let Some(target) = e.state_key.as_deref() else { return Err("5.1 member event without state_key") };
    let Some(membership) = e.content.get("membership").and_then(|m| m.as_str()) else { return Err("5.1 member event without membership") };
    if !is_user_id(target) {
        cx.silent.set(true);
        return Err("5.1 state_key is not a user id");
    }
    let m_of = |u: &str| -> Result<&str, &'static str> {
        cx.membership(u).ok_or_else(|| {
            cx.silent.set(true);
            "malformed member event in state"
        })
    };
    let level = |u: &str| cx.user_level(u).ok_or("malformed power levels");
    let field = |f: &str| cx.field(f).ok_or("malformed power level field");
    match membership {
        "join" => {
            let creator = cx.creator().ok_or("malformed create event (creator)")?;
            // 5.3.1
            if e.prev.len() == 1 && e.prev[0] == create.id && target == creator {
                return Ok("5.3.1 creator's first join");
            }
            if e.sender != target {
                return Err("5.3.2 sender does not match state_key");
            }
            let cur = m_of(target)?;
            if cur == "ban" {
                return Err("5.3.3 sender is banned");
            }
            let jr = match cx.join_rule() {
                Some(j) => j,
                None => {
                    // no (or malformed) join rules event: not spelled out by the rules
                    cx.silent.set(true);
                    return Err("5.3 no join rule");
                }
            };
            if (jr == "invite" || (v >= 7 && jr == "knock")) && matches!(cur, "invite" | "join") {
                return Ok("5.3.4 invited (or joined) user joins invite/knock room");
            }
            if (v >= 8 && jr == "restricted") || (v >= 10 && jr == "knock_restricted") {
                if matches!(cur, "join" | "invite") {
                    return Ok("5.3.5.1 invited (or joined) user joins restricted room");
                }
                let authoriser = match e.content.get("join_authorised_via_users_server") {
                    None => return Err("5.3.5.2 no authorising user"),
                    Some(Value::String(s)) if is_user_id(s) => s.as_str(),
                    Some(_) => return Err("5.3.5.2 malformed authorising user"),
                };
                if m_of(authoriser)? != "join" {
                    return Err("5.3.5.2 authorising user not joined");
                }
                return if level(authoriser)? >= field("invite")? { Ok("5.3.5.3 restricted join authorised") } else { Err("5.3.5.2 authorising user cannot invite") };
            }
            if jr == "public" {
                Ok("5.3.6 public room")
            } else {
                Err("5.3.7 join rule does not allow joining")
            }
        }
        "invite" => {
            if let Some(tpi) = e.content.get("third_party_invite") {
                // 5.4.1
                if m_of(target)? == "ban" {
                    return Err("5.4.1.1 target banned");
                }
                let Some(signed) = tpi.get("signed").filter(|s| s.is_object()) else { return Err("5.4.1.2 no signed") };
                let (Some(mxid), Some(token)) = (signed.get("mxid").and_then(|x| x.as_str()), signed.get("token").and_then(|x| x.as_str())) else {
                    return Err("5.4.1.3 signed lacks mxid or token");
                };
                if mxid != target {
                    return Err("5.4.1.4 mxid does not match state_key");
                }
                let Some(tpi_event) = cx.get("m.room.third_party_invite", token) else { return Err("5.4.1.5 no third_party_invite event for the token") };
                if tpi_event.sender != e.sender {
                    return Err("5.4.1.6 sender differs from the third_party_invite's sender");
                }
                // 5.4.1.7: any signature in signed matches any public key of the event
                let mut keys: Vec<Vec<u8>> = vec![];
                if let Some(k) = tpi_event.content.get("public_key").and_then(|k| k.as_str()) {
                    keys.extend(crate::b64_any(k));
                }
                if let Some(list) = tpi_event.content.get("public_keys").and_then(|k| k.as_array()) {
                    for entry in list {
                        if let Some(k) = entry.get("public_key").and_then(|k| k.as_str()) {
                            keys.extend(crate::b64_any(k));
                        }
                    }
                }
                let msg = crate::canonical_signed(signed);
                if let Some(sigs) = signed.get("signatures").and_then(|s| s.as_object()) {
                    for set in sigs.values() {
                        let Some(set) = set.as_object() else { continue };
                        for (kid, sig) in set {
                            if !kid.starts_with("ed25519:") {
                                continue;
                            }
                            let Some(sig) = sig.as_str().and_then(crate::b64_any) else { continue };
                            for k in &keys {
                                if crate::ed25519_verify(k, &msg, &sig) {
                                    return Ok("5.4.1.7 third-party invite signature matches");
                                }
                            }
                        }
                    }
                }
                return Err("5.4.1.8 no matching signature");
            }
            if m_of(&e.sender)? != "join" {
                return Err("5.4.2 inviter not joined");
            }
            if matches!(m_of(target)?, "join" | "ban") {
                return Err("5.4.3 target joined or banned");
            }
            if level(&e.sender)? >= field("invite")? {
                Ok("5.4.4 invite allowed")
            } else {
                Err("5.4.5 inviter below invite level")
            }
        }
        "leave" => {
            if e.sender == target {
                let cur = m_of(target)?;
                return if matches!(cur, "invite" | "join") || (v >= 7 && cur == "knock") { Ok("5.5.1 leaving / rejecting") } else { Err("5.5.1 cannot leave from this membership") };
            }
            if m_of(&e.sender)? != "join" {
                return Err("5.5.2 kicker not joined");
            }
            let sl = level(&e.sender)?;
            if m_of(target)? == "ban" && sl < field("ban")? {
                return Err("5.5.3 unban below ban level");
            }
            if sl >= field("kick")? && level(target)? < sl {
                Ok("5.5.4 kick allowed")
            } else {
                Err("5.5.5 kick rejected")
            }
        }
        "ban" => {
            if m_of(&e.sender)? != "join" {
                return Err("5.6.1 banner not joined");
            }
            let sl = level(&e.sender)?;
            if sl >= field("ban")? && level(target)? < sl {
                Ok("5.6.2 ban allowed")
            } else {
                Err("5.6.3 ban rejected")
            }
        }
        "knock" if v >= 7 => {
            let jr = match cx.join_rule() {
                Some(j) => j,
                None => {
                    cx.silent.set(true);
                    return Err("5.7 no join rule");
                }
            };
            if !(jr == "knock" || (v >= 10 && jr == "knock_restricted")) {
                return Err("5.7.1 join rule does not allow knocking");
            }
            if e.sender != target {
                return Err("5.7.2 sender does not match state_key");
            }
            if !matches!(m_of(&e.sender)?, "ban" | "invite" | "join") {
                Ok("5.7.3 knock allowed")
            } else {
                Err("5.7.4 cannot knock from this membership")
            }
        }
        _ => Err("5.8 unknown membership"),
    }
}

fn power_levels(cx: &Ctx<'_>, e: &Ev, sender_level: i64) -> R {
    let v = cx.v;
    let c = &e.content;
    const INT_FIELDS: [&str; 7] = ["users_default", "events_default", "state_default", "ban", "redact", "kick", "invite"];
    // 10.1 / 10.2 validation of the new content
    let lvl = |x: &Value| cx.int(x);
    for f in INT_FIELDS {
        if let Some(x) = c.get(f) {
            if lvl(x).is_none() {
                if v < 10 {
                    // before v10 only `users` has to be well-formed by the letter of the rules
                    cx.silent.set(true);
                }
                return Err("10.1 integer field malformed");
            }
        }
    }
    for m in ["events", "notifications"] {
        if let Some(x) = c.get(m) {
            let ok = x.as_object().is_some_and(|o| o.values().all(|y| lvl(y).is_some()));
            if !ok {
                if v < 10 {
                    cx.silent.set(true);
                }
                return Err("10.1 events/notifications malformed");
            }
        }
    }
    if let Some(x) = c.get("users") {
        let ok = x.as_object().is_some_and(|o| o.iter().all(|(k, y)| is_user_id(k) && lvl(y).is_some()));
        if !ok {
            return Err("10.2 users malformed");
        }
    }
    // 10.3
    let Some(cur) = cx.pl() else { return Ok("10.3 first power_levels event") };
    let cc = &cur.content;
    // 10.4 scalar fields
    for f in INT_FIELDS {
        let default = match f {
            "ban" | "kick" | "redact" | "state_default" => 50,
            _ => 0,
        };
        let old = cc.get(f).and_then(lvl);
        let new = c.get(f).and_then(lvl);
        if cc.get(f).is_some() && old.is_none() {
            cx.silent.set(true);
            return Err("malformed current power levels");
        }
        if old == new {
            continue;
        }
        match (old, new) {
            // removed: the current value is explicit and must not exceed the sender's level;
            // whether the field's default then counts as the "new value" is not spelled out
            (Some(o), None) => {
                if o > sender_level {
                    return Err("10.4.1 current value (of a removed field) above sender's level");
                }
                if default > sender_level {
                    cx.silent.set(true);
                }
            }
            // added: the new value is explicit; whether the default counts as "current value" is not
            (None, Some(n)) => {
                if n > sender_level {
                    return Err("10.4.2 new value (of an added field) above sender's level");
                }
                if default > sender_level {
                    cx.silent.set(true);
                }
            }
            _ => {
                if old.unwrap_or(default) > sender_level {
                    return Err("10.4.1 current value above sender's level");
                }
                if new.unwrap_or(default) > sender_level {
                    return Err("10.4.2 new value above sender's level");
                }
            }
        }
    }
    // 10.5 events (and notifications from v6)
    let mut maps = vec!["events"];
    if v >= 6 {
        maps.push("notifications");
    }
    for m in maps {
        let old = cc.get(m).and_then(|x| x.as_object());
        let new = c.get(m).and_then(|x| x.as_object());
        let keys: BTreeSet<&String> = old.iter().flat_map(|o| o.keys()).chain(new.iter().flat_map(|o| o.keys())).collect();
        for k in keys {
            let o = old.and_then(|o| o.get(k)).and_then(lvl);
            let n = new.and_then(|o| o.get(k)).and_then(lvl);
            if o == n {
                continue;
            }
            if o.is_some_and(|o| o > sender_level) {
                return Err("10.5.1 current entry above sender's level");
            }
            if n.is_some_and(|n| n > sender_level) {
                return Err("10.5.2 new entry above sender's level");
            }
        }
    }
    // 10.6 users
    let old = cc.get("users").and_then(|x| x.as_object());
    let new = c.get("users").and_then(|x| x.as_object());
    let keys: BTreeSet<&String> = old.iter().flat_map(|o| o.keys()).chain(new.iter().flat_map(|o| o.keys())).collect();
    for k in keys {
        let o = old.and_then(|o| o.get(k)).and_then(lvl);
        let n = new.and_then(|o| o.get(k)).and_then(lvl);
        if o == n {
            continue;
        }
        if *k != e.sender && o.is_some_and(|o| o >= sender_level) {
            return Err("10.6.1 current entry of another user at or above sender's level");
        }
        if n.is_some_and(|n| n > sender_level) {
            return Err("10.6.2 new entry above sender's level");
        }
    }
    Ok("10.7 power_levels allowed")
}

/// Auth-event selection (server-server API): the (type, state_key) pairs an event's auth events
/// are drawn from. `None`: not defined for this content (malformed / membership unknown to the
/// room version) - only totality is asserted then.
pub fn ref_selection(v: u8, e: &Ev) -> Option<BTreeSet<(String, String)>> {
    let mut s = BTreeSet::new();
    if e.ty == "m.room.create" {
        return Some(s);
    }
    let k = |t: &str, key: &str| (t.to_owned(), key.to_owned());
    s.insert(k("m.room.create", ""));
    s.insert(k("m.room.power_levels", ""));
    s.insert(k("m.room.member", &e.sender));
    if e.ty == "m.room.member" {
        let target = e.state_key.as_deref()?;
        s.insert(k("m.room.member", target));
        let membership = e.content.get("membership")?.as_str()?;
        // the selection algorithm (server-server specification) is written once for all room
        // versions: it names the join rules for join / invite / knock whether or not the room
        // version's authorization rules know the membership, and nothing extra for any other string
        if matches!(membership, "join" | "invite" | "knock") {
            s.insert(k("m.room.join_rules", ""));
        }
        if membership == "invite" {
            if let Some(tpi) = e.content.get("third_party_invite") {
                let token = tpi.get("signed")?.get("token")?.as_str()?;
                s.insert(k("m.room.third_party_invite", token));
            }
        }
        if membership == "join" && v >= 8 {
            match e.content.get("join_authorised_via_users_server") {
                None => {}
                Some(Value::String(u)) if is_user_id(u) => {
                    s.insert(k("m.room.member", u));
                }
                Some(_) => return None,
            }
        }
    }
    Some(s)
}
