//! C09 Auth-event selection matches the spec and authorization reads nothing else.

use std::{cell::RefCell, collections::BTreeSet};

use proptest::prelude::*;
use ruma_common::UserId;
use ruma_events::TimelineEventType;
use ruma_state_res::{auth_check, auth_types_for_event};
use serde::{Deserialize, Serialize};
use serde_json::json;
use vf_engine::{pick_idx, CaseCtx, Check};

use crate::{
    c08::{all_cases, brief_ev, ruma_state, AuthCase, CREATOR, ROOM},
    ev::{Ev, Pdu},
    refauth::ref_selection,
    rules_for,
};

#[derive(Serialize, Deserialize, Debug, Clone)]
pub enum Perturb {
    /// add or replace the membership of a user
    SetMember(u16, u8),
    /// remove the state entry selected by index (skipped if it is in the selection)
    Remove(u16),
    /// replace the content of the entry selected by index (skipped if selected)
    Replace(u16, u8),
    AddThirdPartyInvite(u8),
    AddState(u8),
}

#[derive(Serialize, Deserialize, Debug, Clone)]
pub struct SelCase {
    pub cell: usize,
    pub perturbs: Vec<Perturb>,
}

const USERS: [&str; 7] = ["@alice:hs1", "@bob:hs2.example", "@carol:hs1", "@dave:hs1", "@erin:hs3:8448", "@creator:hs1", "@frank:hs1"];
const MEMB: [&str; 5] = ["join", "leave", "invite", "ban", "knock"];

fn mk(ty: &str, key: &str, content: serde_json::Value, n: usize) -> Ev {
    Ev { id: format!("$pert{n}:hs1"), room_id: ROOM.into(), sender: CREATOR.into(), ts: 7, ty: ty.into(), state_key: Some(key.into()), content, prev: vec![], auth: vec![], redacts: None }
}

fn oracle_with(cases: &[AuthCase], c: &SelCase, cx: &mut CaseCtx) -> Result<(), String> {
    let base = &cases[c.cell.min(cases.len() - 1)];
    let v = base.version;
    let e = &base.event;
    let rules = rules_for(v).authorization;
    let Ok(pdu) = Pdu::from_ev(e) else {
        cx.class("not_expressible_as_ruma_event");
        return Ok(());
    };
    // (a) selection
    let want = ref_selection(v, e);
    let raw = serde_json::value::to_raw_value(&e.content).map_err(|x| x.to_string())?;
    let Ok(sender) = <&UserId>::try_from(e.sender.as_str()) else { return Ok(()) };
    let got = auth_types_for_event(&TimelineEventType::from(e.ty.as_str()), sender, e.state_key.as_deref(), &raw, &rules);
    // the content handed over as a different spelling of the same JSON (key order, escaped key and
    // string characters, whitespace) selects the same pairs
    {
        let h = vf_engine::fnv(e.content.to_string().as_bytes());
        let text = vf_ref::respell::respell(&e.content, (h >> 8) as u8, (h >> 16) as u8 % 15 + 1, &mut 0);
        if let Ok(raw2) = serde_json::value::RawValue::from_string(text.clone()) {
            let got2 = auth_types_for_event(&TimelineEventType::from(e.ty.as_str()), sender, e.state_key.as_deref(), &raw2, &rules);
            let norm = |r: &Result<Vec<(ruma_events::StateEventType, String)>, String>| r.as_ref().ok().map(|g| g.iter().map(|(t, k)| (t.to_string(), k.clone())).collect::<BTreeSet<_>>());
            if norm(&got) != norm(&got2) {
                return Err(format!("room version {v}: auth-event selection for {} depends on how the content is spelled: {text} selects {:?}, the plain spelling {:?}", brief_ev(e), norm(&got2), norm(&got)));
            }
            cx.class("content_respelled");
        }
    }
    let selection: BTreeSet<(String, String)> = match (&want, &got) {
        (Some(w), Ok(g)) => {
            let gs: BTreeSet<(String, String)> = g.iter().map(|(t, k)| (t.to_string(), k.clone())).collect();
            if gs != *w {
                return Err(format!(
                    "room version {v}: auth-event selection for {} is {:?}, the specification selects {:?}",
                    brief_ev(e),
                    gs.iter().map(|(t, k)| format!("{}|{k}", t.trim_start_matches("m.room."))).collect::<Vec<_>>(),
                    w.iter().map(|(t, k)| format!("{}|{k}", t.trim_start_matches("m.room."))).collect::<Vec<_>>()
                ));
            }
            cx.class("selection_compared");
            w.clone()
        }
        (None, Ok(g)) => {
            cx.class("selection_undefined_for_version_or_malformed");
            g.iter().map(|(t, k)| (t.to_string(), k.clone())).collect()
        }
        (Some(w), Err(err)) => {
            // the reference yields a selection only when every field the selection rules read is
            // well-formed, so a refusal here means ruma read (and choked on) something else
            return Err(format!(
                "room version {v}: auth-event selection for {} fails ({err}) although every field the selection rules read is well-formed; the specification selects {:?}",
                brief_ev(e),
                w.iter().map(|(t, k)| format!("{}|{k}", t.trim_start_matches("m.room."))).collect::<Vec<_>>()
            ));
        }
        (None, Err(_)) => {
            cx.class("selection_error_totality_only");
            return Ok(());
        }
    };
    cx.class_if(selection.len() >= 4, "selection_ge_4_pairs");
    // (b) reads only selected pairs
    let Ok(rs) = ruma_state(&base.state) else { return Ok(()) };
    let log: RefCell<BTreeSet<(String, String)>> = RefCell::new(BTreeSet::new());
    let base_result = auth_check(&rules, &*pdu, |ty, key| {
        log.borrow_mut().insert((ty.to_string(), key.to_owned()));
        rs.get(&(ty.to_string(), key.to_owned())).cloned()
    })
    .is_ok();
    for k in log.borrow().iter() {
        if !selection.contains(k) {
            return Err(format!("room version {v}: authorising {} read the state entry ({}, {:?}) which is not one of its auth events {:?}", brief_ev(e), k.0, k.1, selection));
        }
    }
    // (c) perturbations outside the selection never change the outcome
    let mut state = base.state.clone();
    let mut touched_same_type = false;
    let mut applied = 0;
    for (n, p) in c.perturbs.iter().enumerate() {
        match p {
            Perturb::SetMember(u, m) => {
                let user = USERS[pick_idx(*u, USERS.len())];
                let key = ("m.room.member".to_owned(), user.to_owned());
                if selection.contains(&key) {
                    continue;
                }
                state.retain(|x| x.key().as_ref() != Some(&key));
                state.push(mk("m.room.member", user, json!({"membership": MEMB[*m as usize % 5]}), n));
                touched_same_type = true;
                applied += 1;
            }
            Perturb::Remove(i) => {
                let idxs: Vec<usize> = state.iter().enumerate().filter(|(_, x)| x.key().is_some_and(|k| !selection.contains(&k))).map(|x| x.0).collect();
                if idxs.is_empty() {
                    continue;
                }
                state.remove(idxs[pick_idx(*i, idxs.len())]);
                applied += 1;
            }
            Perturb::Replace(i, how) => {
                let idxs: Vec<usize> = state.iter().enumerate().filter(|(_, x)| x.key().is_some_and(|k| !selection.contains(&k))).map(|x| x.0).collect();
                if idxs.is_empty() {
                    continue;
                }
                let j = idxs[pick_idx(*i, idxs.len())];
                state[j].content = match how % 3 {
                    0 => json!({}),
                    1 => json!({"membership": "ban", "join_rule": "public", "users": {}, "ban": 0}),
                    _ => json!({"membership": "join", "join_rule": "invite", "invite": 100, "kick": 100}),
                };
                if state[j].ty == "m.room.member" {
                    touched_same_type = true;
                }
                applied += 1;
            }
            Perturb::AddThirdPartyInvite(t) => {
                let tok = ["other-token", "tok2", "x"][*t as usize % 3];
                let key = ("m.room.third_party_invite".to_owned(), tok.to_owned());
                if selection.contains(&key) {
                    continue;
                }
                state.retain(|x| x.key().as_ref() != Some(&key));
                state.push(mk("m.room.third_party_invite", tok, json!({"public_key": "AAAA", "public_keys": [{"public_key": "BBBB"}]}), n));
                applied += 1;
            }
            Perturb::AddState(t) => {
                let (ty, key, content) = [
                    ("m.room.topic", "", json!({"topic": "t"})),
                    ("m.room.join_rules", "x-not-empty-key", json!({"join_rule": "public"})),
                    ("m.room.power_levels", "x-not-empty-key", json!({"users_default": 100})),
                    ("m.room.create", "x-not-empty-key", json!({"creator": "@frank:hs1"})),
                    ("m.room.server_acl", "", json!({"deny": ["*"]})),
                ][*t as usize % 5]
                    .clone();
                let k = (ty.to_owned(), key.to_owned());
                if selection.contains(&k) {
                    continue;
                }
                state.retain(|x| x.key().as_ref() != Some(&k));
                state.push(mk(ty, key, content, n));
                applied += 1;
            }
        }
    }
    if applied > 0 {
        let Ok(rs2) = ruma_state(&state) else { return Ok(()) };
        let r2 = auth_check(&rules, &*pdu, |ty, key| rs2.get(&(ty.to_string(), key.to_owned())).cloned()).is_ok();
        cx.more_evals(1);
        if r2 != base_result {
            return Err(format!(
                "room version {v}: the outcome of authorising {} changed from {base_result} to {r2} after changing only state entries outside its auth events {:?}; perturbations {:?}",
                brief_ev(e),
                selection,
                c.perturbs
            ));
        }
        cx.class("perturbed");
    }
    cx.class_if(touched_same_type, "perturbed_same_type_as_selected");
    cx.nontrivial_if((e.ty == "m.room.member" && selection.len() >= 4) || touched_same_type);
    Ok(())
}

pub fn run(ck: &mut Check) {
    ck.rule(
        "Events and states: every cell of C08's rule-group products (all room versions, all types, memberships, third-party-invite and restricted-join contents, malformed contents). \
         (a) G2: auth_types_for_event as a set equals the reference selection for every cell; (b) the fetch_state closure logs every (type, state_key) auth_check requests: the log must be a subset of the selection; \
         (c) G1: up to 6 perturbations of state entries outside the selection (other users' memberships, other third-party-invite tokens, unrelated state, same types under other state keys, removals, content replacements) must not change the outcome. \
         Non-trivial = member event with >= 4 selected pairs, or a perturbation touching an entry of the same type as a selected one.",
    );
    ck.assume("for memberships the room version does not define and for contents ruma refuses to select for, only totality is asserted");
    let cases = std::sync::Arc::new(all_cases());
    let n = cases.len();
    {
        let cases = cases.clone();
        ck.exhaustive(
            "selection_and_reads_all_cells",
            true,
            move |s, k| (0..n).skip(s as usize).step_by(k as usize).map(|cell| SelCase { cell, perturbs: vec![] }),
            move |c, cx| oracle_with(&cases, c, cx),
        );
    }
    ck.floor("selection_and_reads_all_cells", "selection_compared", 50_000);
    ck.floor("selection_and_reads_all_cells", "selection_ge_4_pairs", 5_000);
    let cnt = ck.n(400_000, 5_000_000);
    let cases2 = cases.clone();
    ck.prop(
        "perturbations_outside_selection",
        cnt,
        move || {
            let p = prop_oneof![
                4 => (any::<u16>(), any::<u8>()).prop_map(|(u, m)| Perturb::SetMember(u, m)),
                2 => any::<u16>().prop_map(Perturb::Remove),
                2 => (any::<u16>(), any::<u8>()).prop_map(|(i, h)| Perturb::Replace(i, h)),
                1 => any::<u8>().prop_map(Perturb::AddThirdPartyInvite),
                2 => any::<u8>().prop_map(Perturb::AddState),
            ];
            (0..n, prop::collection::vec(p, 1..7)).prop_map(|(cell, perturbs)| SelCase { cell, perturbs })
        },
        move |c, cx| oracle_with(&cases2, c, cx),
    );
    ck.floor("perturbations_outside_selection", "perturbed", 50_000);
    ck.floor("perturbations_outside_selection", "perturbed_same_type_as_selected", 20_000);
}
