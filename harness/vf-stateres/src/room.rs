//! Simulated multi-server room histories (event DAGs with forks and merges) and a reference
//! implementation of state resolution v2 written from the specification text over ordered
//! containers. Used by C06 and C07.

use std::collections::{BTreeMap, BTreeSet, HashMap, HashSet};

use proptest::prelude::*;
use ruma_common::OwnedEventId;
use ruma_events::StateEventType;
use ruma_state_res::{auth_check, StateMap};
use serde::{Deserialize, Serialize};
use serde_json::{json, Value};
use vf_engine::pick_idx;

use crate::{
    ev::{eid, Ev, Pdu, PduRef},
    refauth::ref_selection,
    rules_for,
};

pub type Key = (String, String);
pub type SMap = BTreeMap<Key, String>;

pub const USERS: [&str; 5] = ["@creator:s1", "@alice:s1", "@bob:s2", "@carol:s3", "@dave:s2"];
pub const ROOM: &str = "!room:s1";

#[derive(Serialize, Deserialize, Debug, Clone, PartialEq)]
pub enum Action {
    Join,
    Leave,
    Knock,
    Invite(u8),
    Kick(u8),
    Ban(u8),
    Unban(u8),
    /// set a user's level: (target, level selector)
    SetUserLevel(u8, u8),
    /// set a scalar field: (field selector, level selector)
    SetField(u8, u8),
    SetJoinRule(u8),
    /// ordinary state: (type selector, state key selector, value)
    SetState(u8, u8, u8),
    /// set an entry of the `events` / `notifications` map: (map selector, key selector, level selector)
    SetMapEntry(u8, u8, u8),
    /// send power levels without the `events` / `notifications` / `users` map
    DropMap(u8),
}

#[derive(Serialize, Deserialize, Debug, Clone, PartialEq)]
pub enum Op {
    Act { head: u16, user: u8, action: Action, ts: u8, salt: u8 },
    Fork { head: u16 },
    Merge { a: u16, b: u16, ts: u8, salt: u8 },
}

#[derive(Serialize, Deserialize, Debug, Clone)]
pub struct History {
    /// authorization rules of room version 2..=11
    pub version: u8,
    pub initial_power_levels: bool,
    /// bit 0: 0 timestamps as given, 1 all from {0,1,2}; bits 1-2: order of every event's
    /// `auth_events` list (0 sorted by type as selected, 1 reversed, 2 rotated per event) - the
    /// list is a set as far as the specification is concerned
    pub ts_mode: u8,
    pub ops: Vec<Op>,
    /// instances: each a selection of 2-4 DAG nodes whose states are merged
    pub picks: Vec<Vec<u16>>,
}

pub struct Room {
    pub version: u8,
    pub events: BTreeMap<String, Ev>,
    pub order: Vec<String>,
    pub state_after: BTreeMap<String, SMap>,
    pub heads: Vec<String>,
    pub pdus: HashMap<OwnedEventId, PduRef>,
    pub skipped_ops: usize,
    pub merges: usize,
    counter: u32,
    auth_order: u8,
}

const LEVELS: [i64; 5] = [0, 25, 50, 75, 100];
const FIELDS: [&str; 7] = ["ban", "kick", "invite", "state_default", "events_default", "users_default", "redact"];
const JOIN_RULES: [&str; 4] = ["public", "invite", "knock", "restricted"];
const STATE_TYPES: [&str; 3] = ["m.room.topic", "m.room.name", "org.example.state"];

impl Room {
    pub fn fetch(&self, id: &ruma_common::EventId) -> Option<PduRef> {
        self.pdus.get(id).cloned()
    }

    fn new_id(&mut self, salt: u8) -> String {
        self.counter += 1;
        // the salt dominates the ordering of ids, independent of creation order
        format!("${}{}x{}", (b'a' + salt % 26) as char, (b'a' + (salt / 26) % 10) as char, self.counter)
    }

    fn push(&mut self, e: Ev, state_before: &SMap) -> String {
        let mut st = state_before.clone();
        if let Some(k) = e.key() {
            st.insert(k, e.id.clone());
        }
        let id = e.id.clone();
        self.pdus.insert(OwnedEventId::try_from(id.as_str()).expect("id"), Pdu::from_ev(&e).expect("pdu"));
        self.state_after.insert(id.clone(), st);
        self.order.push(id.clone());
        self.events.insert(id.clone(), e);
        id
    }

    /// Whether `e` is allowed against `state`: the reference authorization rules (`refauth`, the
    /// model C08 compares ruma with) decide; only where the specification leaves the verdict open
    /// does ruma's own auth_check stand in.
    fn allowed(&self, e: &Ev, state: &SMap) -> bool {
        let Ok(pdu) = Pdu::from_ev(e) else { return false };
        self.authorised(e, &pdu, state)
    }

    fn authorised(&self, e: &Ev, pdu: &PduRef, state: &BTreeMap<Key, String>) -> bool {
        let ref_state: crate::ev::RefState = state.iter().filter_map(|(k, id)| self.events.get(id).map(|x| (k.clone(), x.clone()))).collect();
        let d = crate::refauth::ref_auth(self.version, e, &ref_state);
        if !d.silent {
            return d.accept;
        }
        let rules = rules_for(self.version).authorization;
        auth_check(&rules, &**pdu, |ty, key| state.get(&(ty.to_string(), key.to_owned())).and_then(|id| self.pdus.get(eid(id)).cloned())).is_ok()
    }

    fn make_event(&mut self, state: &SMap, prev: Vec<String>, ty: &str, key: Option<&str>, sender: &str, content: Value, ts: u64, salt: u8) -> Ev {
        let mut e = Ev { id: self.new_id(salt), room_id: ROOM.into(), sender: sender.into(), ts, ty: ty.into(), state_key: key.map(Into::into), content, prev, auth: vec![], redacts: None };
        if let Some(sel) = ref_selection(self.version, &e) {
            for k in sel {
                if let Some(id) = state.get(&k) {
                    e.auth.push(id.clone());
                }
            }
        }
        match self.auth_order {
            1 => e.auth.reverse(),
            2 if !e.auth.is_empty() => {
                let k = (self.counter as usize + salt as usize) % e.auth.len();
                e.auth.rotate_left(k);
            }
            _ => {}
        }
        e
    }

    pub fn build(h: &History) -> Room {
        let mut r = Room { version: h.version, events: BTreeMap::new(), order: vec![], state_after: BTreeMap::new(), heads: vec![], pdus: HashMap::new(), skipped_ops: 0, merges: 0, counter: 0, auth_order: (h.ts_mode >> 1) & 3 };
        let ts = |t: u8| -> u64 {
            if h.ts_mode & 1 == 1 {
                (t % 3) as u64
            } else {
                t as u64
            }
        };
        // fixed prefix: create, creator join, [power levels], join rules
        let empty = SMap::new();
        let mut content = json!({"room_version": h.version.to_string()});
        if h.version <= 10 {
            content["creator"] = json!(USERS[0]);
        }
        let create = r.make_event(&empty, vec![], "m.room.create", Some(""), USERS[0], content, 0, 0);
        let mut tip = r.push(create, &empty);
        let st = r.state_after[&tip].clone();
        let e = r.make_event(&st, vec![tip.clone()], "m.room.member", Some(USERS[0]), USERS[0], json!({"membership": "join"}), 0, 1);
        tip = r.push(e, &st);
        if h.initial_power_levels {
            let st = r.state_after[&tip].clone();
            let e = r.make_event(&st, vec![tip.clone()], "m.room.power_levels", Some(""), USERS[0], json!({"users": {USERS[0]: 100}, "state_default": 50, "events": {"m.room.topic": 25}}), 1, 2);
            tip = r.push(e, &st);
        }
        let st = r.state_after[&tip].clone();
        let e = r.make_event(&st, vec![tip.clone()], "m.room.join_rules", Some(""), USERS[0], json!({"join_rule": "public"}), 1, 3);
        tip = r.push(e, &st);
        r.heads.push(tip);
        for op in &h.ops {
            match op {
                Op::Fork { head } => {
                    if r.heads.len() < 4 {
                        let hd = r.heads[pick_idx(*head, r.heads.len())].clone();
                        r.heads.push(hd);
                    }
                }
                Op::Merge { a, b, ts: t, salt } => {
                    let (ia, ib) = (pick_idx(*a, r.heads.len()), pick_idx(*b, r.heads.len()));
                    if ia == ib || r.heads[ia] == r.heads[ib] {
                        r.skipped_ops += 1;
                        continue;
                    }
                    let (ha, hb) = (r.heads[ia].clone(), r.heads[ib].clone());
                    let sets = vec![r.state_after[&ha].clone(), r.state_after[&hb].clone()];
                    let resolved = ref_resolve(&r, &sets);
                    // the merge event: a state event by some joined user that is allowed
                    let mut done = false;
                    for u in USERS {
                        let e = r.make_event(&resolved, vec![ha.clone(), hb.clone()], "org.example.merge", Some(""), u, json!({"n": r.counter}), ts(*t), *salt);
                        if r.allowed(&e, &resolved) {
                            let id = r.push(e, &resolved);
                            let (lo, hi) = (ia.min(ib), ia.max(ib));
                            r.heads[lo] = id;
                            r.heads.remove(hi);
                            r.merges += 1;
                            done = true;
                            break;
                        }
                    }
                    if !done {
                        r.skipped_ops += 1;
                    }
                }
                Op::Act { head, user, action, ts: t, salt } => {
                    let hi = pick_idx(*head, r.heads.len());
                    let tip = r.heads[hi].clone();
                    let st = r.state_after[&tip].clone();
                    let u = USERS[*user as usize % USERS.len()];
                    let target = |t: &u8| USERS[*t as usize % USERS.len()];
                    let cur_pl: Value = st.get(&("m.room.power_levels".to_owned(), String::new())).map(|id| r.events[id].content.clone()).unwrap_or_else(|| json!({"users": {USERS[0]: 100}}));
                    let (ty, key, content): (&str, Option<String>, Value) = match action {
                        Action::Join => ("m.room.member", Some(u.into()), json!({"membership": "join"})),
                        Action::Leave => ("m.room.member", Some(u.into()), json!({"membership": "leave"})),
                        Action::Knock => ("m.room.member", Some(u.into()), json!({"membership": "knock"})),
                        Action::Invite(t) => ("m.room.member", Some(target(t).into()), json!({"membership": "invite"})),
                        Action::Kick(t) | Action::Unban(t) => ("m.room.member", Some(target(t).into()), json!({"membership": "leave"})),
                        Action::Ban(t) => ("m.room.member", Some(target(t).into()), json!({"membership": "ban"})),
                        Action::SetUserLevel(t, l) => {
                            let mut c = cur_pl.clone();
                            if !c["users"].is_object() {
                                c["users"] = json!({});
                            }
                            c["users"][target(t)] = json!(LEVELS[*l as usize % LEVELS.len()]);
                            ("m.room.power_levels", Some(String::new()), c)
                        }
                        Action::SetField(f, l) => {
                            let mut c = cur_pl.clone();
                            c[FIELDS[*f as usize % FIELDS.len()]] = json!(LEVELS[*l as usize % LEVELS.len()]);
                            ("m.room.power_levels", Some(String::new()), c)
                        }
                        Action::SetMapEntry(m, k, l) => {
                            let mut c = cur_pl.clone();
                            let (m, key) = if m % 2 == 0 { ("events", ["m.room.topic", "m.room.name", "m.room.power_levels", "m.room.member", "m.room.join_rules"][*k as usize % 5]) } else { ("notifications", "room") };
                            if !c[m].is_object() {
                                c[m] = json!({});
                            }
                            c[m][key] = json!(LEVELS[*l as usize % LEVELS.len()]);
                            ("m.room.power_levels", Some(String::new()), c)
                        }
                        Action::DropMap(m) => {
                            let mut c = cur_pl.clone();
                            if let Some(o) = c.as_object_mut() {
                                o.remove(["events", "notifications", "users"][*m as usize % 3]);
                            }
                            ("m.room.power_levels", Some(String::new()), c)
                        }
                        Action::SetJoinRule(j) => ("m.room.join_rules", Some(String::new()), json!({"join_rule": JOIN_RULES[*j as usize % JOIN_RULES.len()]})),
                        Action::SetState(t, k, v) => (STATE_TYPES[*t as usize % 3], Some(["", "x"][*k as usize % 2].to_owned()), json!({"v": v % 4})),
                    };
                    let e = r.make_event(&st, vec![tip.clone()], ty, key.as_deref(), u, content, ts(*t), *salt);
                    // honest servers only send events that are valid on their own branch
                    if r.allowed(&e, &st) {
                        let id = r.push(e, &st);
                        r.heads[hi] = id;
                    } else {
                        r.skipped_ops += 1;
                    }
                }
            }
        }
        r
    }

    /// Full (recursive) auth chain of a state set.
    pub fn auth_chain(&self, state: &SMap) -> BTreeSet<String> {
        let mut out = BTreeSet::new();
        let mut stack: Vec<&String> = state.values().collect();
        while let Some(id) = stack.pop() {
            if let Some(e) = self.events.get(id) {
                for a in &e.auth {
                    if out.insert(a.clone()) {
                        stack.push(a);
                    }
                }
            }
        }
        out
    }
}

// ---------------------------------------------------------------------------------------------
// Reference state resolution v2

pub struct RefTrace {
    pub conflicted: usize,
    pub auth_diff_not_in_conflicted: bool,
    pub power_events: usize,
    pub rejected_in_iterative_auth: usize,
    pub no_pl_ancestor_in_mainline_phase: bool,
    pub tie_pl_ts: bool,
    pub closure_differs_from_conflicted_path_closure: bool,
}

fn is_power_event(e: &Ev) -> bool {
    match (e.ty.as_str(), e.state_key.as_deref()) {
        ("m.room.power_levels", Some("")) | ("m.room.join_rules", Some("")) => true,
        ("m.room.member", Some(k)) => matches!(e.membership(), Some("leave" | "ban")) && k != e.sender,
        _ => false,
    }
}

fn pl_of_auth<'a>(r: &'a Room, e: &Ev) -> Option<&'a Ev> {
    e.auth.iter().filter_map(|a| r.events.get(a)).find(|x| x.ty == "m.room.power_levels" && x.state_key.as_deref() == Some(""))
}

/// Power level of the event's sender as per the power-levels event among the event's auth events.
fn sender_level(r: &Room, e: &Ev) -> i64 {
    match pl_of_auth(r, e) {
        Some(pl) => {
            let lvl = |v: &Value| v.as_i64().or_else(|| v.as_str().and_then(|s| s.trim().parse().ok()));
            pl.content.get("users").and_then(|u| u.get(&e.sender)).and_then(lvl).or_else(|| pl.content.get("users_default").and_then(lvl)).unwrap_or(0)
        }
        None => {
            let creator = e.auth.iter().filter_map(|a| r.events.get(a)).find(|x| x.ty == "m.room.create").map(|c| if r.version >= 11 { c.sender.clone() } else { c.content.get("creator").and_then(|x| x.as_str()).unwrap_or("").to_owned() });
            if creator.as_deref() == Some(e.sender.as_str()) {
                100
            } else {
                0
            }
        }
    }
}

pub fn ref_resolve(r: &Room, sets: &[SMap]) -> SMap {
    ref_resolve_traced(r, sets).0
}

pub fn ref_resolve_traced(r: &Room, sets: &[SMap]) -> (SMap, RefTrace) {
    ref_resolve_variant(r, sets, false)
}

/// `conflate_no_ancestor`: the single deviation of known finding C07/mainline_depth_conflation -
/// an event without power-levels ancestor gets the position of the oldest mainline event instead
/// of infinity. Used only to recognise that finding precisely.
pub fn ref_resolve_variant(r: &Room, sets: &[SMap], conflate_no_ancestor: bool) -> (SMap, RefTrace) {
    let mut trace = RefTrace { conflicted: 0, auth_diff_not_in_conflicted: false, power_events: 0, rejected_in_iterative_auth: 0, no_pl_ancestor_in_mainline_phase: false, tie_pl_ts: false, closure_differs_from_conflicted_path_closure: false };
    // 1. unconflicted state map and conflicted state set
    let keys: BTreeSet<&Key> = sets.iter().flat_map(|s| s.keys()).collect();
    let mut unconflicted = SMap::new();
    let mut conflicted: BTreeSet<String> = BTreeSet::new();
    for k in keys {
        let vals: Vec<Option<&String>> = sets.iter().map(|s| s.get(k)).collect();
        if vals.iter().all(|v| v.is_some() && *v == vals[0]) {
            unconflicted.insert(k.clone(), vals[0].unwrap().clone());
        } else {
            for v in vals.into_iter().flatten() {
                conflicted.insert(v.clone());
            }
        }
    }
    trace.conflicted = conflicted.len();
    if conflicted.is_empty() {
        return (unconflicted, trace);
    }
    // 2. auth difference
    let chains: Vec<BTreeSet<String>> = sets.iter().map(|s| r.auth_chain(s)).collect();
    let union: BTreeSet<String> = chains.iter().flatten().cloned().collect();
    let auth_diff: BTreeSet<String> = union.into_iter().filter(|id| !chains.iter().all(|c| c.contains(id))).collect();
    trace.auth_diff_not_in_conflicted = auth_diff.iter().any(|id| !conflicted.contains(id));
    // 3. full conflicted set
    let full: BTreeSet<String> = conflicted.union(&auth_diff).cloned().collect();
    // 4. power events plus their auth-chain members inside the full conflicted set
    let mut x: BTreeSet<String> = BTreeSet::new();
    let mut x_path: BTreeSet<String> = BTreeSet::new();
    for id in &full {
        let e = &r.events[id];
        if is_power_event(e) {
            trace.power_events += 1;
            x.insert(id.clone());
            // the whole auth chain of the power event, intersected with the full conflicted set
            let mut stack = vec![id];
            let mut seen = BTreeSet::new();
            while let Some(cur) = stack.pop() {
                for a in &r.events[cur].auth {
                    if seen.insert(a) {
                        if full.contains(a) {
                            x.insert(a.clone());
                        }
                        stack.push(a);
                    }
                }
            }
            // variant that only walks through members of the full conflicted set
            let mut stack = vec![id];
            x_path.insert(id.clone());
            while let Some(cur) = stack.pop() {
                for a in &r.events[cur].auth {
                    if full.contains(a) && x_path.insert(a.clone()) {
                        stack.push(a);
                    }
                }
            }
        }
    }
    trace.closure_differs_from_conflicted_path_closure = x != x_path;
    // reverse topological power ordering
    let key_of = |id: &String| {
        let e = &r.events[id];
        (-sender_level(r, e), e.ts, id.clone())
    };
    let mut sorted: Vec<String> = vec![];
    let mut remaining: BTreeSet<String> = x.clone();
    while !remaining.is_empty() {
        let ready: Vec<&String> = remaining.iter().filter(|id| r.events[*id].auth.iter().all(|a| !remaining.contains(a))).collect();
        let keys: Vec<(i64, u64, String)> = ready.iter().map(|id| key_of(id)).collect();
        let best = keys.iter().min().expect("acyclic");
        if keys.iter().filter(|k| k.0 == best.0 && k.1 == best.1).count() > 1 {
            trace.tie_pl_ts = true;
        }
        let id = best.2.clone();
        remaining.remove(&id);
        sorted.push(id);
    }
    // 5. iterative auth checks from the unconflicted state
    let mut partial = unconflicted.clone();
    iterative_auth(r, &sorted, &mut partial, &mut trace);
    // 6. remaining events in mainline ordering of the resolved power levels event
    let rest: Vec<String> = full.iter().filter(|id| !x.contains(*id)).cloned().collect();
    let mut mainline: Vec<String> = vec![];
    let mut cur = partial.get(&("m.room.power_levels".to_owned(), String::new())).cloned();
    while let Some(p) = cur {
        cur = pl_of_auth(r, &r.events[&p]).map(|e| e.id.clone());
        mainline.push(p);
    }
    // mainline position: index i of the closest mainline ancestor P_i (P_0 = resolved event),
    // or infinity when no event of the chain e_1.. is on the mainline
    let position = |id: &String| -> Option<usize> {
        let mut e = pl_of_auth(r, &r.events[id]);
        while let Some(p) = e {
            if let Some(i) = mainline.iter().position(|m| *m == p.id) {
                return Some(i);
            }
            e = pl_of_auth(r, p);
        }
        None
    };
    let mut keyed: Vec<((u8, std::cmp::Reverse<usize>, u64, String), String)> = rest
        .iter()
        .map(|id| {
            let pos = position(id);
            if pos.is_none() && !mainline.is_empty() {
                trace.no_pl_ancestor_in_mainline_phase = true;
            }
            // greater position first; infinity greatest
            let pos = match pos {
                None if conflate_no_ancestor && !mainline.is_empty() => Some(mainline.len() - 1),
                p => p,
            };
            let k = match pos {
                None => (0u8, std::cmp::Reverse(0usize), r.events[id].ts, id.clone()),
                Some(i) => (1u8, std::cmp::Reverse(i), r.events[id].ts, id.clone()),
            };
            (k, id.clone())
        })
        .collect();
    keyed.sort();
    for w in keyed.windows(2) {
        if w[0].0 .0 == w[1].0 .0 && w[0].0 .1 == w[1].0 .1 && w[0].0 .2 == w[1].0 .2 {
            trace.tie_pl_ts = true;
        }
    }
    let order: Vec<String> = keyed.into_iter().map(|x| x.1).collect();
    iterative_auth(r, &order, &mut partial, &mut trace);
    // 7. unconflicted entries overlaid last
    for (k, v) in unconflicted {
        partial.insert(k, v);
    }
    (partial, trace)
}

fn iterative_auth(r: &Room, order: &[String], partial: &mut SMap, trace: &mut RefTrace) {
    for id in order {
        let e = &r.events[id];
        let Some(key) = e.key() else { continue };
        // auth state: the event's own auth events, overridden by the partial state for the
        // (type, state_key) pairs the authorization rules need
        let mut auth_state: BTreeMap<Key, String> = BTreeMap::new();
        for a in &e.auth {
            if let Some(k) = r.events.get(a).and_then(|x| x.key()) {
                auth_state.insert(k, a.clone());
            }
        }
        let Some(sel) = ref_selection(r.version, e) else { continue };
        for k in sel {
            if let Some(v) = partial.get(&k) {
                auth_state.insert(k, v.clone());
            }
        }
        let pdu = &r.pdus[eid(id)];
        let ok = r.authorised(e, pdu, &auth_state);
        if ok {
            partial.insert(key, id.clone());
        } else {
            trace.rejected_in_iterative_auth += 1;
        }
    }
}

// ---------------------------------------------------------------------------------------------
// ruma side

pub fn to_state_map(s: &SMap) -> StateMap<OwnedEventId> {
    s.iter().map(|((t, k), id)| ((StateEventType::from(t.as_str()), k.clone()), OwnedEventId::try_from(id.as_str()).expect("id"))).collect()
}

pub fn from_state_map(m: &StateMap<OwnedEventId>) -> SMap {
    m.iter().map(|((t, k), id)| ((t.to_string(), k.clone()), id.to_string())).collect()
}

/// One resolution of an unrelated room (another creator, conflicting power events that have no
/// power-levels event among their auth events) before the first real one: whatever a resolution
/// leaves behind in the process must not influence later resolutions of other rooms.
fn decoy_resolution() {
    let h = History {
        version: 6,
        initial_power_levels: false,
        ts_mode: 0,
        ops: vec![
            Op::Act { head: 0, user: 1, action: Action::Join, ts: 2, salt: 1 },
            Op::Fork { head: 0 },
            Op::Act { head: 0, user: 0, action: Action::SetJoinRule(1), ts: 5, salt: 2 },
            Op::Act { head: 65535, user: 0, action: Action::SetJoinRule(2), ts: 6, salt: 3 },
            Op::Act { head: 0, user: 0, action: Action::SetUserLevel(1, 2), ts: 7, salt: 4 },
        ],
        picks: vec![],
    };
    let built = Room::build(&h);
    let rename = |x: &str| x.replace(USERS[0], "@decoy:s9");
    let mut r = Room { version: built.version, events: BTreeMap::new(), order: built.order.clone(), state_after: built.state_after.clone(), heads: built.heads.clone(), pdus: HashMap::new(), skipped_ops: 0, merges: 0, counter: 0, auth_order: 0 };
    for (id, e) in &built.events {
        let mut e = e.clone();
        e.sender = rename(&e.sender);
        e.state_key = e.state_key.as_deref().map(rename);
        e.content = serde_json::from_str(&rename(&e.content.to_string())).unwrap_or(Value::Null);
        if let Ok(p) = Pdu::from_ev(&e) {
            r.pdus.insert(p.id.clone(), p);
        }
        r.events.insert(id.clone(), e);
    }
    let sets: Vec<SMap> = r.heads.iter().filter_map(|hd| r.state_after.get(hd).cloned()).collect();
    if sets.len() < 2 {
        return;
    }
    let chains: Vec<BTreeSet<String>> = sets.iter().map(|s| r.auth_chain(s)).collect();
    let rules = rules_for(r.version).authorization;
    let maps: Vec<StateMap<OwnedEventId>> = sets.iter().map(to_state_map).collect();
    let chain_sets: Vec<HashSet<OwnedEventId>> = chains.iter().map(|c| c.iter().filter_map(|id| OwnedEventId::try_from(id.as_str()).ok()).collect()).collect();
    let _ = ruma_state_res::resolve(&rules, maps.iter(), chain_sets, |id| r.fetch(id));
}

pub fn ruma_resolve(r: &Room, sets: &[SMap], chains: &[BTreeSet<String>]) -> Result<SMap, String> {
    static DECOY: std::sync::Once = std::sync::Once::new();
    DECOY.call_once(decoy_resolution);
    let rules = rules_for(r.version).authorization;
    let maps: Vec<StateMap<OwnedEventId>> = sets.iter().map(to_state_map).collect();
    let chain_sets: Vec<HashSet<OwnedEventId>> = chains.iter().map(|c| c.iter().map(|id| OwnedEventId::try_from(id.as_str()).expect("id")).collect()).collect();
    // identical state sets are passed as one shared map (what a caller holding a single copy does)
    // and, for comparison, as equal copies at different addresses
    let mut refs: Vec<&StateMap<OwnedEventId>> = vec![];
    let mut shared = false;
    for i in 0..sets.len() {
        match (0..i).find(|&j| sets[j] == sets[i]) {
            Some(j) => {
                refs.push(&maps[j]);
                shared = true;
            }
            None => refs.push(&maps[i]),
        }
    }
    let out = ruma_state_res::resolve(&rules, refs, chain_sets.clone(), |id| r.fetch(id)).map_err(|e| e.to_string())?;
    if shared {
        let copies = ruma_state_res::resolve(&rules, maps.iter(), chain_sets, |id| r.fetch(id)).map_err(|e| e.to_string())?;
        if copies != out {
            return Err(format!("resolve depends on whether identical state sets are one shared map or equal copies: shared gives {:?}, copies give {:?}", from_state_map(&out), from_state_map(&copies)));
        }
    }
    Ok(from_state_map(&out))
}

// ---------------------------------------------------------------------------------------------
// strategies

pub fn action() -> impl Strategy<Value = Action> {
    prop_oneof![
        4 => Just(Action::Join),
        2 => Just(Action::Leave),
        1 => Just(Action::Knock),
        2 => (0u8..5).prop_map(Action::Invite),
        2 => (0u8..5).prop_map(Action::Kick),
        3 => (0u8..5).prop_map(Action::Ban),
        1 => (0u8..5).prop_map(Action::Unban),
        5 => (0u8..5, 0u8..5).prop_map(|(t, l)| Action::SetUserLevel(t, l)),
        3 => (0u8..7, 0u8..5).prop_map(|(f, l)| Action::SetField(f, l)),
        2 => (0u8..2, 0u8..5, 0u8..5).prop_map(|(m, k, l)| Action::SetMapEntry(m, k, l)),
        1 => (0u8..3).prop_map(Action::DropMap),
        2 => (0u8..4).prop_map(Action::SetJoinRule),
        6 => (0u8..3, 0u8..2, 0u8..4).prop_map(|(t, k, v)| Action::SetState(t, k, v)),
    ]
}

pub fn history(max_ops: usize) -> impl Strategy<Value = History> {
    let op = prop_oneof![
        12 => (any::<u16>(), prop_oneof![3 => Just(0u8), 2 => 1u8..5], action(), prop_oneof![0u8..4, any::<u8>()], any::<u8>()).prop_map(|(head, user, action, ts, salt)| Op::Act { head, user, action, ts, salt }),
        2 => any::<u16>().prop_map(|head| Op::Fork { head }),
        1 => (any::<u16>(), any::<u16>(), any::<u8>(), any::<u8>()).prop_map(|(a, b, ts, salt)| Op::Merge { a, b, ts, salt }),
    ];
    // early joins so that several users can act
    let warmup = prop::collection::vec((1u8..5, any::<u8>()).prop_map(|(user, salt)| Op::Act { head: 0, user, action: Action::Join, ts: 2, salt }), 1..4);
    (2u8..=11, prop::bool::weighted(0.6), (0u8..3, 0u8..3), warmup, prop::collection::vec(op, 0..max_ops), prop::collection::vec(prop::collection::vec(any::<u16>(), 2..5), 1..5)).prop_map(|(version, initial_power_levels, (ts_mode, auth_order), warmup, ops, picks)| {
        let mut all = warmup;
        // fork early so that branches diverge
        all.push(Op::Fork { head: 0 });
        all.extend(ops);
        History { version, initial_power_levels, ts_mode: (if ts_mode == 2 { 1 } else { 0 }) | (auth_order << 1), ops: all, picks }
    })
}
